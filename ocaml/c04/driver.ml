(* C04 driver: parsing/printing only.  Reads `C <scenario>` and `O <operation> <args>` lines, asks the
   extracted Lifecycle model for the file-level step list of each operation (show_op) and prints it:
     STEPS <scenario> <op index> <Mk|Rm>:<resource kind> ...
   tools/checks/C04.py compares these with the state-changing calls of the un-killed reference trace. *)
open Model

let rec nat_of_int n = if n <= 0 then O else S (nat_of_int (n - 1))

let kind_of = function
  | "pub" -> KPub | "sub" -> KSub | "not" -> KNot | "lis" -> KLis
  | "cli" -> KCli | "srv" -> KSrv | "wri" -> KWri | "rea" -> KRea
  | s -> failwith ("unknown port kind " ^ s)

let name_str = function
  | NTok -> "Tok" | NDet -> "Det" | NSTag -> "STag" | NPTag -> "PTag" | NStat -> "Stat" | NDyn -> "Dyn"
  | NSRes -> "SRes" | NRegN -> "RegN" | NRegP -> "RegP" | NData -> "Data" | NConn -> "Conn"

let tok_str = function TMk -> "Mk" | TRm -> "Rm"

let op_of words =
  match words with
  | ["node"] -> ONodeCreate
  | ["drop-node"] -> ONodeDrop
  | ["svc-create"; e] -> OSvcCreate (e = "1")
  | ["svc-open"] -> OSvcOpen
  | ["svc-drop"; e; l] -> OSvcDrop (e = "1", l = "1")
  | ["port-create"; k; c] -> OPortCreate (kind_of k, nat_of_int (int_of_string c))
  | ["port-drop"; k; c] -> OPortDrop (kind_of k, nat_of_int (int_of_string c))
  | _ -> failwith ("unknown operation " ^ String.concat " " words)

let () =
  let scenario = ref "?" and idx = ref 0 in
  (try
     while true do
       let line = input_line stdin in
       match String.split_on_char ' ' (String.trim line) with
       | "C" :: s :: _ -> scenario := s; idx := 0
       | "O" :: words ->
         incr idx;
         let o = op_of words in
         (* service open is printed with its registry step (see show_op_full in Lifecycle.v) *)
         let toks = (match o with OSvcOpen -> show_op_full o | _ -> show_op o) in
         Printf.printf "STEPS %s %d %s\n" !scenario !idx
           (String.concat " " (List.map (fun (t, n) -> tok_str t ^ ":" ^ name_str n) toks))
       | _ -> ()
     done
   with End_of_file -> ());
  flush stdout
