(* Correspondence driver for C11: replays the request-response histories that the Rust harness
   ran against the real ports on the extracted Coq model (Model.step) and evaluates the
   extracted oracle of the property (Model.o_recv / o_act_connected) on the implementation's own
   observations.  Parsing / printing only, plus one piece of bookkeeping: the model takes the
   order in which a receiver polls its connections as a parameter; the driver keeps the set of
   model states that are consistent with the observations so far (every polling order of the
   peers reported by Model.client_peers / server_peers is tried) and reports a kind=model
   mismatch when that set becomes empty. *)
open Model

let rec pos_of_int (i : int) : positive =
  if i = 1 then XH else if i land 1 = 0 then XO (pos_of_int (i lsr 1)) else XI (pos_of_int (i lsr 1))
let n_of_int (i : int) : n = if i = 0 then N0 else Npos (pos_of_int i)
let rec int_of_pos = function XH -> 1 | XO p -> 2 * int_of_pos p | XI p -> 2 * int_of_pos p + 1
let int_of_n = function N0 -> 0 | Npos p -> int_of_pos p

let show_err = function
  | EOom -> "e:oom" | EMaxLoans -> "e:maxloans" | EMaxActive -> "e:maxactive" | EMaxBorrows -> "e:maxborrows"
  | EMaxClients -> "e:ExceedsMaxSupportedClients" | EMaxServers -> "e:ExceedsMaxSupportedServers"
let rec show_obs = function
  | ONone -> "-" | OOk -> "ok" | OOkN v -> "ok" ^ string_of_int (int_of_n v)
  | OLoan (h, c) -> Printf.sprintf "ok%d:%d" (int_of_n h) (int_of_n c)
  | OErr e -> show_err e | ORecvNone -> "n"
  | OResp v -> let v = int_of_n v in Printf.sprintf "r%d.%d.%d" (v / 10000) ((v / 1000) mod 10) (v mod 1000)
  | OAct (h, r, c) -> Printf.sprintf "a%d:%d:%d" (int_of_n h) (int_of_n r) (int_of_n c)
  | OBool b -> if b then "b1" else "b0"
  | OPanic -> "P"
  | OQh (r, h) ->
    show_obs r ^ "~" ^ (match h with
        | None -> "-"
        | Some None -> "x"
        | Some (Some (b, o)) -> (if b then "b1" else "b0") ^ "~" ^ show_obs o)
let b01 b = if b then "1" else "0"
let show_digest s =
  let p = List.map (fun ((h, c), r) -> Printf.sprintf "%d:%s%s" (int_of_n h) (b01 c) (b01 r)) (digest_p s) in
  let a = List.map (fun (((h, j), c), d) -> Printf.sprintf "%d@%d:%s%s" (int_of_n h) (int_of_n j) (b01 c) (b01 d)) (digest_a s) in
  Printf.sprintf "P[%s] A[%s]" (String.concat "," p) (String.concat "," a)
let show_full s o = if o = OPanic then "P" else show_obs o ^ " | " ^ show_digest s

let parse_op name args =
  let a k = n_of_int (try int_of_string (List.nth args k) with _ -> 0) in
  match name with
  | "cc" -> Cc (a 0) | "cd" -> Cd (a 0) | "sc" -> Sc (a 0) | "sd" -> Sd (a 0)
  | "l" -> L (a 0) | "s" -> S_ | "lx" -> Lx | "q" | "qh" -> Q (a 0) | "qd" -> Qd (a 0)
  | "pr" -> Pr (a 0) | "pd" -> Pd (a 0) | "ph" -> Ph (a 0) | "rx" -> Rx (a 0)
  | "sr" -> Sr (a 0) | "sh" -> Sh (a 0)
  | "as" -> As (a 0) | "al" -> Al (a 0) | "aw" -> Aw | "ax" -> Ax | "ad" -> Ad (a 0)
  | _ -> failwith ("unknown op " ^ name)

let rec perms = function
  | [] -> [[]]
  | l -> List.concat_map (fun x -> List.map (fun p -> x :: p) (perms (List.filter (fun y -> y <> x) l))) l
let rec take k = function [] -> [] | x :: t -> if k = 0 then [] else x :: take (k - 1) t

(* "P[0:10,3:11] A[0@0:10]" -> pending hids, (active hid, connected) *)
let between s a b =
  try let i = String.index_from s 0 a in let j = String.index_from s i b in String.sub s (i + 1) (j - i - 1) with Not_found -> ""
let parse_pend_resp d =
  let ps = (try ignore (Str.search_forward (Str.regexp "P\\[\\([^]]*\\)\\]") d 0); Str.matched_group 1 d with Not_found -> "") in
  List.filter_map (fun e -> if e = "" then None else
    match String.split_on_char ':' e with
    | [h; f] when String.length f = 2 -> Some (int_of_string h, f.[1] = '1')
    | _ -> None) (String.split_on_char ',' ps)
let parse_digest d =
  let ps = (try let i = Str.search_forward (Str.regexp "P\\[\\([^]]*\\)\\]") d 0 in ignore i; Str.matched_group 1 d with Not_found -> "") in
  let as_ = (try let i = Str.search_forward (Str.regexp "A\\[\\([^]]*\\)\\]") d 0 in ignore i; Str.matched_group 1 d with Not_found -> "") in
  let pend = List.filter_map (fun e -> if e = "" then None else Some (int_of_string (List.hd (String.split_on_char ':' e)))) (String.split_on_char ',' ps) in
  let act = List.filter_map (fun e ->
      if e = "" then None else
      match String.split_on_char '@' e with
      | [h; r] -> (match String.split_on_char ':' r with [j; f] -> Some (int_of_string h, int_of_string j, f.[0] = '1') | _ -> None)
      | _ -> None) (String.split_on_char ',' as_) in
  (pend, act)

let () =
  let cands = ref [] and g = ref None in
  let case_no = ref 0 and op_no = ref 0 and ops_total = ref 0 in
  let mm_model = ref 0 and mm_spec = ref 0 in
  let cur_case = Buffer.create 256 and cur_nontrivial = ref false in
  let seen = Hashtbl.create 100000 and distinct_nontrivial = ref 0 in
  let opcount = Hashtbl.create 64 and extra = Hashtbl.create 64 in
  let bump t k = Hashtbl.replace t k (1 + try Hashtbl.find t k with Not_found -> 0) in
  let dead = ref false and spec_dead = ref false and disc_dead = ref false in
  let ospec = ref ospec0 and pend_before = ref [] and srv_seen = ref [] in
  let hyp_false = ref false and reuse_seen = ref false and cd_seen = ref false in
  let conn_seen = ref [] and spur_dead = ref false and spurk_dead = ref false in
  let pre_cands = ref [] and acts_before = ref [] in
  let resp_before = ref [] and lost_dead = ref false in
  let next_hid = ref 0 and loans_q = ref [] and maybe = Array.make 4 [] and act_known = ref [] and rl_dead = ref false and rd_dead = ref false in
  let printed = Hashtbl.create 64 in
  let report sg text =
    let n = try Hashtbl.find printed sg with Not_found -> 0 in
    Hashtbl.replace printed sg (n + 1);
    if n < 3 then print_string text in
  (* a spurious close caused by the drop of an ActiveRequest whose connection slot belongs to ANOTHER client
     than the one that sent its request (the agreeing model says so on the state before the drop) is the known
     slot-reuse class; everything else (e.g. a stale ActiveRequest of the SAME live client) is not *)
  let spur_class (o : op) (model_alive : bool) =
    match o with
    | Ad k when model_alive && !pre_cands <> [] ->
      (match (try Some (List.nth !acts_before (int_of_n k)) with _ -> None) with
       | Some (h, _, _) when List.for_all (fun st -> act_foreign st (n_of_int h)) !pre_cands -> "disconnect_spurious_newclient"
       | _ -> "disconnect_spurious")
    | _ -> "disconnect_spurious" in
  let maxc = ref 1 in
  let flush_case () =
    if Buffer.length cur_case > 0 then begin
      let key = Digest.string (Buffer.contents cur_case) in
      if !cur_nontrivial && not (Hashtbl.mem seen key) then begin Hashtbl.add seen key (); incr distinct_nontrivial end;
      Buffer.clear cur_case; cur_nontrivial := false
    end in
  (try
    while true do
      let line = input_line stdin in
      let toks = List.filter (fun s -> s <> "") (String.split_on_char ' ' line) in
      match toks with
      | "C" :: _variant :: kvs ->
        flush_case (); incr case_no; op_no := 0; dead := false; spec_dead := false; disc_dead := false;
        ospec := ospec0; pend_before := []; srv_seen := []; hyp_false := false; reuse_seen := false; cd_seen := false; conn_seen := []; spur_dead := false; spurk_dead := false; pre_cands := []; acts_before := []; resp_before := []; lost_dead := false; next_hid := 0; loans_q := []; Array.fill maybe 0 4 []; act_known := []; rl_dead := false; rd_dead := false;
        let kv k = let p = k ^ "=" in
          let e = List.find (fun s -> String.length s > String.length p && String.sub s 0 (String.length p) = p) kvs in
          int_of_string (String.sub e (String.length p) (String.length e - String.length p)) in
        let c = { mA = n_of_int (kv "ma"); mL = n_of_int (kv "ml"); rB = n_of_int (kv "rb"); mB = n_of_int (kv "mb"); mLR = n_of_int (kv "mlr");
                  mS = n_of_int (kv "ms"); mC = n_of_int (kv "mc"); ovq = kv "ovq" <> 0; ovr = kv "ovr" <> 0; faf = kv "faf" <> 0; pre = n_of_int (kv "pre") } in
        g := Some c; cands := [init c];
        Buffer.add_string cur_case (String.concat " " kvs ^ "|")
      | ("O" | "U") :: "teardown" :: _ ->
        incr mm_spec;
        Printf.printf "MISMATCH case=%d op=%d kind=spec line=[%s] spec=no-panic impl=P\n" !case_no !op_no line
      | ("O" | "U") :: name :: rest ->
        incr op_no; incr ops_total;
        let rec split acc = function "=" :: r -> (List.rev acc, r) | x :: r -> split (x :: acc) r | [] -> (List.rev acc, []) in
        let (args, obs) = split [] rest in
        let impl = String.concat " " obs in
        let impl_obs = match obs with o :: _ -> o | [] -> "?" in
        Buffer.add_string cur_case (name ^ " " ^ String.concat " " args ^ ";");
        bump opcount name;
        if String.length impl_obs > 1 && impl_obs.[0] = 'e' then bump extra ("outcome_" ^ String.map (fun c -> if c = ':' then '_' else c) impl_obs);
        if impl_obs = "P" then bump extra "outcome_panic";
        let o = parse_op name args in
        let c = match !g with Some c -> c | None -> failwith "op before case" in
        (* the class of the known finding: a client is created after a client was dropped *)
        (match o with
         | Cd _ when impl_obs = "ok" -> cd_seen := true
         | Cc _ when impl_obs = "ok" && !cd_seen -> reuse_seen := true
         | _ -> ());
        (* ---- the concrete model (the tie) ---- *)
        if not !dead then begin
          pre_cands := !cands;
          let next = ref [] in
          let first = ref None in
          (* the hypothesis of c11_routing_under_send_ok, evaluated on the (agreeing) model *)
          if List.exists (fun st -> not (step_send_okb c st o)) !cands then begin
            bump extra "send_hypothesis_false_ops";
            if not !hyp_false then begin hyp_false := true; bump extra "send_hypothesis_false_cases" end;
            if not !reuse_seen then begin
              incr mm_spec;
              report "spechyp" (Printf.sprintf "MISMATCH case=%d op=%d kind=spec what=send_hypothesis_outside_known_class line=[%s] spec=response-sent-into-a-connection-of-the-requesting-client impl=%s\n" !case_no !op_no line impl_obs)
            end
          end;
          let arg k = n_of_int (try int_of_string (List.nth args k) with _ -> 0) in
          let ox = if name = "qh" then XQh (arg 0, arg 1) else XOp o in
          List.iter (fun s ->
              let peers = (match ox with XOp (Pr k) -> client_peers s k | XOp (Sr j) -> server_peers s j | XQh (_, j) -> server_peers s j | _ -> []) in
              let ords = if List.length peers <= 1 then [peers] else take 24 (perms peers) in
              (* the scripted send serves the client's connections in an order the model does not fix either *)
              let dpeers = (match ox with XQh (i, _) -> client_send_peers s i | _ -> []) in
              let dords = if List.length dpeers <= 1 then [dpeers] else take 24 (perms dpeers) in
              List.iter (fun ord -> List.iter (fun dord ->
                  let (s', ob) = stepx c ord dord s ox in
                  let text = show_full s' ob in
                  if !first = None then first := Some text;
                  if text = impl && not (List.mem s' !next) then next := s' :: !next) dords) ords) !cands;
          (* c11_reqres_conservation_full, evaluated on every model state that agrees with the implementation *)
          if List.exists (fun st -> not (cons_okb st)) !next then begin
            incr mm_model;
            report "modelcons" (Printf.sprintf "MISMATCH case=%d op=%d kind=model what=conservation line=[%s] model=[reference-count-conservation-fails-on-the-model] impl=[%s]\n" !case_no !op_no line impl)
          end;
          (match !next with
           | [] ->
             incr mm_model; dead := true;
             report ("model" ^ name) (Printf.sprintf "MISMATCH case=%d op=%d kind=model line=[%s] model=[%s] impl=[%s]\n" !case_no !op_no line
                                       (match !first with Some t -> t | None -> "?") impl)
           | l -> cands := take 16 (List.rev l); if List.length l > !maxc then maxc := List.length l);
          if impl_obs = "P" then dead := true
        end;
        (* ---- requests that must not get lost (observations only): maybe.(j) over-approximates the requests queued
           at server slot j; a receive that returns None although has_requests() just reported a request is
           legitimate only if one of them belongs to a dropped pending response (fire-and-forget off) ---- *)
        let argi k = (try int_of_string (List.nth args k) with _ -> 0) in
        let starts p str = String.length str >= String.length p && String.sub str 0 (String.length p) = p in
        let ok_count str = (* "ok<n>" or "ok<n>~..." *)
          if starts "ok" str then (try Scanf.sscanf (String.sub str 2 (String.length str - 2)) "%d" (fun n -> Some n) with _ -> None) else None in
        let servers_now = ref [] in
        (match !g with Some c0 -> ignore c0 | None -> ());
        let add_delivered h = for j = 0 to 3 do if List.mem j !servers_now then maybe.(j) <- h :: maybe.(j) done in
        ignore add_delivered;
        let sr_result j res =
          if res = "n" then maybe.(j) <- []
          else if starts "a" res then
            (match String.split_on_char ':' (String.sub res 1 (String.length res - 1)) with
             | h :: _ -> (try let h = int_of_string h in maybe.(j) <- List.filter (fun x -> x <> h) maybe.(j) with _ -> ())
             | [] -> ()) in
        let faf_on = (match !g with Some c0 -> c0.faf | None -> true) in
        let lost_check j sh res =
          if (not faf_on) && sh = "b1" && res = "n" && (not !rl_dead) && List.for_all (fun h -> List.mem h !pend_before) maybe.(j) then begin
            rl_dead := true; incr mm_spec;
            report "specreqlost" (Printf.sprintf "MISMATCH case=%d op=%d kind=spec what=request_lost line=[%s] spec=has_requests-reported-a-request-of-a-live-pending-response-so-receive-returns-it impl=%s\n" !case_no !op_no line impl_obs)
          end in
        (match name with
         | "sc" | "sd" when impl_obs = "ok" -> maybe.(argi 0) <- []
         | "l" when impl_obs <> "-" -> let h = !next_hid in incr next_hid; if starts "ok" impl_obs then loans_q := !loans_q @ [h]
         | "lx" when impl_obs <> "-" -> (match !loans_q with _ :: t -> loans_q := t | [] -> ())
         | "s" when impl_obs <> "-" ->
           (match !loans_q with
            | h :: t -> loans_q := t; (match ok_count impl_obs with Some n when n >= 1 -> for j = 0 to 3 do maybe.(j) <- h :: maybe.(j) done | _ -> ())
            | [] -> ())
         | "q" | "qd" when impl_obs <> "-" ->
           let h = !next_hid in incr next_hid;
           (match ok_count impl_obs with Some n when n >= 1 -> for j = 0 to 3 do maybe.(j) <- h :: maybe.(j) done | _ -> ())
         | "qh" when impl_obs <> "-" ->
           let h = !next_hid in incr next_hid;
           let j = argi 1 in
           (match String.split_on_char '~' impl_obs with
            | [_; sh; res] -> lost_check j sh res; sr_result j res
            | _ -> ());
           (match ok_count impl_obs with Some n when n >= 1 -> for jj = 0 to 3 do if not (jj = j && (match String.split_on_char '~' impl_obs with [_; _; res] -> starts "a" res | _ -> false)) then maybe.(jj) <- h :: maybe.(jj) done | _ -> ())
         | "sr" when impl_obs <> "-" -> sr_result (argi 0) impl_obs
         | _ -> ());
        (* a poll of one pending response touches only its own channel: a response queued for a SIBLING pending
           response must still be there afterwards (regression of fix 9915d96) *)
        let resp_now = parse_pend_resp impl in
        (match o with
         | Pr k when impl_obs <> "P" ->
           let polled = (try fst (List.nth !resp_before (int_of_n k)) with _ -> -1) in
           List.iter (fun (h, had) ->
               if had && h <> polled && List.mem_assoc h resp_now && not (List.assoc h resp_now) && not !lost_dead then begin
                 lost_dead := true; incr mm_spec;
                 report "speclost" (Printf.sprintf "MISMATCH case=%d op=%d kind=spec what=response_lost_by_sibling_poll line=[%s] spec=queued-response-of-request-%d-survives-a-receive-on-another-pending-response impl=%s\n" !case_no !op_no line h impl_obs)
               end) !resp_before
         | _ -> ());
        resp_before := resp_now;
        (* an ActiveRequest that is handed out while the PendingResponse of its request is alive is connected *)
        (let (pend_now, act_now) = parse_digest impl in
         List.iter (fun (h, j, conn) ->
             if not (List.mem (h, j) !act_known) then begin
               act_known := (h, j) :: !act_known;
               if (not conn) && List.mem h pend_now && not !rd_dead then begin
                 rd_dead := true; incr mm_spec;
                 report "specrecvdisc" (Printf.sprintf "MISMATCH case=%d op=%d kind=spec what=received_disconnected line=[%s] spec=active-request-%d@%d-is-connected-while-its-pending-response-is-alive impl=%s\n" !case_no !op_no line h j impl_obs)
               end
             end) act_now);
        (* ---- the oracle of the property, on the implementation's observations ---- *)
        if not !spec_dead then begin
          let bad what spec =
            (* name the class: does the (agreeing) model say the other end belongs to another client? *)
            let what = if !dead || !cands = [] then what else
                match what, o with
                | "routing", _ when List.for_all last_recv_foreign !cands -> "routing_newclient"
                | "disconnect", _ -> what
                | _ -> what in
            incr mm_spec; if String.length what >= 10 && String.sub what 0 10 = "disconnect" then disc_dead := true else spec_dead := true;
            report ("spec" ^ what) (Printf.sprintf "MISMATCH case=%d op=%d kind=spec what=%s line=[%s] spec=%s impl=%s\n" !case_no !op_no what line spec impl_obs) in
          if impl_obs = "P" then bad "panic" "no-panic"
          else begin
            (match o with
             | Pr k when String.length impl_obs > 1 && impl_obs.[0] = 'r' ->
               cur_nontrivial := true;
               (match String.split_on_char '.' (String.sub impl_obs 1 (String.length impl_obs - 1)) with
                | [h; sl; sq] ->
                  let pend = (try List.nth !pend_before (int_of_n k) with _ -> -1) in
                  let (o', ok) = o_recv !ospec (n_of_int (max pend 0)) (n_of_int (int_of_string h)) (n_of_int (int_of_string sl)) (n_of_int (int_of_string sq)) in
                  ospec := o';
                  if pend < 0 || not ok then
                    bad (if pend <> int_of_string h then "routing" else "order") (Printf.sprintf "response-of-request-%d-in-send-order-at-most-once" pend)
                | _ -> bad "format" "r<hid>.<slot>.<seq>")
             | (Q _ | Qd _ | S_) when String.length impl_obs > 2 && String.sub impl_obs 0 2 = "ok" ->
               (* cheap structural clause: a request has at most max_servers recipients *)
               (match int_of_string_opt (String.sub impl_obs 2 (String.length impl_obs - 2)) with
                | Some n when n > int_of_n c.mS -> bad "recipients" (Printf.sprintf "at-most-%d-recipients" (int_of_n c.mS))
                | _ -> ())
             | Sr j when String.length impl_obs > 1 && impl_obs.[0] = 'a' ->
               (* a request is handed out at most once per server *)
               let h = List.hd (String.split_on_char ':' (String.sub impl_obs 1 (String.length impl_obs - 1))) in
               let key = (int_of_n j, h) in
               if List.mem key !srv_seen then bad "request_twice" "each-request-received-at-most-once-per-server"
               else srv_seen := key :: !srv_seen
             | _ -> ());
            let (pend, act) = parse_digest impl in
              List.iter (fun (h, j, conn) ->
                  (* is_connected of a live request's two ends stays true until one of ITS ends is dropped *)
                  if conn then (if not (List.mem (h, j) !conn_seen) then conn_seen := (h, j) :: !conn_seen)
                  else if List.mem (h, j) !conn_seen && (conn_seen := List.filter (fun x -> x <> (h, j)) !conn_seen; true) && List.mem h pend && not (if spur_class o (not !dead) = "disconnect_spurious" then !spur_dead else !spurk_dead) then begin
                    let w = spur_class o (not !dead) in
                    if w = "disconnect_spurious" then spur_dead := true else spurk_dead := true; incr mm_spec;
                    report ("spec" ^ w) (Printf.sprintf "MISMATCH case=%d op=%d kind=spec what=%s line=[%s] spec=active-request-%d@%d-and-its-pending-response-both-alive-stay-connected impl=%s\n" !case_no !op_no w line h j impl_obs)
                  end;
                  if not !spec_dead && not !disc_dead && not (o_act_connected (List.mem h pend) conn) then
                    bad (if (not !dead) && !cands <> [] && List.for_all (fun st -> act_foreign st (n_of_int h)) !cands then "disconnect_newclient" else "disconnect") (Printf.sprintf "active-request-%d-not-connected-after-its-pending-response-was-dropped" h)) act;
            pend_before := pend; acts_before := act
          end
        end else begin
          let (pend, act) = parse_digest impl in pend_before := pend;
          List.iter (fun (h, j, conn) ->
              if conn then (if not (List.mem (h, j) !conn_seen) then conn_seen := (h, j) :: !conn_seen)
              else if List.mem (h, j) !conn_seen && (conn_seen := List.filter (fun x -> x <> (h, j)) !conn_seen; true) && List.mem h pend && not (if spur_class o (not !dead) = "disconnect_spurious" then !spur_dead else !spurk_dead) then begin
                let w = spur_class o (not !dead) in
                if w = "disconnect_spurious" then spur_dead := true else spurk_dead := true; incr mm_spec;
                report ("spec" ^ w) (Printf.sprintf "MISMATCH case=%d op=%d kind=spec what=%s line=[%s] spec=active-request-%d@%d-and-its-pending-response-both-alive-stay-connected impl=%s\n" !case_no !op_no w line h j impl_obs)
              end) act;
          acts_before := act
        end
      | [] -> ()
      | "PROBE" :: _ -> ()
      | _ -> failwith ("bad line: " ^ line)
    done
  with End_of_file -> ());
  flush_case ();
  Printf.printf "SUMMARY cases=%d ops=%d mismatches_model=%d mismatches_spec=%d distinct_nontrivial=%d\n"
    !case_no !ops_total !mm_model !mm_spec !distinct_nontrivial;
  Hashtbl.iter (fun k v -> Printf.printf "OPCOUNT %s %d\n" k v) opcount;
  Hashtbl.iter (fun k v -> Printf.printf "EXTRA %s %d\n" k v) extra;
  Printf.printf "EXTRA max_model_candidates_seen_in_job %d\n" !maxc
