(* C12 driver: step model of the two-cell sequence lock (UnrestrictedAtomic) against the real
   code (G1), and -- with argument "g3" -- the sequential blackboard registry model against
   histories through the real iceoryx2 API. *)
open Model
open G1drv

(* ---------------- G3 part (blackboard registry) ---------------- *)
(* G3 part of the C12 driver (API-level uniqueness of the blackboard writer port / write handles).
   A fragment: paste it into ocaml/c12/driver.ml after `open Model`; entry point `run_g3 ()`.
   Parsing / printing only; all behaviour comes from Model (extracted from model/Blackboard.v):
     bb_new bb_step         the concrete model (the tie): replayed on the harness's operations,
                            its observation and its (number_of_writers, number_of_readers) are
                            compared with the implementation's            -> kind=model
     bb_sp_new bb_sp_step   the reference specification, an ACCEPTOR that is driven by the
     bb_sp_digest_ok        implementation's OWN observations (never by the model's): it rejects
                            e.g. a second successful create-writer while a Writer is held, a second
                            live write handle for a key, a get that is not the last written value,
                            a refused create when nothing holds the resource, more than
                            max_writers registered writers                 -> kind=spec
   input (harness/g3/c12):
     C <local|ipc> mr=<max_readers> ty=<t,..> init=<v,..> hist=<replay string>
     O <op> <args> = <observation> | w=<n> r=<n> *)
module G3 = struct
  let rec pos_of_int (i : int) : positive =
    if i = 1 then XH else if i land 1 = 0 then XO (pos_of_int (i lsr 1)) else XI (pos_of_int (i lsr 1))
  let n_of_int (i : int) : n = if i = 0 then N0 else Npos (pos_of_int i)
  let rec int_of_pos = function XH -> 1 | XO p -> 2 * int_of_pos p | XI p -> 2 * int_of_pos p + 1
  let int_of_n = function N0 -> 0 | Npos p -> int_of_pos p
  let rec nat_of_int (i : int) : nat = if i <= 0 then O else S (nat_of_int (i - 1))
  let rec int_of_nat = function O -> 0 | S k -> 1 + int_of_nat k
  let soi = string_of_int

  (* the harness's vocabulary; "noentry" is EntryHandleMutError::EntryDoesNotExist for `we` and
     EntryHandleError::EntryDoesNotExist for `re` *)
  let show_obs (name : string) (o : bobs) : string =
    match o with
    | OOk -> "ok"
    | OId k -> "ok" ^ soi (int_of_nat k)
    | OWriterErr ExceedsMaxSupportedWriters -> "maxw"
    | OWriterErr W_InternalFailure -> "err:InternalFailure"
    | OWriterErr W_FailedToDeployThreadsafetyPolicy -> "err:FailedToDeployThreadsafetyPolicy"
    | OWriterErr W_UnableToCreatePortTag -> "err:UnableToCreatePortTag"
    | OHandleMutErr HM_EntryDoesNotExist -> "noentry"
    | OHandleMutErr HM_HandleAlreadyExists -> "exists"
    | OReaderErr ExceedsMaxSupportedReaders -> "maxr"
    | OReaderErr R_FailedToDeployThreadsafetyPolicy -> "err:FailedToDeployThreadsafetyPolicy"
    | OReaderErr R_UnableToCreatePortTag -> "err:UnableToCreatePortTag"
    | OHandleErr -> ignore name; "noentry"
    | OValue (v, g) -> "v" ^ soi (int_of_n v) ^ "g" ^ soi (int_of_n g)
    | OBool true -> "t"
    | OBool false -> "f"
    | ORefused -> "-"

  let is_digits s = s <> "" && (let ok = ref true in String.iter (fun c -> if c < '0' || c > '9' then ok := false) s; !ok)

  let parse_obs (name : string) (s : string) : bobs option =
    let len = String.length s in
    match s with
    | "ok" -> Some OOk
    | "maxw" -> Some (OWriterErr ExceedsMaxSupportedWriters)
    | "maxr" -> Some (OReaderErr ExceedsMaxSupportedReaders)
    | "exists" -> Some (OHandleMutErr HM_HandleAlreadyExists)
    | "noentry" -> if name = "re" then Some OHandleErr else Some (OHandleMutErr HM_EntryDoesNotExist)
    | "t" -> Some (OBool true)
    | "f" -> Some (OBool false)
    | "-" -> Some ORefused
    | _ ->
      if len > 2 && String.sub s 0 2 = "ok" && is_digits (String.sub s 2 (len - 2)) then
        Some (OId (nat_of_int (int_of_string (String.sub s 2 (len - 2)))))
      else if len > 1 && s.[0] = 'v' then
        (match String.index_opt s 'g' with
         | Some i when is_digits (String.sub s 1 (i - 1)) && is_digits (String.sub s (i + 1) (len - i - 1)) ->
           Some (OValue (n_of_int (int_of_string (String.sub s 1 (i - 1))),
                         n_of_int (int_of_string (String.sub s (i + 1) (len - i - 1)))))
         | _ -> None)
      else None

  let parse_op (name : string) (args : string list) : bop =
    let ai k = int_of_string (List.nth args k) in
    let an k = nat_of_int (ai k) in
    match name with
    | "cw" -> CreateWriter                       (* the factory index is not part of the model *)
    | "dw" -> DropWriter (an 0)
    | "we" -> WriterEntry (an 0, an 1, n_of_int (ai 2))
    | "dh" -> DropHandleMut (an 0)
    | "uc" -> UpdateWithCopy (an 0, n_of_int (ai 1))
    | "lu" -> LoanUninit (an 0)
    | "wl" -> WriteLoan (an 0, n_of_int (ai 1))
    | "al" -> AssumeInit (an 0)
    | "ul" -> UpdateLoan (an 0, n_of_int (ai 1))
    | "dl" -> DiscardLoan (an 0)
    | "cr" -> CreateReader
    | "dr" -> DropReader (an 0)
    | "re" -> ReaderEntry (an 0, an 1, n_of_int (ai 2))
    | "dx" -> DropHandle (an 0)
    | "g" -> Get (an 0)
    | "ud" -> IsUpToDate (an 0)
    | _ -> failwith ("unknown op " ^ name)

  let kv tok = match String.index_opt tok '=' with
    | Some i -> (String.sub tok 0 i, String.sub tok (i + 1) (String.length tok - i - 1))
    | None -> (tok, "")

  let run () =
    let st : bb option ref = ref None          (* None: the model diverged in this case (or no case yet) *)
    and sp : sp option ref = ref None in       (* None: the specification rejected earlier in this case *)
    let case_no = ref 0 and op_no = ref 0 and ops_total = ref 0 in
    let mm_model = ref 0 and mm_spec = ref 0 in
    let cur_case = Buffer.create 256 and cur_nontrivial = ref false in
    let seen = Hashtbl.create 100000 in
    let distinct_nontrivial = ref 0 in
    let opcount = Hashtbl.create 64 and extra = Hashtbl.create 64 in
    let bump tbl k = Hashtbl.replace tbl k (1 + try Hashtbl.find tbl k with Not_found -> 0) in
    (* bookkeeping for the EXTRA coverage counters only (never for a verdict) *)
    let refused_since_create = ref false and handle_refused = ref false in
    let flush_case () =
      if Buffer.length cur_case > 0 then begin
        let key = Digest.string (Buffer.contents cur_case) in
        if !cur_nontrivial && not (Hashtbl.mem seen key) then begin
          Hashtbl.add seen key (); incr distinct_nontrivial end;
        Buffer.clear cur_case; cur_nontrivial := false
      end in
    (try
      while true do
        let line = input_line stdin in
        let toks = List.filter (fun s -> s <> "") (String.split_on_char ' ' line) in
        match toks with
        | "C" :: kind :: rest ->
          flush_case (); incr case_no; op_no := 0;
          let get k = try List.assoc k (List.map kv rest) with Not_found -> failwith ("header lacks " ^ k) in
          let ints s = List.map int_of_string (List.filter (fun x -> x <> "") (String.split_on_char ',' s)) in
          let mr = int_of_string (get "mr") in
          let tys = ints (get "ty") and inits = ints (get "init") in
          if List.length tys <> List.length inits then failwith "ty/init differ in length";
          let init = List.map2 (fun t v -> (n_of_int t, n_of_int v)) tys inits in
          (* distinct = distinct (max_readers, history); the service kind is deliberately not part of the key *)
          Buffer.add_string cur_case (Printf.sprintf "%d|" mr);
          bump extra ("cases_" ^ kind);
          refused_since_create := false; handle_refused := false;
          st := Some (bb_new (nat_of_int mr) init);
          sp := Some (bb_sp_new (nat_of_int mr) init)
        | "O" :: name :: rest ->
          incr op_no; incr ops_total;
          let rec split acc = function "=" :: r -> (List.rev acc, r) | x :: r -> split (x :: acc) r | [] -> (List.rev acc, []) in
          let (args, obs) = split [] rest in
          let impl = (match obs with o :: _ -> o | [] -> "?") in
          let digest = (match obs with _ :: "|" :: d -> List.map kv d | _ -> []) in
          let dnum k = try Some (int_of_string (List.assoc k digest)) with _ -> None in
          Buffer.add_string cur_case (name ^ " " ^ String.concat " " args ^ ";");
          bump opcount name;
          let o = parse_op name args in
          (* ---- the concrete model ---- *)
          (match !st with
           | None -> ()
           | Some s ->
             let (s', om) = bb_step s o in
             let oms = show_obs name om in
             if oms <> impl then begin
               incr mm_model; st := None;
               Printf.printf "MISMATCH case=%d op=%d kind=model line=[%s] model=%s impl=%s\n" !case_no !op_no line oms impl
             end else begin
               let mw = int_of_nat (bb_nwriters s') and mrd = int_of_nat (bb_nreaders s') in
               (match dnum "w", dnum "r" with
                | Some w, Some r when w = mw && r = mrd -> st := Some s'
                | _ ->
                  incr mm_model; st := None;
                  Printf.printf "MISMATCH case=%d op=%d kind=model line=[%s] model=w=%d_r=%d impl=registered-ports-differ\n"
                    !case_no !op_no line mw mrd)
             end);
          (* ---- the reference specification, on the implementation's own observations ---- *)
          (match !sp with
           | None -> ()
           | Some a ->
             (match parse_obs name impl with
              | None ->
                incr mm_spec; sp := None;
                Printf.printf "MISMATCH case=%d op=%d kind=spec line=[%s] spec=no-such-answer impl=%s\n" !case_no !op_no line impl
              | Some ob ->
                (match bb_sp_step a o ob with
                 | None ->
                   incr mm_spec; sp := None;
                   Printf.printf "MISMATCH case=%d op=%d kind=spec line=[%s] spec=inadmissible impl=%s\n" !case_no !op_no line impl
                 | Some a' ->
                   sp := Some a';
                   (match dnum "w", dnum "r" with
                    | Some w, Some r ->
                      if not (bb_sp_digest_ok a' (nat_of_int w) (nat_of_int r)) then begin
                        incr mm_spec;
                        Printf.printf "MISMATCH case=%d op=%d kind=spec line=[%s] spec=registered-ports-inadmissible impl=w=%d_r=%d\n"
                          !case_no !op_no line w r end
                    | _ ->
                      incr mm_spec;
                      Printf.printf "MISMATCH case=%d op=%d kind=spec line=[%s] spec=digest-missing impl=%s\n" !case_no !op_no line impl))));
          (* ---- coverage counters ---- *)
          (match name, impl with
           | "cw", "maxw" -> bump extra "cw.maxw"; cur_nontrivial := true; refused_since_create := true
           | "cw", _ when String.length impl > 2 && String.sub impl 0 2 = "ok" ->
             bump extra "cw.ok"; if !refused_since_create then bump extra "cw.ok_after_refusal"; refused_since_create := false
           | "we", "exists" -> bump extra "we.exists"; cur_nontrivial := true; handle_refused := true
           | "we", "noentry" -> bump extra "we.noentry"
           | "we", _ when String.length impl > 2 && String.sub impl 0 2 = "ok" ->
             bump extra "we.ok"; if !handle_refused then bump extra "we.ok_after_refusal"
           | "cr", "maxr" -> bump extra "cr.maxr"
           | "re", "noentry" -> bump extra "re.noentry"
           | ("uc" | "ul" | "al"), "ok" ->
             bump extra "updates"; if !refused_since_create || !handle_refused then bump extra "updates_after_a_refused_create"
           | "g", _ when String.length impl > 1 && impl.[0] = 'v' -> bump extra "gets"
           | "ud", "f" -> bump extra "ud.f"
           | "dw", "ok" -> (match dnum "w" with Some 1 -> bump extra "dw.slot_kept_by_handle" | _ -> ())
           | _, "P" -> bump extra "panics"
           | _ -> ())
        | [] -> ()
        | _ -> failwith ("bad line: " ^ line)
      done
    with End_of_file -> ());
    flush_case ();
    Printf.printf "SUMMARY cases=%d ops=%d mismatches_model=%d mismatches_spec=%d distinct_nontrivial=%d\n"
      !case_no !ops_total !mm_model !mm_spec !distinct_nontrivial;
    Hashtbl.iter (fun k v -> Printf.printf "OPCOUNT %s %d\n" k v) opcount;
    Hashtbl.iter (fun k v -> Printf.printf "EXTRA %s %d\n" k v) extra
end

let run_g3 : unit -> unit = G3.run

(* ---------------- G1 part (sequence lock) ---------------- *)

type aop = Acq | Rel | St of int | Ln of int | Dc of int | Ld
let parse_aop s =
  let num k = int_of_string (String.sub s k (String.length s - k)) in
  match s with
  | "acq" -> Acq | "rel" -> Rel | "ld" -> Ld
  | _ when String.length s > 2 && String.sub s 0 2 = "st" -> St (num 2)
  | _ when String.length s > 2 && String.sub s 0 2 = "ln" -> Ln (num 2)
  | _ when String.length s > 2 && String.sub s 0 2 = "dc" -> Dc (num 2)
  | _ -> failwith ("op " ^ s)

let rec int_of_nat = function O -> 0 | S k -> 1 + int_of_nat k

(* the harness payload: n-1 copies of the counter byte b and the checksum 255-b (n = 1: [b]) *)
let payload n b = if n < 2 then List.init n (fun _ -> b) else List.init n (fun i -> if i = n - 1 then 255 - b else b)
(* the harness hash, computed here independently of the extracted model *)
let hash bytes = List.fold_left (fun h x -> (h * 31 + x + 1) mod 4294967296) 7 bytes
let torn_flag = 1 lsl 40
let init_byte = 0

(* oracle on the implementation's own return values (completion order) and final observation *)
let spec_check n (progs : aop list array) rets final =
  let nt = Array.length progs in
  let ops = Array.map (fun l -> ref l) progs in
  let holder = ref None in
  let holds = Array.make nt false in
  let loan_pending = Array.make nt None in
  let published = ref [ hash (payload n init_byte) ] in   (* newest first *)
  let npub = ref 1 in
  let since = Array.make nt 1 in      (* number of published values when the thread's previous operation returned *)
  let last_idx = Array.make nt 0 in
  let err = ref None in
  let fail m = if !err = None then err := Some m in
  let publish b = published := hash (payload n b) :: !published; incr npub in
  List.iter (fun (t, code) ->
    if code = "P" then fail (Printf.sprintf "thread %d panicked" t) else begin
    let c = int_of_string code in
    (match loan_pending.(t) with
     | Some b -> loan_pending.(t) <- None; publish b      (* second return of a loan: the update *)
     | None ->
       let rec next () = match !(ops.(t)) with
         | [] -> None
         | o :: r -> ops.(t) := r;
           (match o with
            | Rel when not holds.(t) -> next ()
            | (St _ | Ln _ | Dc _) when not holds.(t) -> next ()
            | _ -> Some o) in
       (match next () with
        | Some Acq ->
          if c = 1 then begin
            (match !holder with Some h -> fail (Printf.sprintf "acquire_producer succeeded for thread %d while thread %d holds the producer" t h) | None -> ());
            holder := Some t; holds.(t) <- true end
          else if !holder = None then fail (Printf.sprintf "acquire_producer failed for thread %d although no producer exists" t)
        | Some Rel -> holder := None; holds.(t) <- false
        | Some (St b) -> publish b
        | Some (Ln b) -> loan_pending.(t) <- Some b
        | Some (Dc _) -> ()
        | Some Ld ->
          if c >= torn_flag then fail (Printf.sprintf "thread %d loaded a value that is not in one piece (payload self-check failed)" t)
          else begin
            (* index (0 = initial value) of the loaded value among the published ones *)
            let rec find i = function [] -> None | h :: r -> if h = c then Some i else find (i - 1) r in
            match find (!npub - 1) !published with
            | None -> fail (Printf.sprintf "thread %d loaded a value (code %d) that was never published" t c)
            | Some idx ->
              if idx < since.(t) - 1 then
                fail (Printf.sprintf "thread %d loaded value #%d although value #%d was already published when the load started" t idx (since.(t) - 1))
              else if idx < last_idx.(t) then
                fail (Printf.sprintf "thread %d went back from value #%d to value #%d" t last_idx.(t) idx)
              else last_idx.(t) <- idx
          end
        | None -> fail (Printf.sprintf "thread %d returned more often than its program has operations" t)));
    since.(t) <- !npub end) rets;
  (match final with
   | [ w; c ] ->
     if !err = None then begin
       if int_of_string w <> !npub then fail (Printf.sprintf "final write_cell %s <> 1 + number of completed updates (%d)" w (!npub - 1))
       else if int_of_string c <> List.hd !published then fail "final value is not the last published value"
     end
   | _ -> ());
  !err

(* coverage of the model's branches (the events counted here were compared with the implementation's) *)
let extra : (string, int) Hashtbl.t = Hashtbl.create 32
let bump k = Hashtbl.replace extra k (1 + try Hashtbl.find extra k with Not_found -> 0)
let count_events n es =
  List.iter (function
    | EAcc (site, _, _, k, _, _, _, _, ok) ->
      let s = int_of_n site in
      bump (Printf.sprintf "site_%d" s);
      if k = KCas then bump (Printf.sprintf "site_%d_%s" s (if ok then "ok" else "fail"));
      if k = KCell then bump (Printf.sprintf "cell_copy_size_%d" n)
    | ERet _ -> ()) es

(* ---- happens-before analysis of the observed trace (vector clocks, C11 release/acquire incl.
   release sequences through RMWs): is every plain access of a data cell ordered with the
   conflicting plain accesses of other threads?  Runs on the model's events, which the tie has
   just compared with the implementation's (kind, both orderings, values).  The reader's raw
   copy is not a gated access: it is placed where it happens, right after the write_cell load /
   failed validation that yields the counter it copies for. ---- *)
type rd = { rt : int; rclk : int array; mutable status : int }   (* 0 in flight, 1 validated, 2 discarded *)
type hb = {
  clk : int array array;
  lrel : (int, int array) Hashtbl.t;          (* atomic location (base) -> clock released by its current release sequence *)
  wclk : int array array;                     (* per cell: clock of the last plain write *)
  mutable reads : rd list array;              (* per cell: plain reads since the last write *)
  mutable sched_rev : int list;
  mutable r_valid : int; mutable r_disc : int; mutable r_infl : int; mutable w_r : int; mutable w_w : int;
}
let hb_new nt = { clk = Array.init nt (fun t -> let a = Array.make nt 0 in a.(t) <- 1; a); lrel = Hashtbl.create 4;
                  wclk = Array.init 2 (fun _ -> Array.make nt 0); reads = Array.make 2 []; sched_rev = [];
                  r_valid = 0; r_disc = 0; r_infl = 0; w_r = 0; w_w = 0 }
let vjoin a b = Array.mapi (fun i x -> max x b.(i)) a
let vle a b = let ok = ref true in Array.iteri (fun i x -> if x > b.(i) then ok := false) a; !ok
let is_acq = function Acquire | AcqRel | SeqCst -> true | _ -> false
let is_rel = function Release | AcqRel | SeqCst -> true | _ -> false
let whatif = try Sys.getenv "C12_WHATIF" with Not_found -> ""
let hb_event (h : hb) t es =
  let nt = Array.length h.clk in
  List.iter (function
    | EAcc (site, base, idx, k, o, ofl, rdv, _, ok) ->
      let site = int_of_n site and loc = int_of_n base in
      (* what-if analysis (never used by the check): C12_WHATIF=fadd_acqrel | load_acquire re-runs the
         analysis as if the writer's fetch_add were AcqRel / its write_cell load were Acquire *)
      let o = match whatif with
        | "fadd_acqrel" when site = 12 || site = 22 -> AcqRel
        | "load_acquire" when site = 10 || site = 20 -> Acquire
        | _ -> o in
      if k = KCell then begin
        (* plain write of cell idx by the producer *)
        let c = int_of_n idx in
        List.iter (fun r -> if r.rt <> t && not (r.rclk.(r.rt) <= h.clk.(t).(r.rt)) then
          (match r.status with 1 -> h.r_valid <- h.r_valid + 1 | 2 -> h.r_disc <- h.r_disc + 1 | _ -> h.r_infl <- h.r_infl + 1)) h.reads.(c);
        if not (vle h.wclk.(c) h.clk.(t)) then h.w_w <- h.w_w + 1;
        h.wclk.(c) <- Array.copy h.clk.(t); h.reads.(c) <- []
      end else begin
        let l = try Hashtbl.find h.lrel loc with Not_found -> Array.make nt 0 in
        let writes = (match k with KLoad -> false | KCas -> ok | _ -> true) in
        let rmw = (match k with KLoad | KStore -> false | _ -> true) in
        let ord = if k = KCas && not ok then ofl else o in
        if k <> KStore && is_acq ord then h.clk.(t) <- vjoin h.clk.(t) l;
        if writes then begin
          let nl = if is_rel ord then (if rmw then vjoin l h.clk.(t) else Array.copy h.clk.(t)) else (if rmw then l else Array.make nt 0) in
          Hashtbl.replace h.lrel loc nl;
          if is_rel ord then h.clk.(t).(t) <- h.clk.(t).(t) + 1
        end;
        (* the reader's validation: settles its copy; a failed one starts the next copy *)
        if site = 31 then
          Array.iter (fun l -> List.iter (fun r -> if r.rt = t && r.status = 0 then r.status <- (if ok then 1 else 2)) l) h.reads;
        if (site = 30 || (site = 31 && not ok)) && int_of_n rdv > 0 then begin
          let c = (int_of_n rdv - 1) mod 2 in
          if not (vle h.wclk.(c) h.clk.(t)) then h.w_r <- h.w_r + 1;
          h.reads.(c) <- { rt = t; rclk = Array.copy h.clk.(t); status = 0 } :: h.reads.(c)
        end
      end
    | ERet _ -> ()) es

let witness : (string * int) option ref = ref None    (* shortest execution with an unordered validated read *)

let mk_sys toks =
  match toks with
  | "ra" :: size :: prog :: _ ->
    (* release/acquire view model of the sequence lock against the real UnrestrictedAtomic run with
       injected stale values of write_cell: the staleness oracle is chosen from the value read *)
    let n = int_of_string size in
    let aprogs = Array.of_list (List.map (fun t -> List.map parse_aop (split_on ',' t)) (String.split_on_char '|' prog)) in
    let nt = Array.length aprogs in
    let (acq, rel), ld = sl_ops in
    let bytes b = List.map n_of_int (payload n b) in
    let conv = function Acq -> acq | Rel -> rel | Ld -> ld | St b -> sl_store (bytes b) | Ln b -> sl_loan (bytes b) | Dc b -> sl_discard (bytes b) in
    let progs = Array.map (List.map conv) aprogs in
    let c = ref (slra_init (nat_of_int n) (bytes init_byte) [] (fun t -> let i = int_of_nat t in if i < nt then progs.(i) else [])) in
    let step_k t k = let (g, ls) = !c in slra_step1 slra_ords_code (nat_of_int t) (slra_set_oracle g [n_of_int k], ls) in
    let first_acc es = let rec f = function EAcc (_, _, _, k, _, _, rd, _, ok) :: _ -> Some (k, rd, ok) | _ :: r -> f r | [] -> None in f es in
    (* the copy rides on the preceding gated access (coarse model): run the byte steps at once *)
    let rec burst t = if slra_in_copy (snd !c (nat_of_int t)) then (match step_k t 0 with Some (c', es) -> c := c'; es @ burst t | None -> []) else [] in
    let rec step t =
      match step_k t 0 with
      | None -> None
      | Some (c0', []) -> c := c0'; let more = burst t in (match more with [] -> step t | _ -> (match step t with Some es -> Some (more @ es) | None -> Some more))
      | Some (c0', es0) ->
        let stale_site = match first_acc es0 with Some (KLoad, _, _) -> true | Some (KCas, _, false) -> true | _ -> false in
        let matches es = match first_acc es with Some (_, rd, _) -> u64_string_of_n rd = !observed_rd | None -> false in
        let chosen =
          if (not stale_site) || matches es0 then Some (c0', es0)
          else begin
            let found = ref None in
            for k = 1 to 64 do
              if !found = None then match step_k t k with Some (ck, esk) when matches esk -> found := Some (ck, esk) | _ -> ()
            done;
            !found
          end in
        (match chosen with
         | Some (c', es) ->
           c := c'; let more = burst t in
           if slra_race_used (fst !c) then raise (Failure "view model flags a racy used access under the code's ordering table");
           Some (es @ more)
         | None -> c := c0'; let more = burst t in Some (es0 @ more)) in
    let finished t =
      let rec go cc = match slra_step1 slra_ords_code (nat_of_int t) cc with None -> true | Some (c', []) -> go c' | Some _ -> false in go !c in
    { nthreads = nt; step; finished;
      final_ok = (fun toks ->
        let (w, h) = slra_final (fst !c) in
        let m = [ u64_string_of_n w; u64_string_of_n h ] in
        if m = toks then None else Some (Printf.sprintf "model (write_cell,value code) [%s] impl [%s]" (String.concat "," m) (String.concat "," toks)));
      spec = (fun rets final -> spec_check n aprogs rets final) }
  | size :: prog :: _ ->
    let n = int_of_string size in
    let aprogs = Array.of_list (List.map (fun t -> List.map parse_aop (split_on ',' t)) (String.split_on_char '|' prog)) in
    let nt = Array.length aprogs in
    let (acq, rel), ld = sl_ops in
    let bytes b = List.map n_of_int (payload n b) in
    let conv = function Acq -> acq | Rel -> rel | Ld -> ld | St b -> sl_store (bytes b) | Ln b -> sl_loan (bytes b) | Dc b -> sl_discard (bytes b) in
    let progs = Array.map (List.map conv) aprogs in
    let c = ref (sl_init (nat_of_int n) (bytes init_byte) (fun t -> let i = int_of_nat t in if i < nt then progs.(i) else [])) in
    let h = hb_new nt in
    let step t =
      let rec go () = match sl_step1 (nat_of_int t) !c with
        | None -> None
        | Some (c', []) -> c := c'; go ()
        | Some (c', es) ->
          c := c'; count_events n es;
          let before = h.r_valid in
          h.sched_rev <- t :: h.sched_rev; hb_event h t es;
          if h.r_valid > before && before = 0 then begin
            let len = List.length h.sched_rev in
            (match !witness with Some (_, l) when l <= len -> () | _ ->
              witness := Some (Printf.sprintf "%d:%s:%s" n prog (String.concat "," (List.rev_map string_of_int h.sched_rev)), len)) end;
          Some es in go () in
    let finished t =
      let rec go cc = match sl_step1 (nat_of_int t) cc with
        | None -> true
        | Some (c', []) -> go c'
        | Some _ -> false in go !c in
    { nthreads = nt; step; finished;
      final_ok = (fun toks ->
        let (w, h) = sl_final (fst !c) in
        let m = [ u64_string_of_n w; u64_string_of_n h ] in
        if m = toks then None else Some (Printf.sprintf "model (write_cell,value code) [%s] impl [%s]" (String.concat "," m) (String.concat "," toks)));
      spec = (fun rets final ->
        let add k v = if v > 0 then Hashtbl.replace extra k (v + try Hashtbl.find extra k with Not_found -> 0) in
        add "hb_cell_write_unordered_with_validated_read" h.r_valid;
        add "hb_cell_write_unordered_with_discarded_read" h.r_disc;
        add "hb_cell_write_unordered_with_inflight_read" h.r_infl;
        add "hb_read_unordered_with_cell_write" h.w_r;
        add "hb_cell_write_unordered_with_cell_write" h.w_w;
        if h.r_valid > 0 then bump "hb_executions_with_unordered_validated_read";
        bump "hb_executions_analysed";
        spec_check n aprogs rets final) }
  | _ -> failwith "unknown case header"

(* ---- search of the release/acquire view model of the sequence lock (model/SeqLockRA.v) for an
        execution with a racy USED access under a given table of four memory orderings (used when
        the observed orderings differ from the table of c12_slra_atomic_monotone_used_race_free) ---- *)
let ord_of_string = function
  | "rlx" -> Relaxed | "rel" -> Release | "acq" -> Acquire | "acqrel" -> AcqRel | "sc" -> SeqCst
  | s -> failwith ("ordering " ^ s)

let slra_search (o : sords) =
  let found = ref None in
  let seen = Hashtbl.create 100000 in
  let v k = [n_of_int k] in
  let templates = [
    ("acq,st7,st8,st9|ld", [| [OAcq; OStore (v 7); OStore (v 8); OStore (v 9)]; [OLoad] |]);
    ("acq,st7,st8,st9|ld,ld", [| [OAcq; OStore (v 7); OStore (v 8); OStore (v 9)]; [OLoad; OLoad] |]);
    ("acq,st7,st8|ld|ld", [| [OAcq; OStore (v 7); OStore (v 8)]; [OLoad]; [OLoad] |]) ] in
  List.iter (fun (name, progs) ->
    if !found = None then begin
      Hashtbl.reset seen;
      let nt = Array.length progs in
      let rec go c sched =
        if !found <> None then () else begin
          let (g, ls) = c in
          let key = Marshal.to_string (slra_set_oracle g [], Array.init nt (fun i -> ls (nat_of_int i))) [] in
          if not (Hashtbl.mem seen key) then begin
            Hashtbl.add seen key ();
            for t = 0 to nt - 1 do
              List.iter (fun k ->
                if !found = None then begin
                  let c0 = (slra_set_oracle g [n_of_int k], ls) in
                  match slra_step1 o (nat_of_int t) c0 with
                  | None -> ()
                  | Some (c', _) ->
                    let consumed = (slra_oracle (fst c') = []) in
                    if k = 0 || consumed then begin
                      let sched' = (t, if consumed then k else 0) :: sched in
                      if slra_race_used (fst c') then found := Some (name, List.rev sched')
                      else go c' sched'
                    end
                end) [0; 1000]
            done
          end
        end in
      go (slra_init (nat_of_int 1) (v 5) [] (fun t -> let i = int_of_nat t in if i < nt then progs.(i) else [])) []
    end) templates;
  match !found with
  | Some (name, sched) ->
    Printf.printf "SLRAWITNESS used-race size=1 program=%s schedule=%s\n" name
      (String.concat "," (List.map (fun (t, k) -> Printf.sprintf "%d:%d" t k) sched))
  | None -> print_string "SLRACLEAN\n"

let () =
  if Array.length Sys.argv > 1 && Sys.argv.(1) = "slra" then
    slra_search (slra_mk_ords (ord_of_string Sys.argv.(2)) (ord_of_string Sys.argv.(3)) (ord_of_string Sys.argv.(4)) (ord_of_string Sys.argv.(5)))
  else
  if Array.length Sys.argv > 1 && Sys.argv.(1) = "g3" then run_g3 () else begin
  run mk_sys (fun toks -> String.concat " " toks);
  Hashtbl.iter (fun k v -> Printf.printf "EXTRA %s %d\n" k v) extra;
  (match !witness with Some (w, len) -> Printf.printf "EXTRA hbwitness:%s %d\n" w len | None -> ()) end
