(* C12 driver: step model of the two-cell sequence lock (UnrestrictedAtomic) against the real
   code (G1), and -- with argument "g3" -- the sequential blackboard registry model against
   histories through the real iceoryx2 API. *)
open Model
open G1drv

type aop = Acq | Rel | St of int | Ln of int | Dc of int | Ld
let parse_aop s =
  let num k = int_of_string (String.sub s k (String.length s - k)) in
  match s with
  | "acq" -> Acq | "rel" -> Rel | "ld" -> Ld
  | _ when String.length s > 2 && String.sub s 0 2 = "st" -> St (num 2)
  | _ when String.length s > 2 && String.sub s 0 2 = "ln" -> Ln (num 2)
  | _ when String.length s > 2 && String.sub s 0 2 = "dc" -> Dc (num 2)
  | _ -> failwith ("op " ^ s)

let rec int_of_nat = function O -> 0 | S k -> 1 + int_of_nat k

(* the harness payload: n-1 copies of the counter byte b and the checksum 255-b (n = 1: [b]) *)
let payload n b = if n < 2 then List.init n (fun _ -> b) else List.init n (fun i -> if i = n - 1 then 255 - b else b)
(* the harness hash, computed here independently of the extracted model *)
let hash bytes = List.fold_left (fun h x -> (h * 31 + x + 1) mod 4294967296) 7 bytes
let torn_flag = 1 lsl 40
let init_byte = 0

(* oracle on the implementation's own return values (completion order) and final observation *)
let spec_check n (progs : aop list array) rets final =
  let nt = Array.length progs in
  let ops = Array.map (fun l -> ref l) progs in
  let holder = ref None in
  let holds = Array.make nt false in
  let loan_pending = Array.make nt None in
  let published = ref [ hash (payload n init_byte) ] in   (* newest first *)
  let npub = ref 1 in
  let since = Array.make nt 1 in      (* number of published values when the thread's previous operation returned *)
  let last_idx = Array.make nt 0 in
  let err = ref None in
  let fail m = if !err = None then err := Some m in
  let publish b = published := hash (payload n b) :: !published; incr npub in
  List.iter (fun (t, code) ->
    if code = "P" then fail (Printf.sprintf "thread %d panicked" t) else begin
    let c = int_of_string code in
    (match loan_pending.(t) with
     | Some b -> loan_pending.(t) <- None; publish b      (* second return of a loan: the update *)
     | None ->
       let rec next () = match !(ops.(t)) with
         | [] -> None
         | o :: r -> ops.(t) := r;
           (match o with
            | Rel when not holds.(t) -> next ()
            | (St _ | Ln _ | Dc _) when not holds.(t) -> next ()
            | _ -> Some o) in
       (match next () with
        | Some Acq ->
          if c = 1 then begin
            (match !holder with Some h -> fail (Printf.sprintf "acquire_producer succeeded for thread %d while thread %d holds the producer" t h) | None -> ());
            holder := Some t; holds.(t) <- true end
          else if !holder = None then fail (Printf.sprintf "acquire_producer failed for thread %d although no producer exists" t)
        | Some Rel -> holder := None; holds.(t) <- false
        | Some (St b) -> publish b
        | Some (Ln b) -> loan_pending.(t) <- Some b
        | Some (Dc _) -> ()
        | Some Ld ->
          if c >= torn_flag then fail (Printf.sprintf "thread %d loaded a value that is not in one piece (payload self-check failed)" t)
          else begin
            (* index (0 = initial value) of the loaded value among the published ones *)
            let rec find i = function [] -> None | h :: r -> if h = c then Some i else find (i - 1) r in
            match find (!npub - 1) !published with
            | None -> fail (Printf.sprintf "thread %d loaded a value (code %d) that was never published" t c)
            | Some idx ->
              if idx < since.(t) - 1 then
                fail (Printf.sprintf "thread %d loaded value #%d although value #%d was already published when the load started" t idx (since.(t) - 1))
              else if idx < last_idx.(t) then
                fail (Printf.sprintf "thread %d went back from value #%d to value #%d" t last_idx.(t) idx)
              else last_idx.(t) <- idx
          end
        | None -> fail (Printf.sprintf "thread %d returned more often than its program has operations" t)));
    since.(t) <- !npub end) rets;
  (match final with
   | [ w; c ] ->
     if !err = None then begin
       if int_of_string w <> !npub then fail (Printf.sprintf "final write_cell %s <> 1 + number of completed updates (%d)" w (!npub - 1))
       else if int_of_string c <> List.hd !published then fail "final value is not the last published value"
     end
   | _ -> ());
  !err

(* coverage of the model's branches (the events counted here were compared with the implementation's) *)
let extra : (string, int) Hashtbl.t = Hashtbl.create 32
let bump k = Hashtbl.replace extra k (1 + try Hashtbl.find extra k with Not_found -> 0)
let count_events n es =
  List.iter (function
    | EAcc (site, _, _, k, _, _, _, _, ok) ->
      let s = int_of_n site in
      bump (Printf.sprintf "site_%d" s);
      if k = KCas then bump (Printf.sprintf "site_%d_%s" s (if ok then "ok" else "fail"));
      if k = KCell then bump (Printf.sprintf "cell_copy_size_%d" n)
    | ERet _ -> ()) es

let mk_sys toks =
  match toks with
  | size :: prog :: _ ->
    let n = int_of_string size in
    let aprogs = Array.of_list (List.map (fun t -> List.map parse_aop (split_on ',' t)) (String.split_on_char '|' prog)) in
    let nt = Array.length aprogs in
    let (acq, rel), ld = sl_ops in
    let bytes b = List.map n_of_int (payload n b) in
    let conv = function Acq -> acq | Rel -> rel | Ld -> ld | St b -> sl_store (bytes b) | Ln b -> sl_loan (bytes b) | Dc b -> sl_discard (bytes b) in
    let progs = Array.map (List.map conv) aprogs in
    let c = ref (sl_init (nat_of_int n) (bytes init_byte) (fun t -> let i = int_of_nat t in if i < nt then progs.(i) else [])) in
    let step t =
      let rec go () = match sl_step1 (nat_of_int t) !c with
        | None -> None
        | Some (c', []) -> c := c'; go ()
        | Some (c', es) -> c := c'; count_events n es; Some es in go () in
    let finished t =
      let rec go cc = match sl_step1 (nat_of_int t) cc with
        | None -> true
        | Some (c', []) -> go c'
        | Some _ -> false in go !c in
    { nthreads = nt; step; finished;
      final_ok = (fun toks ->
        let (w, h) = sl_final (fst !c) in
        let m = [ u64_string_of_n w; u64_string_of_n h ] in
        if m = toks then None else Some (Printf.sprintf "model (write_cell,value code) [%s] impl [%s]" (String.concat "," m) (String.concat "," toks)));
      spec = (fun rets final -> spec_check n aprogs rets final) }
  | _ -> failwith "unknown case header"

let () =
  run mk_sys (fun toks -> String.concat " " toks);
  Hashtbl.iter (fun k v -> Printf.printf "EXTRA %s %d\n" k v) extra
