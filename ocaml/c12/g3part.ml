(* G3 part of the C12 driver (API-level uniqueness of the blackboard writer port / write handles).
   A fragment: paste it into ocaml/c12/driver.ml after `open Model`; entry point `run_g3 ()`.
   Parsing / printing only; all behaviour comes from Model (extracted from model/Blackboard.v):
     bb_new bb_step         the concrete model (the tie): replayed on the harness's operations,
                            its observation and its (number_of_writers, number_of_readers) are
                            compared with the implementation's            -> kind=model
     bb_sp_new bb_sp_step   the reference specification, an ACCEPTOR that is driven by the
     bb_sp_digest_ok        implementation's OWN observations (never by the model's): it rejects
                            e.g. a second successful create-writer while a Writer is held, a second
                            live write handle for a key, a get that is not the last written value,
                            a refused create when nothing holds the resource, more than
                            max_writers registered writers                 -> kind=spec
   input (harness/g3/c12):
     C <local|ipc> mr=<max_readers> ty=<t,..> init=<v,..> hist=<replay string>
     O <op> <args> = <observation> | w=<n> r=<n> *)
module G3 = struct
  let rec pos_of_int (i : int) : positive =
    if i = 1 then XH else if i land 1 = 0 then XO (pos_of_int (i lsr 1)) else XI (pos_of_int (i lsr 1))
  let n_of_int (i : int) : n = if i = 0 then N0 else Npos (pos_of_int i)
  let rec int_of_pos = function XH -> 1 | XO p -> 2 * int_of_pos p | XI p -> 2 * int_of_pos p + 1
  let int_of_n = function N0 -> 0 | Npos p -> int_of_pos p
  let rec nat_of_int (i : int) : nat = if i <= 0 then O else S (nat_of_int (i - 1))
  let rec int_of_nat = function O -> 0 | S k -> 1 + int_of_nat k
  let soi = string_of_int

  (* the harness's vocabulary; "noentry" is EntryHandleMutError::EntryDoesNotExist for `we` and
     EntryHandleError::EntryDoesNotExist for `re` *)
  let show_obs (name : string) (o : bobs) : string =
    match o with
    | OOk -> "ok"
    | OId k -> "ok" ^ soi (int_of_nat k)
    | OWriterErr ExceedsMaxSupportedWriters -> "maxw"
    | OWriterErr W_InternalFailure -> "err:InternalFailure"
    | OWriterErr W_FailedToDeployThreadsafetyPolicy -> "err:FailedToDeployThreadsafetyPolicy"
    | OWriterErr W_UnableToCreatePortTag -> "err:UnableToCreatePortTag"
    | OHandleMutErr HM_EntryDoesNotExist -> "noentry"
    | OHandleMutErr HM_HandleAlreadyExists -> "exists"
    | OReaderErr ExceedsMaxSupportedReaders -> "maxr"
    | OReaderErr R_FailedToDeployThreadsafetyPolicy -> "err:FailedToDeployThreadsafetyPolicy"
    | OReaderErr R_UnableToCreatePortTag -> "err:UnableToCreatePortTag"
    | OHandleErr -> ignore name; "noentry"
    | OValue (v, g) -> "v" ^ soi (int_of_n v) ^ "g" ^ soi (int_of_n g)
    | OBool true -> "t"
    | OBool false -> "f"
    | ORefused -> "-"

  let is_digits s = s <> "" && (let ok = ref true in String.iter (fun c -> if c < '0' || c > '9' then ok := false) s; !ok)

  let parse_obs (name : string) (s : string) : bobs option =
    let len = String.length s in
    match s with
    | "ok" -> Some OOk
    | "maxw" -> Some (OWriterErr ExceedsMaxSupportedWriters)
    | "maxr" -> Some (OReaderErr ExceedsMaxSupportedReaders)
    | "exists" -> Some (OHandleMutErr HM_HandleAlreadyExists)
    | "noentry" -> if name = "re" then Some OHandleErr else Some (OHandleMutErr HM_EntryDoesNotExist)
    | "t" -> Some (OBool true)
    | "f" -> Some (OBool false)
    | "-" -> Some ORefused
    | _ ->
      if len > 2 && String.sub s 0 2 = "ok" && is_digits (String.sub s 2 (len - 2)) then
        Some (OId (nat_of_int (int_of_string (String.sub s 2 (len - 2)))))
      else if len > 1 && s.[0] = 'v' then
        (match String.index_opt s 'g' with
         | Some i when is_digits (String.sub s 1 (i - 1)) && is_digits (String.sub s (i + 1) (len - i - 1)) ->
           Some (OValue (n_of_int (int_of_string (String.sub s 1 (i - 1))),
                         n_of_int (int_of_string (String.sub s (i + 1) (len - i - 1)))))
         | _ -> None)
      else None

  let parse_op (name : string) (args : string list) : bop =
    let ai k = int_of_string (List.nth args k) in
    let an k = nat_of_int (ai k) in
    match name with
    | "cw" -> CreateWriter                       (* the factory index is not part of the model *)
    | "dw" -> DropWriter (an 0)
    | "we" -> WriterEntry (an 0, an 1, n_of_int (ai 2))
    | "dh" -> DropHandleMut (an 0)
    | "uc" -> UpdateWithCopy (an 0, n_of_int (ai 1))
    | "lu" -> LoanUninit (an 0)
    | "wl" -> WriteLoan (an 0, n_of_int (ai 1))
    | "al" -> AssumeInit (an 0)
    | "ul" -> UpdateLoan (an 0, n_of_int (ai 1))
    | "dl" -> DiscardLoan (an 0)
    | "cr" -> CreateReader
    | "dr" -> DropReader (an 0)
    | "re" -> ReaderEntry (an 0, an 1, n_of_int (ai 2))
    | "dx" -> DropHandle (an 0)
    | "g" -> Get (an 0)
    | "ud" -> IsUpToDate (an 0)
    | _ -> failwith ("unknown op " ^ name)

  let kv tok = match String.index_opt tok '=' with
    | Some i -> (String.sub tok 0 i, String.sub tok (i + 1) (String.length tok - i - 1))
    | None -> (tok, "")

  let run () =
    let st : bb option ref = ref None          (* None: the model diverged in this case (or no case yet) *)
    and sp : sp option ref = ref None in       (* None: the specification rejected earlier in this case *)
    let case_no = ref 0 and op_no = ref 0 and ops_total = ref 0 in
    let mm_model = ref 0 and mm_spec = ref 0 in
    let cur_case = Buffer.create 256 and cur_nontrivial = ref false in
    let seen = Hashtbl.create 100000 in
    let distinct_nontrivial = ref 0 in
    let opcount = Hashtbl.create 64 and extra = Hashtbl.create 64 in
    let bump tbl k = Hashtbl.replace tbl k (1 + try Hashtbl.find tbl k with Not_found -> 0) in
    (* bookkeeping for the EXTRA coverage counters only (never for a verdict) *)
    let refused_since_create = ref false and handle_refused = ref false in
    let flush_case () =
      if Buffer.length cur_case > 0 then begin
        let key = Digest.string (Buffer.contents cur_case) in
        if !cur_nontrivial && not (Hashtbl.mem seen key) then begin
          Hashtbl.add seen key (); incr distinct_nontrivial end;
        Buffer.clear cur_case; cur_nontrivial := false
      end in
    (try
      while true do
        let line = input_line stdin in
        let toks = List.filter (fun s -> s <> "") (String.split_on_char ' ' line) in
        match toks with
        | "C" :: kind :: rest ->
          flush_case (); incr case_no; op_no := 0;
          let get k = try List.assoc k (List.map kv rest) with Not_found -> failwith ("header lacks " ^ k) in
          let ints s = List.map int_of_string (List.filter (fun x -> x <> "") (String.split_on_char ',' s)) in
          let mr = int_of_string (get "mr") in
          let tys = ints (get "ty") and inits = ints (get "init") in
          if List.length tys <> List.length inits then failwith "ty/init differ in length";
          let init = List.map2 (fun t v -> (n_of_int t, n_of_int v)) tys inits in
          (* distinct = distinct (max_readers, history); the service kind is deliberately not part of the key *)
          Buffer.add_string cur_case (Printf.sprintf "%d|" mr);
          bump extra ("cases_" ^ kind);
          refused_since_create := false; handle_refused := false;
          st := Some (bb_new (nat_of_int mr) init);
          sp := Some (bb_sp_new (nat_of_int mr) init)
        | "O" :: name :: rest ->
          incr op_no; incr ops_total;
          let rec split acc = function "=" :: r -> (List.rev acc, r) | x :: r -> split (x :: acc) r | [] -> (List.rev acc, []) in
          let (args, obs) = split [] rest in
          let impl = (match obs with o :: _ -> o | [] -> "?") in
          let digest = (match obs with _ :: "|" :: d -> List.map kv d | _ -> []) in
          let dnum k = try Some (int_of_string (List.assoc k digest)) with _ -> None in
          Buffer.add_string cur_case (name ^ " " ^ String.concat " " args ^ ";");
          bump opcount name;
          let o = parse_op name args in
          (* ---- the concrete model ---- *)
          (match !st with
           | None -> ()
           | Some s ->
             let (s', om) = bb_step s o in
             let oms = show_obs name om in
             if oms <> impl then begin
               incr mm_model; st := None;
               Printf.printf "MISMATCH case=%d op=%d kind=model line=[%s] model=%s impl=%s\n" !case_no !op_no line oms impl
             end else begin
               let mw = int_of_nat (bb_nwriters s') and mrd = int_of_nat (bb_nreaders s') in
               (match dnum "w", dnum "r" with
                | Some w, Some r when w = mw && r = mrd -> st := Some s'
                | _ ->
                  incr mm_model; st := None;
                  Printf.printf "MISMATCH case=%d op=%d kind=model line=[%s] model=w=%d_r=%d impl=registered-ports-differ\n"
                    !case_no !op_no line mw mrd)
             end);
          (* ---- the reference specification, on the implementation's own observations ---- *)
          (match !sp with
           | None -> ()
           | Some a ->
             (match parse_obs name impl with
              | None ->
                incr mm_spec; sp := None;
                Printf.printf "MISMATCH case=%d op=%d kind=spec line=[%s] spec=no-such-answer impl=%s\n" !case_no !op_no line impl
              | Some ob ->
                (match bb_sp_step a o ob with
                 | None ->
                   incr mm_spec; sp := None;
                   Printf.printf "MISMATCH case=%d op=%d kind=spec line=[%s] spec=inadmissible impl=%s\n" !case_no !op_no line impl
                 | Some a' ->
                   sp := Some a';
                   (match dnum "w", dnum "r" with
                    | Some w, Some r ->
                      if not (bb_sp_digest_ok a' (nat_of_int w) (nat_of_int r)) then begin
                        incr mm_spec;
                        Printf.printf "MISMATCH case=%d op=%d kind=spec line=[%s] spec=registered-ports-inadmissible impl=w=%d_r=%d\n"
                          !case_no !op_no line w r end
                    | _ ->
                      incr mm_spec;
                      Printf.printf "MISMATCH case=%d op=%d kind=spec line=[%s] spec=digest-missing impl=%s\n" !case_no !op_no line impl))));
          (* ---- coverage counters ---- *)
          (match name, impl with
           | "cw", "maxw" -> bump extra "cw.maxw"; cur_nontrivial := true; refused_since_create := true
           | "cw", _ when String.length impl > 2 && String.sub impl 0 2 = "ok" ->
             bump extra "cw.ok"; if !refused_since_create then bump extra "cw.ok_after_refusal"; refused_since_create := false
           | "we", "exists" -> bump extra "we.exists"; cur_nontrivial := true; handle_refused := true
           | "we", "noentry" -> bump extra "we.noentry"
           | "we", _ when String.length impl > 2 && String.sub impl 0 2 = "ok" ->
             bump extra "we.ok"; if !handle_refused then bump extra "we.ok_after_refusal"
           | "cr", "maxr" -> bump extra "cr.maxr"
           | "re", "noentry" -> bump extra "re.noentry"
           | ("uc" | "ul" | "al"), "ok" ->
             bump extra "updates"; if !refused_since_create || !handle_refused then bump extra "updates_after_a_refused_create"
           | "g", _ when String.length impl > 1 && impl.[0] = 'v' -> bump extra "gets"
           | "ud", "f" -> bump extra "ud.f"
           | "dw", "ok" -> (match dnum "w" with Some 1 -> bump extra "dw.slot_kept_by_handle" | _ -> ())
           | _, "P" -> bump extra "panics"
           | _ -> ())
        | [] -> ()
        | _ -> failwith ("bad line: " ^ line)
      done
    with End_of_file -> ());
    flush_case ();
    Printf.printf "SUMMARY cases=%d ops=%d mismatches_model=%d mismatches_spec=%d distinct_nontrivial=%d\n"
      !case_no !ops_total !mm_model !mm_spec !distinct_nontrivial;
    Hashtbl.iter (fun k v -> Printf.printf "OPCOUNT %s %d\n" k v) opcount;
    Hashtbl.iter (fun k v -> Printf.printf "EXTRA %s %d\n" k v) extra
end

let run_g3 : unit -> unit = G3.run
