(* C03, connection clause: the concurrent connection model (model/ConnConc.v) against the REAL
   zero_copy_connection (harness/g1/c03conn).  Parsing / comparison only.

   The harness logs, per execution, every access to the cursors of the two queues (scheduling
   points), to their slots, to the used-chunk list, to the borrow counter and to sample_size.
   The model has one step per cursor access, per used-chunk-list swap and per borrow-counter
   access; slot accesses and sample_size accesses are not model steps (the slot arrays are
   abstracted to lists, justified by the queue theorems of props/C03.v).  Mapping of an E line
   of thread t to the model:
     atomic access (not a cell) in index_queue.rs / safely_overflowing_index_queue.rs /
       used_chunk_list.rs                        -> exactly one model step of thread t
     atomic access in common.rs (sample_size)    -> no model step
     cell access: if the next model access of thread t is the borrow counter -> that model
       step (and the address must be the one of all borrow-counter steps and never a slot
       address); otherwise a slot access -> no model step
   Every mapped access is compared like g1drv does: model site <-> source line (one line per
   model site and one model site per line), location bijection, kind, both orderings, value
   read / written, CAS outcome; every R line with the model's return code; the F line with the
   model's final state.  kind=spec: oracle on the implementation's own return values. *)
open Model
open G1drv

type aop = ASend | AReclaim | ARecv | ARel of int
let parse_aop s =
  match s with
  | "s" -> ASend | "c" -> AReclaim | "r" -> ARecv | "l" -> ARel 0
  | _ when String.length s > 1 && s.[0] = 'l' -> ARel (int_of_string (String.sub s 1 (String.length s - 1)))
  | _ -> failwith ("op " ^ s)
let parse_ops s = if s = "-" then [] else List.map parse_aop (split_on ',' s)
let is_sender = function ASend | AReclaim -> true | _ -> false
let conv = function ASend -> OSend | AReclaim -> OReclaim | ARecv -> OReceive | ARel i -> ORelease (nat_of_int i)

let rec int_of_nat = function O -> 0 | S k -> 1 + int_of_nat k
let sconcat = String.concat ","
let ints l = List.map (fun v -> string_of_int (int_of_n v)) l

(* ---------------- model runner ---------------- *)
type m = { mutable g : cgst; ls : clst array }

let mk_model b mm cq ovf k ps pr =
  let (g, f) = conn_init (n_of_int b) (n_of_int mm) (n_of_int cq) ovf (nat_of_int k) (List.map conv ps) (List.map conv pr) in
  { g; ls = [| f O; f (S O) |] }

(* one model step of thread t that performs an access (silent dispatch steps are run through) *)
let rec step_acc (m : m) t =
  match conn_step (nat_of_int t) m.g m.ls.(t) with
  | None -> None
  | Some ((g', l'), es) -> m.g <- g'; m.ls.(t) <- l'; if es = [] then step_acc m t else Some es

(* the next access of thread t, without performing it *)
let peek (m : m) t =
  let rec go g l = match conn_step (nat_of_int t) g l with
    | None -> None
    | Some ((g', l'), []) -> go g' l'
    | Some (_, es) -> Some es in
  go m.g m.ls.(t)

(* run one whole operation of thread t (prologue); returns its return codes *)
let run_op (m : m) t =
  let codes = ref [] in
  let collect es = List.iter (function ERet c -> codes := int_of_n c :: !codes | _ -> ()) es in
  (match conn_step (nat_of_int t) m.g m.ls.(t) with
   | None -> ()
   | Some ((g', l'), es) -> m.g <- g'; m.ls.(t) <- l'; collect es);
  let fuel = ref 100000 in
  while m.ls.(t).pc <> Idle && !fuel > 0 do
    decr fuel;
    match conn_step (nat_of_int t) m.g m.ls.(t) with
    | None -> fuel := 0
    | Some ((g', l'), es) -> m.g <- g'; m.ls.(t) <- l'; collect es
  done;
  List.rev !codes

(* ---------------- oracle on the implementation's own observations ---------------- *)
let rec is_subseq a b = match a, b with
  | [], _ -> true
  | _, [] -> false
  | x :: a', y :: b' -> if x = y then is_subseq a' b' else is_subseq a b'

(* rets: (thread, code) in completion order, prologue included.  Replays the bookkeeping of the
   harness threads (free list of the sender, held list of the receiver) on the return codes. *)
let spec_check b mm k (sops : aop list) (rops : aop list) (rets : (int * string) list) (final : string list) =
  let code s = if s = "P" then -1 else int_of_string s in
  let r0 = ref (List.filter_map (fun (t, c) -> if t = 0 then Some (code c) else None) rets) in
  let r1 = ref (List.filter_map (fun (t, c) -> if t = 1 then Some (code c) else None) rets) in
  let next r = match !r with [] -> None | x :: tl -> r := tl; Some x in
  let free = ref (List.init k (fun i -> i)) and held = ref [] in
  let sent = ref [] and evicted = ref [] and reclaimed = ref [] and received = ref [] and released = ref [] in
  let problems = ref [] in
  let bad s = if not (List.mem s !problems) then problems := s :: !problems in
  let reclaim_code c =
    if c = 1002 then bad "reclaim returned ReceiverReturnedCorruptedPointerOffset"
    else if c = -1 then bad "reclaim panicked"
    else if c > 0 then begin reclaimed := (c - 1) :: !reclaimed; free := !free @ [c - 1] end in
  (try
    List.iter (fun op ->
      match op with
      | AReclaim -> (match next r0 with None -> raise Exit | Some c -> reclaim_code c)
      | ASend ->
        let last = ref 1 in
        while !last > 0 && !last < 1000 do
          (match next r0 with None -> raise Exit | Some c -> last := c; reclaim_code c)
        done;
        if !last = 0 then (match !free with
          | [] -> ()
          | v :: f ->
            (match next r0 with
             | None -> raise Exit
             | Some 1000 -> ()
             | Some 1001 -> bad "try_send returned ConnectionCorrupted"; free := f
             | Some c when c < 0 || c >= 1000 -> bad (Printf.sprintf "try_send failed with code %d" c); free := f
             | Some c -> free := f; sent := v :: !sent;
               if c > 0 then begin evicted := (c - 1) :: !evicted; free := !free @ [c - 1] end))
      | _ -> ()) sops
  with Exit -> ());
  (try
    List.iter (fun op ->
      match op with
      | ARecv ->
        (match next r1 with
         | None -> raise Exit
         | Some 0 -> ()
         | Some 1003 -> if List.length !held < mm then bad (Printf.sprintf "receive refused (ReceiveWouldExceedMaxBorrowValue) while only %d of %d are borrowed" (List.length !held) mm)
         | Some c when c < 0 || c >= 1000 -> bad (Printf.sprintf "receive failed with code %d" c)
         | Some c -> received := (c - 1) :: !received; held := !held @ [c - 1];
           if List.length !held > mm then bad "more than max_borrowed offsets borrowed")
      | ARel i ->
        if i < List.length !held then
          (match next r1 with
           | None -> raise Exit
           | Some 0 -> released := List.nth !held i :: !released; held := List.filteri (fun j _ -> j <> i) !held
           | Some 1004 -> bad "release failed: RetrieveBufferFull (the completion queue had no space for an offset the receiver gave back)"
           | Some c -> bad (Printf.sprintf "release failed with code %d" c))
      | _ -> ()) rops
  with Exit -> ());
  let sent = List.rev !sent and evicted = List.rev !evicted and reclaimed = List.rev !reclaimed
  and received = List.rev !received and released = List.rev !released in
  (* final observation of the implementation: b<ctr>, h<held>, c<v>.. (completion queue), s<v>.. (submission queue) *)
  let fcomp = ref [] and fsub = ref [] and fb = ref (-1) and ferr = ref false in
  List.iter (fun tok ->
    if tok = "dead" then ferr := true
    else match tok.[0], String.sub tok 1 (String.length tok - 1) with
      | 'b', x -> fb := int_of_string x
      | 'h', _ -> ()
      | _, "E" -> ferr := true
      | 'c', x -> fcomp := int_of_string x :: !fcomp
      | 's', x -> fsub := int_of_string x :: !fsub
      | _ -> ()) final;
  let fcomp = List.rev !fcomp and fsub = List.rev !fsub in
  if final <> [] && not !ferr then begin
    if !fb <> List.length !held then bad (Printf.sprintf "borrow_count() = %d but the receiver holds %d offsets" !fb (List.length !held));
    (* every offset is in exactly one place *)
    let everywhere = List.sort compare (!free @ fsub @ !held @ fcomp) in
    if everywhere <> List.init k (fun i -> i) then
      bad (Printf.sprintf "conservation violated: offsets 0..%d vs sender-owned [%s] + submission queue [%s] + borrowed [%s] + completion queue [%s]"
             (k - 1) (sconcat (List.map string_of_int !free)) (sconcat (List.map string_of_int fsub))
             (sconcat (List.map string_of_int !held)) (sconcat (List.map string_of_int fcomp)));
    if List.length sent <> List.length received + List.length evicted + List.length fsub
       || not (is_subseq (received @ fsub) sent) || not (is_subseq evicted sent) then
      bad (Printf.sprintf "send order violated: sent [%s], received [%s], evicted [%s], still queued [%s]"
             (sconcat (List.map string_of_int sent)) (sconcat (List.map string_of_int received))
             (sconcat (List.map string_of_int evicted)) (sconcat (List.map string_of_int fsub)));
    if released <> reclaimed @ fcomp then
      bad (Printf.sprintf "release order violated: released [%s] vs reclaimed [%s] ++ completion queue [%s]"
             (sconcat (List.map string_of_int released)) (sconcat (List.map string_of_int reclaimed)) (sconcat (List.map string_of_int fcomp)));
    if List.length fsub > b then bad "submission queue holds more than buffer_size offsets at quiescence"
  end else if !ferr then bad "final drain of the connection failed";
  match List.rev !problems with [] -> None | l -> Some (String.concat "; " l)

(* ---------------- trace comparison ---------------- *)
let base_name f = match String.rindex_opt f '/' with Some i -> String.sub f (i + 1) (String.length f - i - 1) | None -> f
let file_of_site site = match String.index_opt site ':' with Some i -> String.sub site 0 i | None -> site

let run_conn () =
  let cases = ref 0 and events = ref 0 and mm_model = ref 0 and mm_spec = ref 0 in
  let seen = Hashtbl.create 100000 and distinct = ref 0 in
  let sites : (string, string * string * string) Hashtbl.t = Hashtbl.create 64 in
  let site_of_line : (string, string) Hashtbl.t = Hashtbl.create 64 in
  let sitecount = Hashtbl.create 64 in
  let extra : (string, int) Hashtbl.t = Hashtbl.create 64 in
  let bump k = Hashtbl.replace extra k (1 + try Hashtbl.find extra k with Not_found -> 0) in
  let model : m option ref = ref None in
  let header = ref "" in
  let hb = ref 0 and hm = ref 0 and hk = ref 0 and hcq = ref 0 in
  let sops = ref [] and rops = ref [] in
  let addr2loc = Hashtbl.create 16 and loc2addr = Hashtbl.create 16 in
  let slot_addrs = Hashtbl.create 16 in
  let pending : (int, string Queue.t) Hashtbl.t = Hashtbl.create 8 in
  let rets = ref [] in
  let dead = ref false in
  let tracebuf = Buffer.create 1024 in
  let nontrivial = ref false in
  let mismatch kind msg =
    (if kind = "model" then incr mm_model else incr mm_spec);
    Printf.printf "MISMATCH case=%d kind=%s header=[%s] %s\n" !cases kind !header msg in
  let finish_case final_toks =
    (match !model with
     | None -> ()
     | Some m ->
       if not !dead then begin
         for t = 0 to 1 do
           match peek m t with
           | Some _ -> mismatch "model" (Printf.sprintf "model thread %d has further accesses but the implementation finished" t)
           | None -> if m.ls.(t).pc <> Idle || m.ls.(t).prog <> [] then
               (* run the trailing skipped operations *)
               (ignore (step_acc m t); if m.ls.(t).pc <> Idle then mismatch "model" (Printf.sprintf "model thread %d is stuck inside an operation" t))
         done;
         if final_toks <> [] then begin
           let mfinal = [ "b" ^ string_of_int (int_of_n m.g.ctr); "h" ^ String.concat "." (ints m.ls.(1).held) ]
                        @ List.map (fun v -> "c" ^ v) (ints m.g.comp) @ List.map (fun v -> "s" ^ v) (ints m.g.sub0) in
           if mfinal <> final_toks then
             mismatch "model" (Printf.sprintf "final state: model [%s] impl [%s]" (sconcat mfinal) (sconcat final_toks))
         end;
         if m.g.rel_failed then bump "model_release_failed";
         if m.g.corrupted then bump "model_corrupted"
       end;
       (match spec_check !hb !hm !hk !sops !rops (List.rev !rets) final_toks with
        | None -> ()
        | Some msg -> mismatch "spec" (Printf.sprintf "completion_queue_capacity=%d buffer_size=%d max_borrowed=%d: %s" !hcq !hb !hm msg));
       let key = Digest.string (Buffer.contents tracebuf) in
       if !nontrivial && not (Hashtbl.mem seen key) then begin Hashtbl.add seen key (); incr distinct end);
    model := None in
  (try
    while true do
      let line = input_line stdin in
      match split_on ' ' line with
      | [ "C"; b; mm; ovf; k; cq; pre; prog; precodes ] ->
        if !model <> None then finish_case [];
        incr cases; header := String.concat " " [b; mm; ovf; k; cq; pre; prog]; dead := false; rets := []; nontrivial := false;
        Hashtbl.reset addr2loc; Hashtbl.reset loc2addr; Hashtbl.reset pending; Hashtbl.reset slot_addrs;
        Buffer.clear tracebuf; Buffer.add_string tracebuf !header;
        hb := int_of_string b; hm := int_of_string mm; hk := int_of_string k; hcq := int_of_string cq;
        let pre_ops = parse_ops pre in
        let (ps, pr) = match String.split_on_char '|' prog with
          | [x; y] -> (parse_ops x, parse_ops y) | [x] -> (parse_ops x, []) | _ -> failwith "program" in
        sops := List.filter is_sender pre_ops @ ps;
        rops := List.filter (fun o -> not (is_sender o)) pre_ops @ pr;
        let m = mk_model !hb !hm !hcq (ovf <> "0") !hk !sops !rops in
        model := Some m;
        if !hcq < int_of_n (conn_required_cq (n_of_int !hb) (n_of_int !hm)) then bump "cases_with_completion_queue_below_B+M+1";
        (* prologue: sequential, ungated in the harness; only its return codes are compared *)
        let mcodes = List.concat_map (fun o -> let t = if is_sender o then 0 else 1 in List.map (fun c -> (t, c)) (run_op m t)) pre_ops in
        let icodes = if precodes = "-" then [] else
            List.map (fun s -> match String.split_on_char ':' s with [t; c] -> (int_of_string t, c) | _ -> failwith "precodes") (split_on ',' precodes) in
        rets := List.rev icodes;
        if List.map (fun (t, c) -> (t, string_of_int c)) mcodes <> icodes then begin
          mismatch "model" (Printf.sprintf "prologue return codes: model [%s] impl [%s]"
            (sconcat (List.map (fun (t, c) -> Printf.sprintf "%d:%d" t c) mcodes)) precodes);
          dead := true end
      | [ "E"; t; site; addr; kind; o; ofl; rd; wr; ok ] ->
        incr events;
        (match !model with
         | None -> failwith "E before C"
         | Some m when not !dead ->
           let t = int_of_string t in
           let file = file_of_site site in
           let cls =
             if kind = "cell" then
               (match peek m t with
                | Some (EAcc (_, base, _, KCell, _, _, _, _, _) :: _) when base = b_CTR -> `Step
                | _ -> `Slot)
             else if file = "index_queue.rs" || file = "safely_overflowing_index_queue.rs" || file = "used_chunk_list.rs" then `Step
             else if file = "common.rs" then `Skip
             else `Unknown in
           (match cls with
            | `Skip -> bump "skipped_sample_size_accesses"
            | `Slot ->
              bump "skipped_slot_accesses";
              if Hashtbl.mem addr2loc addr then begin
                mismatch "model" (Printf.sprintf "thread %d: a slot access hits the address of a modelled location [%s]" t line); dead := true end
              else Hashtbl.replace slot_addrs addr ()
            | `Unknown -> mismatch "model" (Printf.sprintf "thread %d: access from an unexpected source file [%s]" t line); dead := true
            | `Step ->
              Buffer.add_string tracebuf (string_of_int t);
              (match step_acc m t with
               | None -> mismatch "model" (Printf.sprintf "thread %d: model cannot move but implementation did [%s]" t line); dead := true
               | Some es ->
                 let rec first = function EAcc (a,b,c,d,e,f,g,h,i) :: _ -> Some (a,b,c,d,e,f,g,h,i) | _ :: r -> first r | [] -> None in
                 (match first es with
                  | None -> mismatch "model" (Printf.sprintf "thread %d: model step has no access, implementation did [%s]" t line); dead := true
                  | Some (msite, base, idx, k, mo, mof, mrd, mwr, mok) ->
                    let loc = Printf.sprintf "%d:%d" (int_of_n base) (int_of_n idx) in
                    let bad = ref [] in
                    (match Hashtbl.find_opt addr2loc addr, Hashtbl.find_opt loc2addr loc with
                     | None, None -> Hashtbl.add addr2loc addr loc; Hashtbl.add loc2addr loc addr;
                       if Hashtbl.mem slot_addrs addr then bad := "location-is-a-slot" :: !bad
                     | Some l, Some a when l = loc && a = addr -> ()
                     | _ -> bad := "location" :: !bad);
                    if kind_name k <> kind then bad := ("kind:" ^ kind_name k) :: !bad;
                    if ord_name mo <> o then bad := ("ordering:" ^ ord_name mo) :: !bad;
                    if k = KCas && ord_name mof <> ofl then bad := ("failure-ordering:" ^ ord_name mof) :: !bad;
                    let okb = (ok = "1") in
                    (match k with
                     | KLoad -> if u64_string_of_n mrd <> rd then bad := ("read:" ^ u64_string_of_n mrd) :: !bad
                     | KStore -> if u64_string_of_n mwr <> wr then bad := ("written:" ^ u64_string_of_n mwr) :: !bad
                     | KCell -> ()
                     | KCas ->
                       if mok <> okb then bad := "cas-outcome" :: !bad;
                       if u64_string_of_n mrd <> rd then bad := ("read:" ^ u64_string_of_n mrd) :: !bad;
                       if okb && mok && u64_string_of_n mwr <> wr then bad := ("written:" ^ u64_string_of_n mwr) :: !bad
                     | _ ->
                       if u64_string_of_n mrd <> rd then bad := ("read:" ^ u64_string_of_n mrd) :: !bad;
                       if u64_string_of_n mwr <> wr then bad := ("written:" ^ u64_string_of_n mwr) :: !bad);
                    let ms = string_of_int (int_of_n msite) in
                    (* the borrow-counter accesses all come from the cell wrapper: no line to pin *)
                    if k <> KCell then begin
                      (match Hashtbl.find_opt sites ms with
                       | None -> Hashtbl.add sites ms (site, o, ofl)
                       | Some (s0, _, _) -> if s0 <> site then bad := ("site:" ^ s0) :: !bad);
                      (match Hashtbl.find_opt site_of_line site with
                       | None -> Hashtbl.add site_of_line site ms
                       (* used_chunk_list.rs has ONE swap line behind insert and both removes *)
                       | Some ms0 -> if ms0 <> ms && file <> "used_chunk_list.rs" then bad := ("line-of-site:" ^ ms0) :: !bad)
                    end else if not (Hashtbl.mem sites ms) then Hashtbl.add sites ms (site, o, ofl);
                    Hashtbl.replace sitecount ms (1 + try Hashtbl.find sitecount ms with Not_found -> 0);
                    if k = KStore || (k = KCas && okb) then nontrivial := true;
                    if k = KCas && not okb then bump (Printf.sprintf "cas_failed_site_%s" ms);
                    if !bad <> [] then begin
                      mismatch "model" (Printf.sprintf "thread %d access differs (%s): impl=[%s] model=[site %s loc %s %s %s/%s rd %s wr %s ok %b]"
                        t (String.concat "," !bad) line ms loc (kind_name k) (ord_name mo) (ord_name mof) (u64_string_of_n mrd) (u64_string_of_n mwr) mok);
                      let only_orderings = List.for_all (fun b ->
                        let pre p = String.length b >= String.length p && String.sub b 0 (String.length p) = p in
                        pre "ordering:" || pre "failure-ordering:") !bad in
                      if not only_orderings then dead := true end;
                    List.iter (function ERet c ->
                      let q = match Hashtbl.find_opt pending t with Some q -> q | None -> let q = Queue.create () in Hashtbl.add pending t q; q in
                      Queue.add (u64_string_of_n c) q | _ -> ()) es)))
         | Some _ -> ())
      | [ "R"; t; code ] ->
        let t = int_of_string t in
        rets := (t, code) :: !rets;
        Buffer.add_string tracebuf ("r" ^ code);
        bump (Printf.sprintf "ret_thread%d_%s" t (match code with "0" -> "none_or_ok" | "1000" | "1001" | "1002" | "1003" | "1004" | "1009" | "P" -> code | _ -> "some"));
        if not !dead then begin
          match Hashtbl.find_opt pending t with
          | Some q when not (Queue.is_empty q) ->
            let c = Queue.pop q in
            if c <> code then begin mismatch "model" (Printf.sprintf "thread %d returned %s, model says %s" t code c); dead := true end
          | _ -> mismatch "model" (Printf.sprintf "thread %d returned %s, model has no return pending" t code); dead := true
        end
      | "S" :: _ -> ()
      | "X" :: _ -> mismatch "model" "harness reported deadlock/timeout"; dead := true
      | "F" :: rest -> finish_case (match rest with [] -> [] | x :: _ -> split_on ',' x)
      | [] -> ()
      | _ -> failwith ("bad line: " ^ line)
    done
  with End_of_file -> ());
  if !model <> None then finish_case [];
  Printf.printf "SUMMARY cases=%d ops=%d mismatches_model=%d mismatches_spec=%d distinct_nontrivial=%d\n"
    !cases !events !mm_model !mm_spec !distinct;
  Hashtbl.iter (fun ms (site, o, ofl) ->
    Printf.printf "SITE %s %s %s %s %d\n" ms site o ofl (try Hashtbl.find sitecount ms with Not_found -> 0)) sites;
  Hashtbl.iter (fun k v -> Printf.printf "EXTRA %s %d\n" k v) extra

(* ---------------- exploration of the extracted model (small instances) ----------------
   driver explore <B> <M> <Cq> <ovf> <K> "<sender ops>|<receiver ops>"
   Visits every reachable state of the two-thread system (all interleavings), checks the
   candidate invariant of proofs/ConnConcProofs.v and reports the first state in which a release
   failed (with the schedule that reaches it). *)
let phase_a = function
  | SFullA _ | SFullB _ | SFullC _ | SFullD _ | SInsert _ | SPushLoadWp _ | SPushLoadRp _ | SPushStore _ -> true
  | _ -> false

let explore b mm cq ovf k prog =
  let (ps, pr) = match String.split_on_char '|' prog with [x; y] -> (parse_ops x, parse_ops y) | _ -> failwith "program" in
  let m0 = mk_model b mm cq ovf k ps pr in
  let seen = Hashtbl.create 100000 in
  let states = ref 0 and maxt = ref 0 and inv_viol = ref None and fail_sched = ref None and stuck = ref None in
  let rec go g l0 l1 sched =
    let key = Marshal.to_string ({ g with sent = []; taken = []; released = []; reclaimed = [] }, l0, l1) [] in
    if not (Hashtbl.mem seen key) then begin
      Hashtbl.add seen key (); incr states;
      let nsub = List.length g.sub0 and ncomp = List.length g.comp and nheld = List.length l1.held in
      let t_ = nsub + nheld + ncomp in
      if t_ > !maxt then maxt := t_;
      let bound = b + mm + (if phase_a l0.pc then 0 else 1) in
      let in_cas = (match l0.pc with SPushCas _ -> 1 | _ -> 0) in
      let ctr = int_of_n g.ctr in
      let incr_ = (match l1.pc with RCtrIncr _ -> 1 | _ -> 0) and decr_ = (match l1.pc with RCtrDecr -> 1 | _ -> 0) in
      let all = List.sort compare (List.map int_of_n (l0.free @ conn_hand l0.pc @ g.sub0 @ l1.held @ g.comp)) in
      let ok = t_ <= bound && nsub <= b + in_cas && nheld <= mm && ctr + incr_ = nheld + decr_
               && all = List.init k (fun i -> i) && not g.corrupted
               && g.sent = List.map fst g.taken @ g.sub0 && g.released = g.reclaimed @ g.comp in
      if not ok && !inv_viol = None then inv_viol := Some (List.rev sched);
      if g.rel_failed && !fail_sched = None then fail_sched := Some (List.rev sched);
      List.iter (fun t ->
        let l = if t = 0 then l0 else l1 in
        match conn_step (nat_of_int t) g l with
        | None -> if (l.pc <> Idle || l.prog <> []) && !stuck = None then stuck := Some (List.rev (t :: sched))
        | Some ((g', l'), _) -> if t = 0 then go g' l' l1 (t :: sched) else go g' l0 l' (t :: sched)) [0; 1]
    end in
  go m0.g m0.ls.(0) m0.ls.(1) [];
  let show = function None -> "none" | Some s -> "[" ^ String.concat ";" (List.map string_of_int s) ^ "]" in
  Printf.printf "EXPLORE B=%d M=%d Cq=%d ovf=%b K=%d prog=%s states=%d max_total=%d invariant_violation=%s release_failed=%s stuck=%s\n"
    b mm cq ovf k prog !states !maxt (show !inv_viol) (show !fail_sched) (show !stuck)

let () =
  if Array.length Sys.argv > 1 && Sys.argv.(1) = "explore" then
    explore (int_of_string Sys.argv.(2)) (int_of_string Sys.argv.(3)) (int_of_string Sys.argv.(4)) (Sys.argv.(5) <> "0")
      (int_of_string Sys.argv.(6)) Sys.argv.(7)
  else run_conn ()
