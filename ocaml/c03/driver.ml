(* C03 driver: SPSC index queue / spsc queue / safely overflowing index queue step models
   against the real queues (G1). *)
open Model
open G1drv

type aop = AcqP | RelP | AcqC | RelC | Push of int | Pop
let parse_aop s =
  match s with
  | "acqp" -> AcqP | "relp" -> RelP | "acqc" -> AcqC | "relc" -> RelC | "pop" -> Pop
  | _ when String.length s > 4 && String.sub s 0 4 = "push" -> Push (int_of_string (String.sub s 4 (String.length s - 4)))
  | _ -> failwith ("op " ^ s)

let rec int_of_nat = function O -> 0 | S k -> 1 + int_of_nat k

(* replays the return codes of the implementation against the thread programs and collects
   what the property talks about: accepted pushes, pops, evictions (all in completion order) *)
let observe overflow (progs : aop list array) rets =
  let nt = Array.length progs in
  let ops = Array.map (fun l -> ref l) progs in
  let pushed = ref [] and popped = ref [] and evicted = ref [] in
  let holds_p = Array.make nt false and holds_c = Array.make nt false in
  let dec code = Printf.sprintf "%Lu" (Int64.sub (Int64.of_string ("0u" ^ code)) 1L) in
  List.iter (fun (t, code) ->
    let rec next () = match !(ops.(t)) with
      | [] -> None
      | o :: r -> ops.(t) := r;
        (match o with
         | RelP when not holds_p.(t) -> next ()
         | RelC when not holds_c.(t) -> next ()
         | Push _ when not holds_p.(t) -> next ()
         | Pop when not holds_c.(t) -> next ()
         | _ -> Some o) in
    match next () with
    | Some AcqP -> if code = "1" then holds_p.(t) <- true
    | Some RelP -> holds_p.(t) <- false
    | Some AcqC -> if code = "1" then holds_c.(t) <- true
    | Some RelC -> holds_c.(t) <- false
    | Some (Push v) ->
      if overflow then begin
        pushed := string_of_int v :: !pushed;
        if code <> "0" && code <> "P" then evicted := dec code :: !evicted end
      else if code = "1" then pushed := string_of_int v :: !pushed
    | Some Pop -> if code <> "0" && code <> "P" then popped := dec code :: !popped
    | None -> ()) rets;
  (List.rev !pushed, List.rev !popped, List.rev !evicted)

let rec is_subseq a b = match a, b with
  | [], _ -> true
  | _, [] -> false
  | x :: a', y :: b' -> if x = y then is_subseq a' b' else is_subseq a b'

(* Linearizability of the "nothing there" / "no room" answers, for fixed-role programs (thread 0:
   acqp + pushes, thread 1: acqc + pops), decided on the implementation's own timeline: the cursors
   are reconstructed from the successful cursor writes in the trace (thread 0: store = write cursor,
   successful compare-exchange r -> r+1 = eviction of the read cursor; thread 1: store or successful
   compare-exchange = read cursor); a pop may answer None only if the queue was empty at some
   instant of the call, a non-overflowing push may answer "full" only if it held `cap` elements
   at some instant of the call.  (Sound for the algorithms under sequential consistency: the
   emptiness test compares a read cursor with a LATER load of the write cursor.) *)
let fixed_roles aprogs =
  Array.length aprogs = 2
  && (match aprogs.(0) with AcqP :: r -> r <> [] && List.for_all (function Push _ -> true | _ -> false) r | _ -> false)
  && (match aprogs.(1) with AcqC :: r -> r <> [] && List.for_all (fun o -> o = Pop) r | _ -> false)

let lin_check overflow capi aprogs =
  if not (fixed_roles aprogs) then None else begin
    let trace = List.rev !case_trace in
    let wp = ref 0 and rp = ref 0 in
    let bad = ref None in
    (* per thread: number of returns seen (return 0 = the handle acquisition), emptiness / fullness seen in the current call *)
    let nret = [| 0; 0 |] in
    let seen_empty = ref (true) and seen_full = ref (capi = 0) in
    let upd () = if !wp = !rp then seen_empty := true; if !wp - !rp >= capi then seen_full := true in
    List.iter (fun toks ->
      match toks with
      | [ "E"; t; _; _; kind; _; _; rd; wr; ok ] ->
        let t = int_of_string t in
        if t < 2 && nret.(t) >= 1 then begin
          let cursor_cas = kind = "cas" && ok = "1" && (try Int64.equal (Int64.of_string ("0u" ^ wr)) (Int64.add (Int64.of_string ("0u" ^ rd)) 1L) with _ -> false) in
          if t = 0 && kind = "store" then wp := int_of_string wr
          else if t = 0 && cursor_cas then rp := int_of_string wr
          else if t = 1 && (kind = "store" || cursor_cas) then rp := int_of_string wr;
          upd ()
        end
      | [ "R"; t; code ] ->
        let t = int_of_string t in
        if t < 2 then begin
          if nret.(t) >= 1 && !bad = None then begin
            if t = 1 && code = "0" && not !seen_empty then
              bad := Some (Printf.sprintf "pop #%d returned None although the queue held at least one element at every instant of the call (not linearizable)" nret.(t));
            if t = 0 && (not overflow) && code = "0" && not !seen_full then
              bad := Some (Printf.sprintf "push #%d was refused as full although the queue held fewer than %d elements at every instant of the call (not linearizable)" nret.(t) capi)
          end;
          nret.(t) <- nret.(t) + 1;
          (* a new call of this thread starts in the current state *)
          if t = 1 then seen_empty := (!wp = !rp) else seen_full := (!wp - !rp >= capi)
        end
      | _ -> ()) trace;
    !bad
  end

let spsc_spec aprogs capi =
  let sconcat = String.concat "," in
  (fun rets final ->
          let (pushed, popped, _) = observe false aprogs rets in
          if pushed <> popped @ final then
            Some (Printf.sprintf "conservation violated: accepted pushes [%s] <> pops [%s] ++ content [%s]" (sconcat pushed) (sconcat popped) (sconcat final))
          else if List.length final > capi then Some "content exceeds capacity"
          else None)

let oq_spec aprogs capi =
  let sconcat = String.concat "," in
  (fun rets final ->
          (* every pushed value is obtained exactly once: popped, evicted or still queued;
             consumer and producer each see push order; the content is what is left, in order,
             and fits the capacity (harness values are pairwise distinct) *)
          let (pushed, popped, evicted) = observe true aprogs rets in
          let all = List.sort compare (popped @ evicted @ final) in
          if all <> List.sort compare pushed then
            Some (Printf.sprintf "conservation violated: pushed [%s] vs popped [%s] + evicted [%s] + content [%s]" (sconcat pushed) (sconcat popped) (sconcat evicted) (sconcat final))
          else if not (is_subseq popped pushed) then Some (Printf.sprintf "consumer order [%s] is not push order [%s]" (sconcat popped) (sconcat pushed))
          else if not (is_subseq evicted pushed) then Some (Printf.sprintf "eviction order [%s] is not push order [%s]" (sconcat evicted) (sconcat pushed))
          else if not (is_subseq final pushed) then Some "content order is not push order"
          else if List.length final > capi then Some (Printf.sprintf "content [%s] exceeds capacity %d at quiescence" (sconcat final) capi)
          else None)

(* a release/acquire view model against the real queue run with injected stale values: thread 0 =
   producer [acqp; pushes], thread 1 = consumer [acqc; pops]; the model's staleness oracle is chosen
   from the value the implementation read (G1drv.observed_rd) *)
let ra_sys nt c0 step_k race_used content spec =
  let c = ref c0 in
  let prelude = Array.make (max nt 2) true in
  let first_acc es = let rec f = function EAcc (_, _, _, k, _, _, rd, _, ok) :: _ -> Some (k, rd, ok) | _ :: r -> f r | [] -> None in f es in
  let step t =
    if t < 2 && prelude.(t) then begin
      prelude.(t) <- false;
      Some [EAcc (n_of_int (if t = 0 then 1 else 3), n_of_int (if t = 0 then 3 else 4), N0, KCas, Acquire, Relaxed, n_of_int 1, N0, true); ERet (n_of_int 1)]
    end else begin
      let try_k k = step_k t !c k in
      match try_k 0 with
      | None -> None
      | Some (c0', es0) ->
        let stale_site = match first_acc es0 with Some (KLoad, _, _) -> true | Some (KCas, _, false) -> true | _ -> false in
        let matches es = match first_acc es with Some (_, rd, _) -> u64_string_of_n rd = !observed_rd | None -> false in
        let chosen =
          if (not stale_site) || matches es0 then Some (c0', es0)
          else begin
            let found = ref None in
            for k = 1 to 64 do
              if !found = None then match try_k k with Some (ck, esk) when matches esk -> found := Some (ck, esk) | _ -> ()
            done;
            !found
          end in
        (match chosen with
         | Some (c', es) ->
           c := c';
           if race_used (fst c') then raise (Failure "view model flags a racy access under the code's ordering table");
           Some es
         | None ->
           (* no staleness choice of the model yields the observed value: below the model's lower
              bound = an injection C11 does not permit (discard); anything else is a divergence *)
           let lowest = match try_k 1000000 with Some (_, es) -> (match first_acc es with Some (_, rd, _) -> Some rd | None -> None) | None -> None in
           let obs = n_of_u64_string !observed_rd in
           (match lowest with
            | Some lo when N.ltb obs lo -> raise (Discard "stale value below the model's bound")
            | _ -> c := c0'; Some es0))
    end in
  { nthreads = nt; step;
    finished = (fun t -> (not (t < 2 && prelude.(t))) && (match step_k t !c 0 with None -> true | Some _ -> false));
    final_ok = (fun toks ->
      let m = List.map u64_string_of_n (content (fst !c)) in
      if m = toks then None else Some (Printf.sprintf "model content [%s] impl content [%s]" (String.concat "," m) (String.concat "," toks)));
    spec }

let mk_sys toks =
  match toks with
  | kind :: cap :: prog :: _ ->
    let aprogs = Array.of_list (List.map (fun t -> List.map parse_aop (split_on ',' t)) (String.split_on_char '|' prog)) in
    let nt = Array.length aprogs in
    let capi = int_of_string cap in
    let silent_loop step1 c t =
      let rec go () = match step1 (nat_of_int t) !c with
        | None -> None
        | Some (c', []) -> c := c'; go ()
        | Some (c', es) -> c := c'; Some es in go () in
    let fin_loop step1 c t =
      let rec go cc = match step1 (nat_of_int t) cc with
        | None -> true
        | Some (c', []) -> go c'
        | Some _ -> false in go !c in
    let sconcat = String.concat "," in
    if kind = "iq" || kind = "sq" then begin
      let (((acqp, relp), acqc), relc), pop = spsc_ops in
      let conv = function AcqP -> acqp | RelP -> relp | AcqC -> acqc | RelC -> relc | Pop -> pop | Push v -> spsc_push (n_of_int v) in
      let progs = Array.map (List.map conv) aprogs in
      let c = ref (spsc_init (n_of_int capi) (fun t -> let i = int_of_nat t in if i < nt then progs.(i) else [])) in
      { nthreads = nt; step = silent_loop spsc_step1 c; finished = fin_loop spsc_step1 c;
        final_ok = (fun toks ->
          let m = List.map u64_string_of_n (spsc_content (fst !c)) in
          if m = toks then None else Some (Printf.sprintf "model content [%s] impl content [%s]" (sconcat m) (sconcat toks)));
        spec = (fun rets final -> match spsc_spec aprogs capi rets final with Some m -> Some m | None -> lin_check false capi aprogs) }
    end else if kind = "oq" then begin
      let (((acqp, relp), acqc), relc), pop = oq_ops in
      let conv = function AcqP -> acqp | RelP -> relp | AcqC -> acqc | RelC -> relc | Pop -> pop | Push v -> oq_push (n_of_int v) in
      let progs = Array.map (List.map conv) aprogs in
      let c = ref (oq_init (n_of_int capi) (fun t -> let i = int_of_nat t in if i < nt then progs.(i) else [])) in
      { nthreads = nt; step = silent_loop oq_step1 c; finished = fin_loop oq_step1 c;
        final_ok = (fun toks ->
          let m = List.map u64_string_of_n (oq_content (fst !c)) in
          if m = toks then None else Some (Printf.sprintf "model content [%s] impl content [%s]" (sconcat m) (sconcat toks)));
        spec = (fun rets final -> match oq_spec aprogs capi rets final with Some m -> Some m | None -> lin_check true capi aprogs) }
    end else if kind = "oqra" then begin
      let pushes = List.filter_map (function Push v -> Some (n_of_int v) | _ -> None) (if nt > 0 then aprogs.(0) else []) in
      let npops = List.length (List.filter (fun o -> o = Pop) (if nt > 1 then aprogs.(1) else [])) in
      ra_sys nt (oqra_init (n_of_int capi) [] pushes (nat_of_int npops))
        (fun t (g, ls) k -> oqra_step1 oqra_ords_sync (nat_of_int t) (oqra_set_oracle g [n_of_int k], ls))
        (fun g -> oqra_race_used g) (fun g -> oqra_content g) (oq_spec aprogs capi)
    end else if kind = "iqra" || kind = "sqra" then begin
      let pushes = List.filter_map (function Push v -> Some (n_of_int v) | _ -> None) (if nt > 0 then aprogs.(0) else []) in
      let npops = List.length (List.filter (fun o -> o = Pop) (if nt > 1 then aprogs.(1) else [])) in
      ra_sys nt (ra_init (n_of_int capi) [] pushes (nat_of_int npops))
        (fun t (g, ls) k -> ra_step1 ra_ords_code (nat_of_int t) (ra_set_oracle g [n_of_int k], ls))
        (fun g -> ra_race g) (fun g -> ra_content g) (spsc_spec aprogs capi)
    end else failwith "unknown queue kind"
  | _ -> failwith "unknown case header"


(* ---- search of the release/acquire view model for a racy or non-conserving execution under a
        given table of memory orderings (used when the orderings observed in the implementation
        differ from the table the theorem c03_ra_race_free_and_conserving is stated for) ---- *)
let ord_of_string = function
  | "rlx" -> Relaxed | "rel" -> Release | "acq" -> Acquire | "acqrel" -> AcqRel | "sc" -> SeqCst
  | s -> failwith ("ordering " ^ s)

let ra_search (o : ords) =
  let found = ref None in
  let seen = Hashtbl.create 100000 in
  let rec go c sched depth =
    if !found <> None then () else begin
      let (g, ls) = c in
      let key = Marshal.to_string (ra_set_oracle g [], ls O, ls (S O)) [] in
      if not (Hashtbl.mem seen key) then begin
        Hashtbl.add seen key ();
        List.iter (fun t ->
          List.iter (fun k ->
            if !found = None then begin
              let c0 = (ra_set_oracle g [n_of_int k], ls) in
              match ra_step1 o (nat_of_int t) c0 with
              | None -> ()
              | Some (c', _) ->
                let consumed = (ra_oracle (fst c') = []) in
                if k = 0 || consumed then begin
                  let sched' = (t, if consumed then k else 0) :: sched in
                  if ra_race (fst c') then found := Some ("race", List.rev sched')
                  else if not (ra_conserving (fst c')) then found := Some ("conservation", List.rev sched')
                  else go c' sched' (depth + 1)
                end
            end) [0; 1000]) [0; 1]
      end
    end in
  List.iter (fun cap ->
    List.iter (fun npush ->
      List.iter (fun npop ->
        if !found = None then begin
          Hashtbl.reset seen;
          let pushes = List.init npush (fun i -> n_of_int (7 + i)) in
          go (ra_init (n_of_int cap) [] pushes (nat_of_int npop)) [] 0;
          (match !found with
           | Some (what, sched) ->
             Printf.printf "RAWITNESS %s cap=%d pushes=%d pops=%d schedule=%s\n" what cap npush npop
               (String.concat "," (List.map (fun (t, k) -> Printf.sprintf "%d:%d" t k) sched))
           | None -> ())
        end) [1; 2; 3]) [1; 2; 3]) [1; 2];
  if !found = None then print_string "RACLEAN\n"

(* ---- the same for the view model of the safely overflowing queue (model/OverflowQueueRA.v):
        used-race or conservation failure under the given table of seven orderings ---- *)
let oqra_search (o : qords) =
  let found = ref None in
  let seen = Hashtbl.create 100000 in
  let rec go c sched =
    if !found <> None then () else begin
      let (g, ls) = c in
      let key = Marshal.to_string (oqra_set_oracle g [], ls O, ls (S O)) [] in
      if not (Hashtbl.mem seen key) then begin
        Hashtbl.add seen key ();
        List.iter (fun t ->
          List.iter (fun k ->
            if !found = None then begin
              let c0 = (oqra_set_oracle g [n_of_int k], ls) in
              match oqra_step1 o (nat_of_int t) c0 with
              | None -> ()
              | Some (c', _) ->
                let consumed = (oqra_oracle (fst c') = []) in
                if k = 0 || consumed then begin
                  let sched' = (t, if consumed then k else 0) :: sched in
                  if oqra_race_used (fst c') then found := Some ("used-race", List.rev sched')
                  else if not (oqra_conserving (fst c')) then found := Some ("conservation", List.rev sched')
                  else go c' sched'
                end
            end) [0; 1000]) [0; 1]
      end
    end in
  List.iter (fun cap ->
    List.iter (fun npush ->
      List.iter (fun npop ->
        if !found = None then begin
          Hashtbl.reset seen;
          let pushes = List.init npush (fun i -> n_of_int (7 + i)) in
          go (oqra_init (n_of_int cap) [] pushes (nat_of_int npop)) [];
          (match !found with
           | Some (what, sched) ->
             Printf.printf "OQRAWITNESS %s cap=%d pushes=%d pops=%d schedule=%s\n" what cap npush npop
               (String.concat "," (List.map (fun (t, k) -> Printf.sprintf "%d:%d" t k) sched))
           | None -> ())
        end) [1; 2]) [1; 2; 3; 4]) [1; 2];
  if !found = None then print_string "OQRACLEAN\n"

let () =
  if Array.length Sys.argv > 1 && Sys.argv.(1) = "oqra" then
    oqra_search (oqra_mk_ords (ord_of_string Sys.argv.(2)) (ord_of_string Sys.argv.(3)) (ord_of_string Sys.argv.(4))
                   (ord_of_string Sys.argv.(5)) (ord_of_string Sys.argv.(6)) (ord_of_string Sys.argv.(7)) (ord_of_string Sys.argv.(8)))
  else
  if Array.length Sys.argv > 1 && Sys.argv.(1) = "ra" then
    ra_search (ra_mk_ords (ord_of_string Sys.argv.(2)) (ord_of_string Sys.argv.(3)) (ord_of_string Sys.argv.(4))
                 (ord_of_string Sys.argv.(5)) (ord_of_string Sys.argv.(6)) (ord_of_string Sys.argv.(7)))
  else run mk_sys (fun toks -> String.concat " " toks)
