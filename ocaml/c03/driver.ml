(* C03 driver: SPSC index queue / spsc queue step model against the real queues (G1). *)
open Model
open G1drv

let parse_op s =
  match s with
  | "acqp" -> OAcqP | "relp" -> ORelP | "acqc" -> OAcqC | "relc" -> ORelC | "pop" -> OPop
  | _ when String.length s > 4 && String.sub s 0 4 = "push" -> OPush (n_of_int (int_of_string (String.sub s 4 (String.length s - 4))))
  | _ -> failwith ("op " ^ s)

let mk_sys toks =
  match toks with
  | kind :: cap :: prog :: _ when kind = "iq" || kind = "sq" ->
    let progs = Array.of_list (List.map (fun t -> List.map parse_op (split_on ',' t)) (String.split_on_char '|' prog)) in
    let nt = Array.length progs in
    let rec int_of_nat = function O -> 0 | S k -> 1 + int_of_nat k in
    let c = ref (spsc_init (n_of_int (int_of_string cap)) (fun t -> let i = int_of_nat t in if i < nt then progs.(i) else [])) in
    { nthreads = nt;
      (* ops a thread skips because it does not hold the handle are silent model steps (no event):
         the implementation performs nothing for them, so they are taken eagerly here *)
      step = (fun t ->
        let rec go () = match spsc_step1 (nat_of_int t) !c with
          | None -> None
          | Some (c', []) -> c := c'; go ()
          | Some (c', es) -> c := c'; Some es in go ());
      finished = (fun t ->
        let rec go cc = match spsc_step1 (nat_of_int t) cc with
          | None -> true
          | Some (c', []) -> go c'
          | Some _ -> false in go !c);
      final_ok = (fun toks ->
        let m = List.map u64_string_of_n (spsc_content (fst !c)) in
        if m = toks then None else Some (Printf.sprintf "model content [%s] impl content [%s]" (String.concat "," m) (String.concat "," toks)));
      spec = (fun rets final ->
        (* the property on the implementation's own observations: with the programs used by the
           harness thread ops are acq*/rel* (codes 0/1) , pushK (1 = accepted) and pop (v+1 / 0).
           accepted pushes in completion order = pops in completion order ++ final content *)
        let ops = Array.map (fun l -> ref l) progs in
        let pushed = ref [] and popped = ref [] in
        let holds_p = Array.make nt false and holds_c = Array.make nt false in
        List.iter (fun (t, code) ->
          (* next op of thread t that produces a return value *)
          let rec next () = match !(ops.(t)) with
            | [] -> None
            | o :: r -> ops.(t) := r;
              (match o with
               | ORelP when not holds_p.(t) -> next ()
               | ORelC when not holds_c.(t) -> next ()
               | OPush _ when not holds_p.(t) -> next ()
               | OPop when not holds_c.(t) -> next ()
               | _ -> Some o) in
          match next () with
          | Some OAcqP -> if code = "1" then holds_p.(t) <- true
          | Some ORelP -> holds_p.(t) <- false
          | Some OAcqC -> if code = "1" then holds_c.(t) <- true
          | Some ORelC -> holds_c.(t) <- false
          | Some (OPush v) -> if code = "1" then pushed := u64_string_of_n v :: !pushed
          | Some OPop -> if code <> "0" && code <> "P" then popped := Printf.sprintf "%Lu" (Int64.sub (Int64.of_string ("0u" ^ code)) 1L) :: !popped
          | None -> ()) rets;
        let pushed = List.rev !pushed and popped = List.rev !popped in
        if pushed = popped @ final then None
        else Some (Printf.sprintf "conservation violated: accepted pushes [%s] <> pops [%s] ++ content [%s]"
                     (String.concat "," pushed) (String.concat "," popped) (String.concat "," final))) }
  | _ -> failwith "unknown case header"

let () = run mk_sys (fun toks -> String.concat " " toks)
