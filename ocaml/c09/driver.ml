(* C09 driver: UniqueIndexSet / PoolAllocator / RobustUniqueIndexSet step models against the
   real code (G1 trace equality through g1drv), the model-state invariant oracle, and the
   property oracle on the implementation's own return values (kind=spec). *)
open Model
open G1drv

type aop = Acq of int | Rel of bool * bool (* lock, front *) | Bor | IsL | Rec of int * bool

let starts s p = String.length s >= String.length p && String.sub s 0 (String.length p) = p
let after s p = String.sub s (String.length p) (String.length s - String.length p)
let parse_aop s =
  match s with
  | "rel" -> Rel (false, false) | "relf" -> Rel (false, true) | "lrel" -> Rel (true, false) | "lrelf" -> Rel (true, true)
  | "bor" -> Bor | "isl" -> IsL | "acq" -> Acq 0
  | _ when starts s "acq" -> Acq (int_of_string (after s "acq"))
  | _ when starts s "lrec" -> Rec (int_of_string (after s "lrec"), true)
  | _ when starts s "rec" -> Rec (int_of_string (after s "rec"), false)
  | _ -> failwith ("op " ^ s)

let rec int_of_nat = function O -> 0 | S k -> 1 + int_of_nat k
let mode lock = if lock then MLockIfLast else MDefault
let sconcat = String.concat ","

(* ------------------------------------------------------------------ property oracle *)
type ep = { idx : int; d : int; th : int; a0 : int; a1 : int; mutable b1 : int; mutable b2 : int;
            mutable rec_start : int (* start of the recover call that took it, max_int if none *) }
type orec = { p : int; t : int; op : aop; tag : int; pay : int; start : int; panic : bool; mutable e : ep option }
let inf = max_int

(* returns (episodes, op records) or an error for malformed return sequences *)
let build robust (progs : aop list array) (rets : (int * string) list) =
  let nt = Array.length progs in
  let ops = Array.map (fun l -> ref l) progs in
  let held = Array.make nt [] in
  let last = Array.make nt (-1) in
  let eps = ref [] and recs = ref [] in
  List.iteri (fun p (t, code) ->
    let rec next () = match !(ops.(t)) with
      | [] -> None
      | o :: r -> ops.(t) := r;
        (match o with
         | Rel _ when held.(t) = [] -> next ()
         | Rec _ when not robust -> next ()
         | _ -> Some o) in
    (match next () with
     | None -> ()
     | Some op ->
       let panic = (code = "P") in
       let c = if panic then 0 else int_of_string code in
       let r = { p; t; op; tag = c land 7; pay = c lsr 3; start = last.(t); panic; e = None } in
       (match op with
        | Acq d when (not panic) && r.tag = 1 ->
          let e = { idx = r.pay; d; th = t; a0 = last.(t); a1 = p; b1 = inf; b2 = inf; rec_start = inf } in
          eps := e :: !eps; held.(t) <- held.(t) @ [e]; r.e <- Some e
        | Rel (_, front) ->
          let e = if front then List.hd held.(t) else List.hd (List.rev held.(t)) in
          held.(t) <- (if front then List.tl held.(t) else List.rev (List.tl (List.rev held.(t))));
          r.e <- Some e;
          if robust then begin
            e.b1 <- min e.b1 last.(t);
            if (not panic) && r.tag = 2 && r.pay <> 2 then e.b2 <- (if e.b2 = inf then p else max e.b2 p)
          end else begin e.b1 <- p; e.b2 <- p end
        | _ -> ());
       recs := r :: !recs);
    last.(t) <- p) rets;
  (List.rev !eps, List.rev !recs)

let is_own r e = (match r.e with Some e' -> e' == e | None -> false)
let covers e q = e.a0 <= q && q <= e.b2                      (* possibly taken at instant q *)
let def_covers e lo hi = e.a1 <= lo && hi <= e.b1           (* definitely owned throughout [lo, hi] *)
let poss_meets e lo hi = e.a0 <= hi && lo <= e.b2

(* stale_reads: the two Relaxed observers (borrowed_indices, is_locked) may report an older state *)
let stale_reads = ref false
let spec_uis cap is_pool progs rets final =
  let (eps, recs) = build false progs rets in
  let lock_pos = List.fold_left (fun acc r -> match r.op with Rel (true, _) when r.tag = 2 && r.pay = 1 && acc = inf -> r.p | _ -> acc) inf recs in
  let err = ref None in
  let fail m = if !err = None then err := Some m in
  List.iter (fun r ->
    if r.panic then fail (Printf.sprintf "thread %d: operation panicked" r.t) else
    match r.op with
    | Acq _ ->
      if r.tag = 1 then begin
        if r.pay >= cap then fail (Printf.sprintf "thread %d acquired index %d >= capacity %d" r.t r.pay cap);
        if lock_pos < r.p then fail (Printf.sprintf "thread %d acquired index %d after the set was locked" r.t r.pay);
        List.iter (fun e -> if e.idx = r.pay && e.a1 < r.p && r.p <= e.b1 then
          fail (Printf.sprintf "index %d handed out to thread %d while thread %d owns it" r.pay r.t e.th)) eps
      end else if r.tag = 0 && r.pay = 0 then begin
        let ok = ref false in
        (* under stale reads the head word the verdict is based on may predate the call: any instant so far *)
        for q = (if !stale_reads then 0 else r.start) to r.p do
          let taken = List.sort_uniq compare (List.filter_map (fun e -> if covers e q then Some e.idx else None) eps) in
          if List.length taken >= cap then ok := true
        done;
        if not !ok then fail (Printf.sprintf "thread %d: OutOfIndices although at no instant of the call all %d indices were taken" r.t cap)
      end else if r.tag = 0 && r.pay = 1 then begin
        if not (lock_pos < r.p) then fail (Printf.sprintf "thread %d: IsLocked although no LockIfLastIndex release had locked the set" r.t)
      end else fail (Printf.sprintf "thread %d: unexpected acquire result code %d" r.t (r.tag + 8 * r.pay))
    | Rel (lock, _) ->
      let others_def = List.filter (fun e -> (not (is_own r e)) && def_covers e r.p r.p) eps in
      let others_poss = List.filter (fun e -> (not (is_own r e)) && covers e r.p) eps in
      if r.tag <> 2 || r.pay > 1 then fail "unexpected release result"
      else if r.pay = 1 then begin
        if not lock then fail (Printf.sprintf "thread %d: release(Default) returned Locked" r.t);
        if others_def <> [] then fail (Printf.sprintf "thread %d: release locked the set while index %d is still owned" r.t (List.hd others_def).idx)
      end else if lock && others_poss = [] && not is_pool then
        fail (Printf.sprintf "thread %d: release(LockIfLastIndex) of the last index returned Unlocked" r.t)
    | Bor ->
      let lo = List.length (List.filter (fun e -> def_covers e r.p r.p) eps) in
      let hi = List.length (List.filter (fun e -> covers e r.p) eps) in
      if r.tag <> 3 then fail "unexpected borrowed_indices result"
      else if lock_pos < r.p then (if r.pay <> 0 && not !stale_reads then fail "borrowed_indices <> 0 on a locked set")
      else if (not !stale_reads) && (r.pay < lo || r.pay > hi) then fail (Printf.sprintf "thread %d: borrowed_indices = %d outside [%d, %d]" r.t r.pay lo hi)
    | IsL -> if r.tag <> 4 || ((not !stale_reads) && (r.pay = 1) <> (lock_pos < r.p)) || (!stale_reads && r.pay = 1 && not (lock_pos < r.p)) then fail (Printf.sprintf "thread %d: is_locked = %d inconsistent with lock history" r.t r.pay)
    | Rec _ -> ()) recs;
  (* quiescent final state: [borrowed; locked; drained free list ... terminal code] *)
  (match final with
   | b :: lk :: drain when !err = None ->
     let open_eps = List.filter (fun e -> e.b2 = inf) eps in
     let locked = lock_pos < inf in
     if lk <> (if locked then "1" else "0") then fail "final is_locked differs from the lock history";
     if b <> "x" && int_of_string b <> (if locked then 0 else List.length open_eps) then
       fail (Printf.sprintf "final borrowed_indices = %s but %d indices are held" b (List.length open_eps));
     let rec split = function [] -> ([], "") | [x] -> ([], x) | x :: r -> let (a, z) = split r in (x :: a, z) in
     let (got, term) = split drain in
     let got = List.map (fun c -> let c = int_of_string c in if c land 7 = 1 then c lsr 3 else -1) got in
     if locked then (if got <> [] || term <> "8" then fail "locked set still hands out indices")
     else begin
       let owned = List.map (fun e -> e.idx) open_eps in
       let all = List.sort compare (owned @ got) in
       if all <> List.init cap (fun i -> i) then
         fail (Printf.sprintf "leak or duplicate at quiescence: held [%s] + still acquirable [%s] is not a partition of 0..%d"
                 (sconcat (List.map string_of_int owned)) (sconcat (List.map string_of_int got)) (cap - 1));
       if term <> "0" then fail "drain did not end with OutOfIndices"
     end
   | _ -> ());
  !err

(* resv: (thread, cell, number of returns logged before the access) of every successful acquire cell CAS of the
   execution (from the case header, computed by the harness from its own access log): that cell is taken from the
   access on -- until the acquire's own episode takes over when it returns Ok, for good when it returns IsLocked
   (the code does not roll the cell back) -- whatever the acquire finally answers *)
let spec_ruis cap progs resv rets final =
  let (eps, recs) = build true progs rets in
  (* end of a reservation: the return of the acquire that made it (first return of that thread at or after it) *)
  let resv = List.map (fun (t, idx, k) ->
    let fin = List.fold_left (fun acc r -> if r.t = t && r.p >= k && acc = None then Some r else acc) None recs in
    let stop = (match fin with Some r when r.tag = 1 -> r.p | _ -> inf) in
    (idx, k - 1, stop)) resv in
  let resv_at q = List.filter_map (fun (idx, a, b) -> if a <= q && q <= b then Some idx else None) resv in
  let resv_meets lo hi = List.filter_map (fun (idx, a, b) -> if a <= hi && lo <= b then Some idx else None) resv in
  let err = ref None in
  let fail m = if !err = None then err := Some m in
  let is_locker r = (not r.panic) && (match r.op with Rel (true, _) -> r.tag = 2 && r.pay = 1 | Rec (_, _) -> r.tag = 5 && r.pay land 1 = 1 | _ -> false) in
  (* a recover that returns Locked may only have observed the lock, not set it: whoever sets it is
     a LockIfLastIndex release/recover; the earliest start of such an op bounds the lock instant from below *)
  let lock_capable r = (not r.panic) && (match r.op with Rel (true, _) -> r.tag = 2 && r.pay = 1 | Rec (_, true) -> true | _ -> false) in
  let lock_lo = List.fold_left (fun acc r -> if lock_capable r then min acc r.start else acc) inf recs in
  let lock_hi = List.fold_left (fun acc r -> if is_locker r then min acc r.p else acc) inf recs in   (* locked for sure from here on *)
  (* pass 1b: attribute recovered indices to episodes *)
  List.iter (fun r -> match r.op with
    | Rec (d, _) when (not r.panic) && r.tag = 5 ->
      let mask = r.pay lsr 1 in
      for i = 0 to cap - 1 do
        if (mask lsr i) land 1 = 1 then begin
          let cands = List.filter (fun e -> e.idx = i && e.d = d && e.a0 <= r.p && e.rec_start = inf && (e.b2 = inf || e.b2 >= r.start)) eps in
          (* at most one episode of an index is live at a time: the earliest one not ended when the recover returns is
             the one taken; otherwise the latest one that ended inside the recover call *)
          let still_open = List.filter (fun e -> e.b2 = inf || e.b2 >= r.p) cands in
          match (if still_open <> [] then still_open else List.rev cands) with
          | e :: _ -> e.rec_start <- r.start; e.b1 <- min e.b1 r.start; e.b2 <- (if e.b2 = inf then r.p else max e.b2 r.p)
          | [] ->
            (* a cell populated by an acquire(d) that then returned IsLocked (leaked cell of a locked set) *)
            let leaked = List.exists (fun x -> (match x.op with Acq d' -> d' = d | _ -> false) && x.tag = 0 && x.pay = 1 && x.start <= r.p) recs in
            if not leaked then fail (Printf.sprintf "thread %d: recover(%d) released index %d which owner %d never held" r.t d i d)
        end
      done
    | _ -> ()) recs;
  List.iter (fun r ->
    if r.panic then fail (Printf.sprintf "thread %d: operation panicked" r.t) else
    match r.op with
    | Acq _ ->
      if r.tag = 1 then begin
        if r.pay >= cap then fail (Printf.sprintf "thread %d acquired index %d >= capacity %d" r.t r.pay cap);
        if lock_hi < r.p then fail (Printf.sprintf "thread %d acquired index %d after the set was locked" r.t r.pay);
        (* an acquire whose owner id was recovered (by a recover call that began before it returned) holds
           nothing: recover on a live owner is outside recover's contract, the harness does it on purpose *)
        let void = (match r.e with Some e -> e.rec_start <= r.p | None -> false) in
        if not void then
        List.iter (fun e -> if e.idx = r.pay && e.a1 < r.p && r.p <= e.b1 then
          fail (Printf.sprintf "index %d handed out to thread %d while thread %d owns it" r.pay r.t e.th)) eps
      end else if r.tag = 0 && r.pay = 0 then begin
        let ok = ref false in
        for q = r.start to r.p do
          let taken = List.sort_uniq compare (resv_at q @ List.filter_map (fun e -> if covers e q then Some e.idx else None) eps) in
          if List.length taken >= cap then ok := true
        done;
        if not !ok then fail (Printf.sprintf "thread %d: OutOfIndices although at no instant of the call all %d indices were taken" r.t cap)
      end else if r.tag = 0 && r.pay = 1 then begin
        if not (lock_lo <= r.p) then fail (Printf.sprintf "thread %d: IsLocked although nothing can have locked the set" r.t)
      end else fail "unexpected acquire result"
    | Rel (lock, _) ->
      if r.tag <> 2 || r.pay > 2 then fail "unexpected release result"
      else if r.pay = 2 then begin
        (match r.e with Some e when e.rec_start <= r.p -> () | _ -> fail (Printf.sprintf "thread %d: release says IndexIsNotOwnedByProvidedOwner for an index it owns although no recover took its owner id (a cell was cleared that did not hold the recovered owner)" r.t))
      end else if r.pay = 1 then begin
        if not lock then fail "release(Default) returned Locked";
        List.iter (fun e -> if (not (is_own r e)) && def_covers e r.start r.p then
          fail (Printf.sprintf "thread %d: lock succeeded while index %d is owned by thread %d for the whole call" r.t e.idx e.th)) eps
      end else if lock then begin
        if not (List.exists (fun e -> (not (is_own r e)) && poss_meets e r.start r.p) eps) && resv_meets r.start r.p = [] then
          fail (Printf.sprintf "thread %d: release(LockIfLastIndex) returned Unlocked although no other index was taken during the call" r.t)
      end
    | Bor ->
      let lo = List.length (List.filter (fun e -> def_covers e r.start r.p) eps) in
      let hi = List.length (List.sort_uniq compare (resv_meets r.start r.p @ List.filter_map (fun e -> if poss_meets e r.start r.p then Some e.idx else None) eps)) in
      if r.tag <> 3 then fail "unexpected borrowed_indices result"
      else if not ((lo <= r.pay && r.pay <= hi) || (r.pay = 0 && lock_lo <= r.p)) then
        fail (Printf.sprintf "thread %d: borrowed_indices = %d outside [%d, %d]" r.t r.pay lo hi)
    | IsL ->
      if r.tag <> 4 then fail "unexpected is_locked result"
      else if r.pay = 1 && not (lock_lo <= r.p) then fail "is_locked = true although nothing can have locked the set"
      else if r.pay = 0 && lock_hi < r.start then fail "is_locked = false after the set was locked"
    | Rec (d, _) ->
      if r.tag <> 5 then fail "unexpected recover result"
      else begin
        let mask = r.pay lsr 1 and locked = r.pay land 1 = 1 in
        if locked && not (lock_lo <= r.p) then fail "recover returned Locked although nothing can have locked the set";
        if (not locked) && lock_hi < r.start then fail "recover returned Unlocked after the set was locked";
        if not locked then
          List.iter (fun e -> if e.d = d && e.a1 <= r.start && r.p <= e.b1 && (mask lsr e.idx) land 1 = 0 then
            fail (Printf.sprintf "thread %d: recover(%d) missed index %d owned by %d during the whole call" r.t d e.idx d)) eps
      end) recs;
  (match final with
   | lk :: cellsf when !err = None ->
     let locked = lock_hi < inf in
     if lk <> (if locked then "1" else "0") then fail "final is_locked differs from the lock history";
     if not locked then
       List.iteri (fun i c ->
         let opn = List.filter (fun e -> e.idx = i && e.b2 = inf) eps in
         match opn, c with
         | [], "e" -> ()
         | [e], c when c <> "e" && int_of_string c = e.d -> ()
         | _ -> fail (Printf.sprintf "final cell %d = %s does not match the held indices" i c)) cellsf
   | _ -> ());
  !err

(* ------------------------------------------------------------------ model side *)
let mk_sys toks =
  match toks with
  | kind :: cap :: prog :: dist :: _ ->
    let aprogs = Array.of_list (List.map (fun t -> List.map parse_aop (split_on ',' t)) (String.split_on_char '|' prog)) in
    let nt = Array.length aprogs in
    let capi = int_of_string cap in
    let distn = n_of_u64_string dist in
    let inv_bad = ref None in
    let nsteps = ref 0 in
    let model_agreed = ref false in   (* set by final_ok: g1drv calls it only when the whole trace matched the model *)
    if kind = "uis" || kind = "pool" then begin
      let conv = function Acq _ -> [UAcq] | Rel (lk, fr) -> [URel (mode (lk && kind = "uis"), fr)] | Bor -> [UBorrowed] | IsL -> [UIsLocked] | Rec _ -> [] in
      let progs = Array.map (fun l -> List.concat (List.map conv l)) aprogs in
      let drain = List.init (capi + 2) (fun _ -> UAcq) in
      let c0 = uis_init (n_of_int capi) distn (fun t -> let i = int_of_nat t in if i < nt then progs.(i) else if i = nt then drain else []) in
      (* thread states are kept in an array: the model's upd_l closure chain would make every lookup of a
         long-parked thread linear in the number of steps *)
      let arr = Array.init (nt + 2) (fun i -> snd c0 (nat_of_int i)) in
      let mk g = (g, fun t -> let i = int_of_nat t in if i <= nt then arr.(i) else arr.(nt + 1)) in
      let c = ref (mk (fst c0)) in
      let commit t c' = arr.(t) <- snd c' (nat_of_int t); c := mk (fst c') in
      let check () =
        if !inv_bad = None then begin
          let g = fst !c in
          if not (uis_ginv_b g) then inv_bad := Some (Printf.sprintf "global invariant false after model step %d" !nsteps)
          else for t = 0 to nt - 1 do
            if not (uis_linv_b g (nat_of_int t) (snd !c (nat_of_int t))) then inv_bad := Some (Printf.sprintf "thread %d invariant false after model step %d" t !nsteps)
          done
        end in
      let step t =
        let rec go () = match uis_step1 (nat_of_int t) !c with
          | None -> None
          | Some (c', []) -> commit t c'; go ()
          | Some (c', es) -> commit t c'; incr nsteps; check (); Some es in go () in
      let finished t =
        let rec go cc = match uis_step1 (nat_of_int t) cc with None -> true | Some (c', []) -> go c' | Some _ -> false in go !c in
      { nthreads = nt; step; finished;
        final_ok = (fun toks ->
          model_agreed := true;
          let g = fst !c in
          let w = g.uhead in
          let b = hd_borrowed w in
          let locked = (int_of_n b = 0xffffff) in
          let codes = ref [] in
          let continue_ = ref true in
          while !continue_ do
            match uis_step1 (nat_of_int nt) !c with
            | None -> continue_ := false
            | Some (c', es) -> commit nt c';
              List.iter (function ERet r -> codes := u64_string_of_n r :: !codes; if int_of_n r land 7 = 0 then continue_ := false | _ -> ()) es
          done;
          let m = (if kind = "pool" then "x" else if locked then "0" else u64_string_of_n b) :: (if locked then "1" else "0") :: List.rev !codes in
          if m = toks then None else Some (Printf.sprintf "model final [%s] impl final [%s]" (sconcat m) (sconcat toks)));
        spec = (fun rets final ->
          (* the property oracle looks at the implementation's own returns and final state only; the
             invariant oracle speaks about the implementation only when the model followed it to the end *)
          match spec_uis capi (kind = "pool") aprogs rets final with
          | Some m -> Some m
          | None -> (match !inv_bad with
                     | Some m when !model_agreed -> Some ("proved invariant false on a state the implementation reached (model followed the whole trace): " ^ m)
                     | _ -> None)) }
    end else if kind = "uisra" then begin
      (* release/acquire view model of UniqueIndexSet against the real set run with injected stale
         values of the head word: the staleness oracle is chosen from the value the implementation read *)
      let conv = function Acq _ -> [UAcq] | Rel (lk, fr) -> [URel (mode lk, fr)] | Bor -> [UBorrowed] | IsL -> [UIsLocked] | Rec _ -> [] in
      let progs = Array.map (fun l -> List.concat (List.map conv l)) aprogs in
      let drain = List.init (capi + 2) (fun _ -> UAcq) in
      let c = ref (uisra_init (n_of_int capi) distn [] (fun t -> let i = int_of_nat t in if i < nt then progs.(i) else if i = nt then drain else [])) in
      let step_k t k = let (g, ls) = !c in uisra_step1 uisra_ords_code (nat_of_int t) (uisra_set_oracle g [n_of_int k], ls) in
      let first_acc es = let rec f = function EAcc (_, _, _, k, _, _, rd, _, ok) :: _ -> Some (k, rd, ok) | _ :: r -> f r | [] -> None in f es in
      let check () =
        if !inv_bad = None then begin
          let g = uisra_g (fst !c) in
          if not (uis_ginv_b g) then inv_bad := Some (Printf.sprintf "global invariant false after model step %d" !nsteps)
          else for t = 0 to nt - 1 do
            if not (uis_linv_b g (nat_of_int t) (uisra_sc (snd !c (nat_of_int t)))) then inv_bad := Some (Printf.sprintf "thread %d invariant false after model step %d" t !nsteps)
          done
        end in
      let rec step t =
        match step_k t 0 with
        | None -> None
        | Some (c0', []) -> c := c0'; step t
        | Some (c0', es0) ->
          let stale_site = match first_acc es0 with Some (KLoad, _, _) -> true | Some (KCas, _, false) -> true | _ -> false in
          let matches es = match first_acc es with Some (_, rd, _) -> u64_string_of_n rd = !observed_rd | None -> false in
          let chosen =
            if (not stale_site) || matches es0 then Some (c0', es0)
            else begin
              let found = ref None in
              for k = 1 to 64 do
                if !found = None then match step_k t k with Some (ck, esk) when matches esk -> found := Some (ck, esk) | _ -> ()
              done;
              !found
            end in
          (match chosen with
           | Some (c', es) ->
             c := c'; incr nsteps; check ();
             if uisra_race_used (fst c') then raise (Failure "view model flags a racy used access under the code's ordering table");
             Some es
           | None -> c := c0'; incr nsteps; Some es0) in
      let finished t =
        let rec go cc = match uisra_step1 uisra_ords_code (nat_of_int t) cc with None -> true | Some (c', []) -> go c' | Some _ -> false in go !c in
      { nthreads = nt; step; finished;
        final_ok = (fun toks ->
          model_agreed := true;
          let g = uisra_g (fst !c) in
          let w = g.uhead in
          let b = hd_borrowed w in
          let locked = (int_of_n b = 0xffffff) in
          let codes = ref [] in
          let continue_ = ref true in
          while !continue_ do
            match step_k nt 0 with
            | None -> continue_ := false
            | Some (c', es) -> c := c';
              List.iter (function ERet r -> codes := u64_string_of_n r :: !codes; if int_of_n r land 7 = 0 then continue_ := false | _ -> ()) es
          done;
          let m = (if locked then "0" else u64_string_of_n b) :: (if locked then "1" else "0") :: List.rev !codes in
          if m = toks then None else Some (Printf.sprintf "model final [%s] impl final [%s]" (sconcat m) (sconcat toks)));
        spec = (fun rets final ->
          stale_reads := true;
          let r0 = spec_uis capi false aprogs rets final in
          stale_reads := false;
          match r0 with
          | Some m -> Some m
          | None -> (match !inv_bad with
                     | Some m when !model_agreed -> Some ("proved invariant false on a state the implementation reached under stale reads (model followed the whole trace): " ^ m)
                     | _ -> None)) }
    end else if kind = "ruis" then begin
      let conv = function Acq d -> RAcq (n_of_int d) | Rel (lk, fr) -> RRel (mode lk, fr) | Bor -> RBorrowed | IsL -> RIsLocked | Rec (d, lk) -> RRecover (n_of_int d, mode lk) in
      let progs = Array.map (List.map conv) aprogs in
      let c = ref (ruis_init (n_of_int capi) distn (fun t -> let i = int_of_nat t in if i < nt then progs.(i) else [])) in
      let step t =
        let rec go () = match ruis_step1 (nat_of_int t) !c with
          | None -> None
          | Some (c', []) -> c := c'; go ()
          | Some (c', es) -> c := c'; Some es in go () in
      let finished t =
        let rec go cc = match ruis_step1 (nat_of_int t) cc with None -> true | Some (c', []) -> go c' | Some _ -> false in go !c in
      { nthreads = nt; step; finished;
        final_ok = (fun toks ->
          let g = fst !c in
          let locked = (u64_string_of_n g.gen = "18446744073709551615") in
          let cellss = List.map (fun v -> let s = u64_string_of_n v in if s = "18446744073709551615" then "e" else s) g.cells in
          let m = (if locked then "1" else "0") :: (if locked then [] else cellss) in
          if m = toks then None else Some (Printf.sprintf "model final [%s] impl final [%s]" (sconcat m) (sconcat toks)));
        spec = (fun rets final ->
          let resv = (match toks with
            | _ :: _ :: _ :: _ :: r :: _ when r <> "-" ->
              List.map (fun x -> match String.split_on_char ':' x with
                | [t; i; k] -> (int_of_string t, int_of_string i, int_of_string k)
                | _ -> failwith "bad reservation token") (split_on ',' r)
            | _ -> []) in
          spec_ruis capi aprogs resv rets final) }
    end else failwith "unknown kind"
  | _ -> failwith "unknown case header"

(* ---- search of the release/acquire view model of UniqueIndexSet (model/UniqueIndexSetRA.v) for
        an execution in which a USED next-cell value was read racily, under a given table of six
        memory orderings (used when the orderings observed in the implementation differ from the
        table the theorem c09_uisra_exclusive_and_used_race_free is stated for) ---- *)
let ord_of_string = function
  | "rlx" -> Relaxed | "rel" -> Release | "acq" -> Acquire | "acqrel" -> AcqRel | "sc" -> SeqCst
  | s -> failwith ("ordering " ^ s)

let uisra_search (o : vords) =
  let found = ref None in
  let seen = Hashtbl.create 100000 in
  let templates = [
    ("acq,rel|acq", [| [UAcq; URel (MDefault, true)]; [UAcq] |]);
    ("acq|acq,rel", [| [UAcq]; [UAcq; URel (MDefault, true)] |]);
    ("acq,rel,acq|acq,rel", [| [UAcq; URel (MDefault, true); UAcq]; [UAcq; URel (MDefault, true)] |]);
    ("acq,rel|acq,rel|acq", [| [UAcq; URel (MDefault, true)]; [UAcq; URel (MDefault, true)]; [UAcq] |]) ] in
  List.iter (fun cap ->
    List.iter (fun (name, progs) ->
      if !found = None then begin
        Hashtbl.reset seen;
        let nt = Array.length progs in
        let rec go c sched =
          if !found <> None then () else begin
            let (g, ls) = c in
            let key = Marshal.to_string (uisra_set_oracle g [], Array.init nt (fun i -> ls (nat_of_int i))) [] in
            if not (Hashtbl.mem seen key) then begin
              Hashtbl.add seen key ();
              for t = 0 to nt - 1 do
                List.iter (fun k ->
                  if !found = None then begin
                    let c0 = (uisra_set_oracle g [n_of_int k], ls) in
                    match uisra_step1 o (nat_of_int t) c0 with
                    | None -> ()
                    | Some (c', _) ->
                      let consumed = (uisra_oracle (fst c') = []) in
                      if k = 0 || consumed then begin
                        let sched' = (t, if consumed then k else 0) :: sched in
                        if uisra_race_used (fst c') then found := Some (name, cap, List.rev sched')
                        else go c' sched'
                      end
                  end) [0; 1000]
              done
            end
          end in
        go (uisra_init (n_of_int cap) (n_of_int 32) [] (fun t -> let i = int_of_nat t in if i < nt then progs.(i) else [])) []
      end) templates) [1; 2];
  match !found with
  | Some (name, cap, sched) ->
    Printf.printf "UISRAWITNESS used-race cap=%d program=%s schedule=%s\n" cap name
      (String.concat "," (List.map (fun (t, k) -> Printf.sprintf "%d:%d" t k) sched))
  | None -> print_string "UISRACLEAN\n"

let () =
  if Array.length Sys.argv > 1 && Sys.argv.(1) = "uisra" then
    uisra_search (uisra_mk_ords (ord_of_string Sys.argv.(2)) (ord_of_string Sys.argv.(3)) (ord_of_string Sys.argv.(4))
                    (ord_of_string Sys.argv.(5)) (ord_of_string Sys.argv.(6)) (ord_of_string Sys.argv.(7)))
  else run mk_sys (fun toks -> match toks with k :: c :: p :: _ -> String.concat " " [k; c; p] | _ -> String.concat " " toks)
