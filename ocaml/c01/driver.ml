(* Correspondence driver for C01 / C02 / C08 (one model, model/Port.v): replays the API
   histories that the Rust harness ran against the real publish-subscribe ports on the
   extracted Coq model and reports every difference.  Parsing / printing only; all behaviour
   and all reference values come from Model (extracted).

   input:  C <variant> S P B M H ovf E            one case (fresh service)
           O <op> <args> = <impl observation>      one API call
           K <id>=<pub>.<seq> ...                  canary probe: content of every held sample, now
   output: MISMATCH case= op= kind=model|spec prop=C01|C02|C08 key=<k> line=[..] model|spec=.. impl=..
           SUMMARY .., OPCOUNT .., EXTRA .. *)
open Model

let rec nat_of_int (i : int) : nat = if i <= 0 then O else S (nat_of_int (i - 1))
let rec int_of_nat = function O -> 0 | S n -> 1 + int_of_nat n
let rec pos_of_int (i : int) : positive =
  if i = 1 then XH else if i land 1 = 0 then XO (pos_of_int (i lsr 1)) else XI (pos_of_int (i lsr 1))
let n_of_int (i : int) : n = if i = 0 then N0 else Npos (pos_of_int i)
let rec int_of_pos = function XH -> 1 | XO p -> 2 * int_of_pos p | XI p -> 2 * int_of_pos p + 1
let int_of_n = function N0 -> 0 | Npos p -> int_of_pos p

let show_err = function
  | EConnectionBroken -> "eBroken" | EUnableToDeliver -> "eUnable" | EExceedsMaxLoans -> "eLoans"
  | EOutOfMemory -> "eOom" | EExceedsMaxBorrows -> "eBorrow" | EMaxPublishers -> "eMaxPub"
  | EMaxSubscribers -> "eMaxSub" | EBufferSize -> "eBuf" | EHistoryService -> "eHistSvc"
  | EHistoryBuffer -> "eHistBuf"
let show_pl p = Printf.sprintf "%d.%d" (int_of_nat p.pl_pub) (int_of_n p.pl_seq)
let rec show_obs_base o = show_obs o
and show_obs = function
  | BNa -> "-" | BOk -> "ok" | BCreated i -> "c" ^ string_of_int (int_of_nat i)
  | BErr e -> show_err e
  | BLoaned (id, ch) -> Printf.sprintf "l%d@%d" (int_of_nat id) (int_of_nat ch)
  | BSent k -> "n" ^ string_of_int (int_of_nat k)
  | BRecv None -> "none"
  | BRecv (Some ((id, origin), pl)) -> Printf.sprintf "x%d:%d:%s" (int_of_nat id) (int_of_nat origin) (show_pl pl)
  | BBool b -> if b then "b1" else "b0"
  | BExh (k, e) -> Printf.sprintf "x%d:%s" (int_of_nat k) (show_err e)
  | BFiles (c, d) -> Printf.sprintf "c%dd%d" (int_of_nat c) (int_of_nat d)
  | BBlocks -> "BLOCKS"
  | BWith (o, _) -> show_obs_base o
let show_hev = function
  | HvDrop id -> Printf.sprintf "d:%d" (int_of_nat id) | HvDropNone -> "d:-"
  | HvRecv (s, id, origin, pl) -> Printf.sprintf "r:%d:x%d:%d:%s" (int_of_nat s) (int_of_nat id) (int_of_nat origin) (show_pl pl)
  | HvRecvNone s -> Printf.sprintf "r:%d:none" (int_of_nat s) | HvRecvBorrow s -> Printf.sprintf "r:%d:eBorrow" (int_of_nat s) | HvNa -> "r:na"
let show_trace = function BWith (_, tr) -> String.concat " " (List.map show_hev tr) | _ -> ""
let show_canary l = String.concat " " (List.map (fun (id, pl) -> Printf.sprintf "%d=%s" (int_of_nat id) (show_pl pl)) l)

let parse_hmode s =
  if s = "-" then HNone
  else if String.exists (fun ch -> ch = 'D' || ch = 'R') s then begin
    (* groups: a run of actions (D = drop the oldest held sample, R = receive) closed by one answer letter *)
    let act = function 'r' -> BRetry | 'd' -> BDiscard | 'f' -> BDiscardFail | 'o' -> BFollow | _ -> failwith "hmode" in
    let groups = ref [] and cur = ref [] in
    String.iter (fun ch -> match ch with
      | 'D' -> cur := HDrop :: !cur | 'R' -> cur := HRecv :: !cur
      | ch -> groups := { g_acts = List.rev !cur; g_ans = act ch } :: !groups; cur := []) s;
    (match !groups with
     | last :: rest -> HActs (List.rev rest, last)
     | [] -> failwith "hmode: no answer")
  end else begin
    let act = function 'r' -> BRetry | 'd' -> BDiscard | 'f' -> BDiscardFail | 'o' -> BFollow | _ -> failwith "hmode" in
    let n = String.length s in
    let script = List.init (n - 1) (fun i -> act s.[i]) in
    HScript { h_script = script; h_last = act s.[n - 1] }
  end
let opt_nat s = if s = "-" then None else Some (nat_of_int (int_of_string s))

let parse_op name args =
  let a k = nat_of_int (int_of_string (List.nth args k)) in
  match name with
  | "pc" -> OPubCreate (a 0, List.nth args 1 = "1", parse_hmode (List.nth args 2))
  | "pd" -> OPubDrop (a 0)
  | "sc" -> OSubCreate (opt_nat (List.nth args 0), opt_nat (List.nth args 1))
  | "sd" -> OSubDrop (a 0)
  | "ln" -> OLoan (a 0) | "wr" -> OWrite (a 0) | "snd" -> OSend (a 0) | "ld" -> OLoanDrop (a 0)
  | "sn" -> OSendCopy (a 0) | "rx" -> ORecv (a 0) | "rd" -> OSampleDrop (a 0) | "hs" -> OHasSamples (a 0)
  | "pu" -> OPubUpdate (a 0) | "su" -> OSubUpdate (a 0) | "ex" -> OExhaust (a 0) | "fc" -> OFiles
  | _ -> failwith ("unknown op " ^ name)

(* which property an operation's reference value belongs to, and the stable key of a failure *)
let classify_spec name w_after =
  match name with
  | "ex" -> ("C02", "pubsub:exhaustion-probe-differs")
  | _ -> ("C01", "pubsub:" ^ name)

let () =
  let w = ref None in
  let case_no = ref 0 and op_no = ref 0 and ops_total = ref 0 in
  let mm_model = ref 0 and mm_spec = ref 0 in
  let cur_case = Buffer.create 256 and cur_nontrivial = ref false in
  let seen = Hashtbl.create 100000 in
  let distinct_nontrivial = ref 0 in
  let opcount = Hashtbl.create 64 in
  let extra = Hashtbl.create 64 in
  let bump tbl k = Hashtbl.replace tbl k (1 + try Hashtbl.find tbl k with Not_found -> 0) in
  let dead = ref false in
  (* what the implementation itself showed at receive time: sample id -> content (model-free canary oracle) *)
  let impl_expect : (string, string) Hashtbl.t = Hashtbl.create 64 in
  (* model-free bookkeeping from the implementation's own observations *)
  let held : (string, string * string) Hashtbl.t = Hashtbl.create 64 in   (* sample id -> (subscriber, origin) *)
  let pub_l : (string, int) Hashtbl.t = Hashtbl.create 8 in               (* publisher -> max_loaned_samples *)
  let loans : (string, string) Hashtbl.t = Hashtbl.create 16 in           (* loan id -> publisher *)
  let case_m = ref 1 in
  (* model-free facts about the history, from the implementation's own observations: they guard the keys of
     the known findings (a key is given only when the finding's preconditions hold in the history itself) *)
  let case_cap = ref 1 in                                                    (* max(subscriber_expired_connection_buffer, max_borrowed) *)
  let live_pubs : (string, unit) Hashtbl.t = Hashtbl.create 8 in
  let vanished : (string, unit) Hashtbl.t = Hashtbl.create 8 in             (* publishers whose Publisher was dropped *)
  let dropped_subs : (string, unit) Hashtbl.t = Hashtbl.create 8 in         (* subscribers whose Subscriber was dropped *)
  let touched : (string * string, unit) Hashtbl.t = Hashtbl.create 16 in    (* (s, p): s ran update_connections while p was registered *)
  let ever_attached : (int * int, unit) Hashtbl.t = Hashtbl.create 16 in   (* connection instances whose receiver side was attached at some time *)
  let touch sub = Hashtbl.iter (fun p () -> Hashtbl.replace touched (sub, p) ()) live_pubs in
  let vanished_held sub =   (* vanished publishers of which sub holds a sample *)
    let seen = Hashtbl.create 4 in
    Hashtbl.iter (fun _ (sb, orig) -> if sb = sub && Hashtbl.mem vanished orig then Hashtbl.replace seen orig ()) held;
    Hashtbl.length seen in
  let vanished_touched sub = Hashtbl.fold (fun p () a -> if Hashtbl.mem touched (sub, p) then a + 1 else a) vanished 0 in
  let all_subs () = let t = Hashtbl.create 4 in
    Hashtbl.iter (fun (sb, _) () -> Hashtbl.replace t sb ()) touched; Hashtbl.iter (fun _ (sb, _) -> Hashtbl.replace t sb ()) held;
    Hashtbl.fold (fun k () a -> k :: a) t [] in
  (* delivered-but-not-yet-received payloads per (subscriber, publisher); only maintained when the service
     allows one subscriber and has no overflow and no history (then `n1` names the recipient and nothing may be skipped) *)
  let track_delivery = ref false and cur_sub = ref "" in
  let pub_seq : (string, int) Hashtbl.t = Hashtbl.create 8 in
  let loan_pl : (string, string) Hashtbl.t = Hashtbl.create 16 in
  let pending : (string * string, string list) Hashtbl.t = Hashtbl.create 8 in
  let pending_skip = ref None in
  let printed = Hashtbl.create 64 in
  let last_line = ref "" in
  let case_saturated = ref false and case_canary_bad = ref false and inv_bad = ref false in
  let report sg text =
    let n = try Hashtbl.find printed sg with Not_found -> 0 in
    Hashtbl.replace printed sg (n + 1);
    if n < 1 then print_string text in
  let flush_case () =
    if Buffer.length cur_case > 0 then begin
      let key = Digest.string (Buffer.contents cur_case) in
      if !cur_nontrivial && not (Hashtbl.mem seen key) then begin
        Hashtbl.add seen key (); incr distinct_nontrivial end;
      if !case_saturated then bump extra "cases_reaching_saturation";
      Buffer.clear cur_case; cur_nontrivial := false; case_saturated := false; case_canary_bad := false; inv_bad := false
    end in
  (try
    while true do
      let line = input_line stdin in
      let toks = List.filter (fun s -> s <> "") (String.split_on_char ' ' line) in
      match toks with
      | "C" :: _variant :: s :: p :: b :: m :: h :: ovf :: e :: _ ->
        flush_case (); incr case_no; op_no := 0; dead := false; Hashtbl.reset impl_expect;
        Hashtbl.reset held; Hashtbl.reset pub_l; Hashtbl.reset loans; case_m := max 1 (int_of_string m);
        case_cap := max (int_of_string e) (max 1 (int_of_string m));
        Hashtbl.reset live_pubs; Hashtbl.reset vanished; Hashtbl.reset dropped_subs; Hashtbl.reset touched; Hashtbl.reset ever_attached;
        Hashtbl.reset pub_seq; Hashtbl.reset loan_pl; Hashtbl.reset pending; pending_skip := None; cur_sub := "";
        track_delivery := (s = "1" && ovf = "0" && h = "0");
        Buffer.add_string cur_case (String.concat " " [s; p; b; m; h; ovf; e] ^ "|");
        let i x = nat_of_int (int_of_string x) in
        let cfg = { cf_S = i s; cf_P = i p; cf_B = i b; cf_M = i m; cf_H = i h; cf_ovf = (ovf = "1"); cf_E = i e } in
        w := Some (world_new cfg)
      | "O" :: name :: rest ->
        incr op_no; incr ops_total; last_line := line;
        let rec split acc = function "=" :: r -> (List.rev acc, r) | x :: r -> split (x :: acc) r | [] -> (List.rev acc, []) in
        let (args, obs) = split [] rest in
        let impl = match obs with o :: _ -> o | [] -> "?" in
        Buffer.add_string cur_case (name ^ " " ^ String.concat " " args ^ ";");
        bump opcount name;
        let impl_trace = (match obs with _ :: "H" :: t -> String.concat " " t | _ -> "") in
        (* ---- oracles that need only the implementation's own observations (always evaluated) ---- *)
        let borrow_check sub =
          (* receive may answer ExceedsMaxBorrows only if the subscriber holds max_borrowed samples of some publisher *)
          let per = Hashtbl.create 4 in
          Hashtbl.iter (fun _ (sb, orig) -> if sb = sub then Hashtbl.replace per orig (1 + try Hashtbl.find per orig with Not_found -> 0)) held;
          let mx = Hashtbl.fold (fun _ v a -> max v a) per 0 in
          if mx < !case_m then begin
            incr mm_spec; bump extra "borrow_rejected_below_limit";
            report "specborrow" (Printf.sprintf "MISMATCH case=%d op=%d kind=spec prop=C08 key=pubsub:exceeds-max-borrows-while-holding-fewer line=[%s] spec=receive-accepted(holding %d < M=%d of every publisher) impl=eBorrow\n" !case_no !op_no line mx !case_m) end in
        let next_pl p = let q = (try Hashtbl.find pub_seq p with Not_found -> 0) in Hashtbl.replace pub_seq p (q + 1); Printf.sprintf "%s.%d" p q in
        let delivered p pl = if !track_delivery && !cur_sub <> "" then
            Hashtbl.replace pending (!cur_sub, p) ((try Hashtbl.find pending (!cur_sub, p) with Not_found -> []) @ [pl]) in
        let note_rx sub tok =   (* "x<id>:<origin>:<content>" | none | eBorrow *)
          if tok = "eBorrow" then borrow_check sub
          else if tok = "none" then begin
            (* nothing left to receive: then nothing that was counted as delivered to this subscriber may be outstanding *)
            let out = Hashtbl.fold (fun (sb, p) q a -> if sb = sub && q <> [] then (p ^ ":" ^ String.concat "," q) :: a else a) pending [] in
            if out <> [] then begin
              pending_skip := Some ("receive returned none although delivered samples were never received: " ^ String.concat " " out);
              Hashtbl.iter (fun (sb, p) _ -> if sb = sub then Hashtbl.replace pending (sb, p) []) (Hashtbl.copy pending) end
          end
          else if String.length tok > 1 && tok.[0] = 'x' then
            match String.split_on_char ':' tok with
            | [xid; orig; pl] ->
              let id = String.sub xid 1 (String.length xid - 1) in
              Hashtbl.replace impl_expect id pl; Hashtbl.replace held id (sub, orig);
              (* every sample counted as delivered is received, in the publisher's send order: nothing before it is skipped *)
              (match Hashtbl.find_opt pending (sub, orig) with
               | Some q when List.mem pl q ->
                 let rec cut acc = function x :: t when x <> pl -> cut (x :: acc) t | _ :: t -> (List.rev acc, t) | [] -> (List.rev acc, []) in
                 let (skipped, rest) = cut [] q in
                 Hashtbl.replace pending (sub, orig) rest;
                 if skipped <> [] then pending_skip := Some (Printf.sprintf "received %s from publisher %s although %s was delivered before it and never received" pl orig (String.concat "," skipped))
               | _ -> ())
            | _ -> () in
        (match name, args with
         | ("rx" | "hs" | "su"), [sub] when impl <> "-" && impl <> "P" -> touch sub
         | "sc", _ when String.length impl > 1 && impl.[0] = 'c' -> touch (String.sub impl 1 (String.length impl - 1))
         | "pc", _ when String.length impl > 1 && impl.[0] = 'c' -> Hashtbl.replace live_pubs (String.sub impl 1 (String.length impl - 1)) ()
         | "pd", [p] when impl = "ok" -> Hashtbl.remove live_pubs p; Hashtbl.replace vanished p ()
         | "sd", [sb] when impl = "ok" -> Hashtbl.replace dropped_subs sb ()
         | _ -> ());
        (match name, args with
         | "rx", [sub] -> note_rx sub impl
         | "rd", [id] -> if impl = "ok" then Hashtbl.remove held id
         | "sc", _ -> if String.length impl > 1 && impl.[0] = 'c' then cur_sub := String.sub impl 1 (String.length impl - 1)
         | "sd", [id] -> if !cur_sub = id then cur_sub := ""
         | "wr", [id] -> (match Hashtbl.find_opt loans id with Some p -> Hashtbl.replace loan_pl id (next_pl p) | None -> ())
         | "sn", [p] -> if impl <> "eLoans" && impl <> "eOom" && impl <> "P" && impl <> "-" then begin
             let pl = next_pl p in if impl = "n1" then delivered p pl end
         | "pc", l :: _ -> if String.length impl > 1 && impl.[0] = 'c' then Hashtbl.replace pub_l (String.sub impl 1 (String.length impl - 1)) (int_of_string l)
         | "ln", [p] -> if String.length impl > 1 && impl.[0] = 'l' then
             (match String.index_opt impl '@' with
              | Some i -> let id = String.sub impl 1 (i - 1) in Hashtbl.replace loans id p; Hashtbl.replace loan_pl id (next_pl p)
              | None -> ())
         | "snd", [id] ->
           (match Hashtbl.find_opt loans id, Hashtbl.find_opt loan_pl id with
            | Some p, Some pl -> if impl = "n1" then delivered p pl
            | _ -> ());
           Hashtbl.remove loans id
         | "ld", [id] -> Hashtbl.remove loans id
         | "ex", [p] when impl <> "-" && impl <> "P" ->
           let live = Hashtbl.fold (fun _ q a -> if q = p then a + 1 else a) loans 0 in
           (match Hashtbl.find_opt pub_l p with
            | Some l ->
              let want = Printf.sprintf "x%d:eLoans" (max 0 (l - live)) in
              if impl <> want && !dead then begin   (* while the model runs, spec_obs reports the same thing *)
                incr mm_spec;
                report "deadex" (Printf.sprintf "MISMATCH case=%d op=%d kind=spec prop=C02,C08 key=pubsub:exhaustion-probe-differs line=[%s] spec=%s impl=%s (after model divergence)\n" !case_no !op_no line want impl) end
            | None -> ())
         | _ -> ());
        List.iter (fun tok -> match String.split_on_char ':' tok with
          | ["d"; id] -> Hashtbl.remove held id
          | "r" :: sub :: rest when rest <> [] -> touch sub; note_rx sub (String.concat ":" rest)
          | _ -> ()) (match obs with _ :: "H" :: t -> t | _ -> []);
        if !dead then begin
          (* the model replay stopped at the first kind=model mismatch of this case; the oracles that need
             only the implementation's own observations keep running: no panic, no OutOfMemory *)
          if impl = "P" then begin
            incr mm_spec;
            report ("deadP" ^ name) (Printf.sprintf "MISMATCH case=%d op=%d kind=spec prop=C08 key=pubsub:panic:%s line=[%s] spec=no-panic impl=P (after model divergence)\n" !case_no !op_no name line) end;
          if impl = "eOom" || (String.length impl > 4 && String.sub impl (String.length impl - 4) 4 = "eOom") then begin
            incr mm_spec;
            report "deadoom" (Printf.sprintf "MISMATCH case=%d op=%d kind=spec prop=C02,C08 key=pubsub:out-of-memory line=[%s] spec=never-OutOfMemory impl=%s (after model divergence)\n" !case_no !op_no line impl) end
        end;
        if not !dead then begin
          match !w with
          | None -> failwith "op before case"
          | Some w0 ->
            let o = parse_op name args in
            (match step w0 o with
             | Panic ->
               if impl <> "P" then begin
                 incr mm_model; dead := true;
                 report ("model" ^ name ^ "P") (Printf.sprintf "MISMATCH case=%d op=%d kind=model prop=C01 key=pubsub:model line=[%s] model=P impl=%s\n" !case_no !op_no line impl) end
               else begin
                 (* the implementation panicked and the faithful model predicts it: the property
                    (no operation panics) fails on this history.  A panic that disappears with a larger
                    to_be_removed_connections buffer is the fatal_panic of prepare_connection_removal *)
                 incr mm_spec; dead := true;
                 (* known finding only when (a) the panic disappears with a larger expired-connection buffer in the model and
                    (b) in the history itself some subscriber holds a sample of each of MORE than
                    max(subscriber_expired_connection_buffer, max_borrowed) publishers that were dropped *)
                 let by_cap = not (panics (bump_tbrcap w0) o) in
                 let pre = List.exists (fun sb -> vanished_held sb > !case_cap) (all_subs ()) in
                 if by_cap && not pre then bump extra "guard_rejected_expired_buffer_panic";
                 let key = if by_cap && pre then "pubsub:expired-connection-buffer-exceeded-panic" else "pubsub:panic:" ^ name in
                 bump extra ("panic_" ^ (if key = "pubsub:panic:" ^ name then "other" else "expired_buffer"));
                 report ("specP" ^ key) (Printf.sprintf "MISMATCH case=%d op=%d kind=spec prop=C08 key=%s line=[%s] spec=no-panic impl=P\n" !case_no !op_no key line) end
             | Val (w1, mo) ->
               let om = show_obs mo in
               bump extra ("obs_" ^ name ^ "_" ^ (match mo with
                 | BErr e -> show_err e | BRecv None -> "none" | BRecv _ -> "some" | BSent k -> "n" ^ string_of_int (int_of_nat k)
                 | BExh (_, e) -> show_err e | BLoaned _ -> "ok" | BCreated _ -> "ok" | o -> show_obs o));
               let om = (if String.length impl > 2 && String.sub impl (String.length impl - 2) 2 = "@?" then
                            (match String.index_opt om '@' with Some i -> String.sub om 0 i ^ "@?" | None -> om) else om) in
               let om = if name = "fc" && impl = "-" then "-" else om in   (* local services have no files *)
               let omt = om ^ (match show_trace mo with "" -> "" | t -> " H " ^ t) and implt = impl ^ (if impl_trace = "" then "" else " H " ^ impl_trace) in
               if omt <> implt then begin
                 incr mm_model; dead := true;
                 report ("model" ^ name) (Printf.sprintf "MISMATCH case=%d op=%d kind=model prop=C01 key=pubsub:model line=[%s] model=%s impl=%s\n" !case_no !op_no line omt implt) end
               else begin
                 (* reference values *)
                 let os = show_obs (spec_obs w0 o mo) in
                 if os <> impl then begin
                   incr mm_spec;
                   let (prop, key) = classify_spec name w1 in
                   let key = (match mo with BExh (_, EOutOfMemory) -> "pubsub:exhaustion-out-of-memory" | _ -> key) in
                   (* an out-of-memory inside the limits is also what C08 excludes *)
                   let prop = (match mo with BExh (_, EOutOfMemory) -> "C02,C08" | _ -> prop) in
                   report ("spec" ^ name) (Printf.sprintf "MISMATCH case=%d op=%d kind=spec prop=%s key=%s line=[%s] spec=%s impl=%s\n" !case_no !op_no prop key line os impl) end;
                 (match mo with
                  | BErr EOutOfMemory ->
                    incr mm_spec;
                    report "specoom" (Printf.sprintf "MISMATCH case=%d op=%d kind=spec prop=C08 key=pubsub:loan-out-of-memory line=[%s] spec=never-OutOfMemory impl=%s\n" !case_no !op_no line impl)
                  | BRecv (Some ((id, _), _)) ->
                    (match List.filter (fun x -> x.x_id = id) w1.w_samples with
                     | x :: _ ->
                       if not (recv_in_order w0 x.x_sub x) then begin
                         incr mm_spec;
                         report "specorder" (Printf.sprintf "MISMATCH case=%d op=%d kind=spec prop=C01 key=pubsub:receive-order line=[%s] spec=increasing-send-index impl=%s\n" !case_no !op_no line impl) end
                     | [] -> ())
                  | _ -> ());
                 (match mo, o with
                  | BRecv None, ORecv sid when stale_expired w1 sid ->
                    incr mm_spec; bump extra "expired_connection_leaked";
                    report "specstale" (Printf.sprintf "MISMATCH case=%d op=%d kind=spec prop=C01 key=pubsub:expired-connection-leaked line=[%s] spec=no-empty-expired-connection-after-receive-none impl=kept\n" !case_no !op_no line)
                  | _ -> ());
                 (* a connection with undelivered samples for a subscriber that stays registered disappeared (lost_delivery
                    of the model, per pair).  Known finding 1 only when, in the history itself, the publisher was dropped and
                    the subscriber never ran update_connections / receive / has_samples while that publisher was registered;
                    known finding 2 only when the publisher was dropped, the subscriber was connected to it and more than
                    max(expired buffer, max_borrowed) publishers it was connected to were dropped *)
                 ignore (lost_delivery w0 w1);
                 (* The loss event is the moment the samples become unreceivable for a subscriber that stays registered:
                    (A) the receiver side of a connection with data is discarded (the connection object may live on while
                        the dropped Publisher's state is kept alive by an outstanding SampleMut), or the attached connection vanishes;
                    (B) a connection instance whose receiver side was NEVER attached vanishes with data.
                    A connection whose receiver side was attached once and discarded was reported under (A) then. *)
                 List.iter (fun ((p, sb), c) ->
                   (* samples of this very connection that the back-pressure handler script received INSIDE this
                      operation were delivered, not lost: the connection may then be released empty *)
                   let taken_by_handler =
                     (match mo with
                      | BWith (_, tr) ->
                        List.length (List.filter (function HvRecv (s, _, origin, _) -> s = sb && origin = p | _ -> false) tr)
                      | _ -> 0) in
                   let pi = int_of_nat p and si = int_of_nat sb in
                   let after = getc w1 p sb in
                   let remaining = (match after with Some c1 -> List.length c1.c_sub | None -> List.length c.c_sub - taken_by_handler) in
                   let ev_a = c.c_rcv && (match after with None -> true | Some c1 -> not c1.c_rcv) in
                   let ev_b = (not c.c_rcv) && after = None && not (Hashtbl.mem ever_attached (pi, si)) in
                   if sub_live w0 sb && sub_live w1 sb && c_has_data c && remaining > 0 && (ev_a || ev_b) then begin
                     let ps = string_of_int pi and ss = string_of_int si in
                     let gone = Hashtbl.mem vanished ps and conn = Hashtbl.mem touched (ss, ps) in
                     let state_gone = not (getp w1 p).p_alive in
                     incr mm_spec;
                     if ev_b && gone && state_gone then begin
                       (* finding 1: the instance only ever had its sender attached; the dropped publisher's last handle went *)
                       bump extra "lost_never_connected";
                       report "speclost1" (Printf.sprintf "MISMATCH case=%d op=%d kind=spec prop=C01 key=pubsub:delivered-sample-lost-subscriber-not-yet-connected line=[%s] spec=delivered-samples-stay-receivable impl=connection-destroyed-with-data\n" !case_no !op_no line) end
                     else if ev_a && gone && conn && vanished_touched ss > !case_cap then begin
                       (* finding 2: the subscriber discards an expired connection with data because its expired-connection buffer is full *)
                       bump extra "lost_expired_buffer_overflow";
                       report "speclost2" (Printf.sprintf "MISMATCH case=%d op=%d kind=spec prop=C01 key=pubsub:expired-connection-buffer-discards-data line=[%s] spec=delivered-samples-stay-receivable impl=connection-removed-with-data\n" !case_no !op_no line) end
                     else begin
                       bump extra "guard_rejected_lost_delivery";
                       report "speclost0" (Printf.sprintf "MISMATCH case=%d op=%d kind=spec prop=C01 key=pubsub:delivered-sample-lost line=[%s] spec=delivered-samples-stay-receivable impl=connection-p%s-s%s-%s-with-data(receiver-attached=%b,ever-attached=%b,publisher-dropped=%b,publisher-state-gone=%b,subscriber-updated-meanwhile=%b,dropped-publishers-it-was-connected-to=%d,cap=%d)\n" !case_no !op_no line ps ss (if after = None then "gone" else "receiver-discarded") c.c_rcv (Hashtbl.mem ever_attached (pi, si)) gone state_gone conn (vanished_touched ss) !case_cap) end
                   end) w0.w_conns;
                 (* lifetime of the connection instances: was the receiver side ever attached *)
                 List.iter (fun ((p, sb), c) -> if c.c_rcv then Hashtbl.replace ever_attached (int_of_nat p, int_of_nat sb) ()) w1.w_conns;
                 Hashtbl.iter (fun (pi, si) () -> if getc w1 (nat_of_int pi) (nat_of_int si) = None then Hashtbl.remove ever_attached (pi, si)) (Hashtbl.copy ever_attached);
                 (match mo with BSent _ | BRecv (Some _) | BLoaned _ -> cur_nontrivial := true | _ -> ());
                 (* the conservation invariant of C02 (and the bounds C08 counts with), evaluated on the model state *)
                 if not (inv_topology_b w1) && not !inv_bad then begin
                   incr mm_spec; inv_bad := true;
                   report "spectopo" (Printf.sprintf "MISMATCH case=%d op=%d kind=spec prop=C02 key=pubsub:topology-invariant line=[%s] spec=inv_topology_b impl=violated-in-model-state\n" !case_no !op_no line) end;
                 if not (inv_check w1) && not !inv_bad then begin
                   incr mm_spec; inv_bad := true;
                   report "specinv" (Printf.sprintf "MISMATCH case=%d op=%d kind=spec prop=C02 key=pubsub:conservation-invariant line=[%s] spec=inv_check impl=violated-in-model-state\n" !case_no !op_no line) end;
                 (* coverage: simultaneous saturation = some live publisher has no free chunk left *)
                 let np = List.length w1.w_pubs in
                 let rec anysat i = i < np && (saturated w1 (nat_of_int i) || anysat (i + 1)) in
                 if anysat 0 then begin bump extra "states_saturated"; case_saturated := true end
               end;
               w := Some w1)
        end
        ;
        (* a skipped delivered sample that the model did not predict (it disagrees on this very line, or its replay has
           stopped): the property fails on the implementation's own observations.  When the model agrees the skip is one
           of the loss classes the model has (reported through lost_delivery above). *)
        (match !pending_skip with
         | Some msg when !dead ->
           incr mm_spec;
           report "specskip" (Printf.sprintf "MISMATCH case=%d op=%d kind=spec prop=C01 key=pubsub:delivered-sample-skipped line=[%s] spec=every-delivered-sample-received-in-order impl=%s\n" !case_no !op_no line (String.map (fun ch -> if ch = ' ' then '_' else ch) msg))
         | _ -> ());
        pending_skip := None
      | "K" :: vals ->
        if !dead then begin
          (* model-free canary: every held sample still shows what the implementation showed at receive time *)
          List.iter (fun v -> match String.split_on_char '=' v with
            | [id; pl] ->
              (match Hashtbl.find_opt impl_expect id with
               | Some e when e <> pl ->
                 incr mm_spec;
                 report "deadK" (Printf.sprintf "MISMATCH case=%d op=%d kind=spec prop=C02 key=pubsub:held-sample-content-changed-after-model-divergence line=[%s] after=[%s] spec=%s=%s impl=%s\n" !case_no !op_no line !last_line id e v)
               | _ -> ())
            | _ -> ()) vals
        end;
        if not !dead then begin
          match !w with
          | None -> ()
          | Some w0 ->
            let impl = String.concat " " vals in
            let om = show_canary (canary w0) and os = show_canary (canary_expected w0) in
            bump extra "canary_probes";
            if om <> impl then begin
              incr mm_model; dead := true;
              report "modelK" (Printf.sprintf "MISMATCH case=%d op=%d kind=model prop=C02 key=pubsub:model-canary line=[%s] after=[%s] model=%s impl=%s\n" !case_no !op_no line !last_line om impl) end
            else if os <> impl then begin
              (* which kind of sample changed: one whose subscriber is gone (F2) or not *)
              let changed = List.filter (fun x -> List.assoc x.x_id (canary w0) <> x.x_expect) w0.w_samples in
              let orphan_model = changed <> [] && List.for_all (fun x -> not (sub_live w0 x.x_sub)) changed in
              (* and in the history itself: every sample whose content differs from what the implementation showed at
                 receive time is held by a subscriber whose Subscriber object was dropped before *)
              let changed_impl = List.filter_map (fun v -> match String.split_on_char '=' v with
                | [id; pl] -> (match Hashtbl.find_opt impl_expect id with Some e when e <> pl -> Some id | _ -> None)
                | _ -> None) vals in
              let orphan_impl = changed_impl <> [] && List.for_all (fun id -> match Hashtbl.find_opt held id with
                | Some (sb, _) -> Hashtbl.mem dropped_subs sb | None -> false) changed_impl in
              if orphan_model && not orphan_impl then bump extra "guard_rejected_sample_outlives_subscriber";
              let orphan = orphan_model && orphan_impl in
              bump extra (if orphan then "canary_changed_subscriber_dropped" else "canary_changed_subscriber_registered");
              if orphan && !case_canary_bad then () else begin
              if orphan then case_canary_bad := true;
              incr mm_spec;
              let key = if orphan then "pubsub:sample-outlives-subscriber-chunk-reused" else "pubsub:held-sample-content-changed" in
              report ("specK" ^ key) (Printf.sprintf "MISMATCH case=%d op=%d kind=spec prop=C02 key=%s line=[%s] after=[%s] spec=%s impl=%s\n" !case_no !op_no key line !last_line os impl) end end
        end
      | [] -> ()
      | _ -> failwith ("bad line: " ^ line)
    done
  with End_of_file -> ());
  flush_case ();
  Printf.printf "SUMMARY cases=%d ops=%d mismatches_model=%d mismatches_spec=%d distinct_nontrivial=%d\n"
    !case_no !ops_total !mm_model !mm_spec !distinct_nontrivial;
  Hashtbl.iter (fun k v -> Printf.printf "OPCOUNT %s %d\n" k v) opcount;
  Hashtbl.iter (fun k v -> Printf.printf "EXTRA %s %d\n" k v) extra
