(* Correspondence driver for C17: replays the drop orders that the Rust harness ran against the
   real iceoryx2 API on the extracted ownership model (model/Own.v) and reports every difference.
   Parsing / printing only; all behaviour comes from Model (extracted).

   input (harness/g3/c17):
     C <variant> <pattern> nodes=<n> slots=<k> fs=<0|1> order=<..> names=<..> excluded=<..>
     S <counts>
     O drop <slot> = <ok|P> ; <counts> ; <slot>:<smoke result> ...
     O end = left=<..> nodes=<n> svcs=<n> recreate=<..> left2=<..> persistent=<..>
   kind=model : the model's resource counts after a drop differ from the directory listing of the
                implementation (the tie between Own.v's finalisers and the code is broken), or the
                harness graph is not an instance of the generated table;
   kind=spec  : the property fails on this drop order: a drop panicked, a survivor misbehaved,
                something was left behind, the names could not be reused, or the case did not
                finish (abort / hang of the child process). *)
module M = Model

let rec nat_of_int i = if i <= 0 then M.O else M.S (nat_of_int (i - 1))
let rec int_of_nat = function M.O -> 0 | M.S n -> 1 + int_of_nat n
let soi = string_of_int

let split_on s sep =
  (* split on a multi-character separator *)
  let ls = String.length s and lp = String.length sep in
  let rec go i start acc =
    if i + lp > ls then List.rev (String.sub s start (ls - start) :: acc)
    else if String.sub s i lp = sep then go (i + lp) (i + lp) (String.sub s start (i - start) :: acc)
    else go (i + 1) start acc in
  go 0 0 []

let field key toks =
  let k = key ^ "=" in
  let lk = String.length k in
  let rec go = function
    | [] -> None
    | t :: r -> if String.length t >= lk && String.sub t 0 lk = k then Some (String.sub t lk (String.length t - lk)) else go r in
  go toks

let fieldi key toks = match field key toks with Some v -> (try int_of_string v with _ -> -1) | None -> -1

let is_pattern = function "pubsub" | "event" | "reqres" | "blackboard" | "reqres2" | "rrovf" | "ps2" | "openfail" -> true | _ -> false
let pattern_of = function
  | "pubsub" -> Some M.PubSub | "event" -> Some M.Event | "reqres" -> Some M.ReqRes | "blackboard" -> Some M.Blackboard
  | _ -> None

(* per (pattern, two nodes): instance, handles, fuel, well-formedness *)
let cache : (string * bool, (M.inst * M.nat list * M.nat * bool)) Hashtbl.t = Hashtbl.create 8
let instance pname two =
  match Hashtbl.find_opt cache (pname, two) with
  | Some v -> v
  | None ->
    let (g, h) = (match pattern_of pname with Some p -> M.scenario p two | None -> M.scenario_rr2) in
    let v = (g, h, M.inst_fuel M.keep_edges g, M.wf_instb M.keep_edges g h && M.acyclicb M.keep_edges) in
    Hashtbl.add cache (pname, two) v; v

let cases = ref 0 and ops = ref 0 and mm_model = ref 0 and mm_spec = ref 0
let distinct : (string, unit) Hashtbl.t = Hashtbl.create 1024
let opcount : (string, int) Hashtbl.t = Hashtbl.create 16
let extra : (string, int) Hashtbl.t = Hashtbl.create 16
let bump tbl k = Hashtbl.replace tbl k (1 + (try Hashtbl.find tbl k with Not_found -> 0))

let cur_hdr = ref "-"

(* class of a mismatch: the detail without the drop history and without payload values *)
let class_of kind detail =
  let parts = String.split_on_char ':' detail in
  let keep = List.filter (fun t ->
      not (String.length t >= 6 && String.sub t 0 6 = "after=") && not (String.length t >= 6 && String.sub t 0 6 = "order=")) parts in
  let rec strip = function
    | "canary" :: r -> "canary" :: List.filter (fun t -> String.contains t '-') r   (* drop the value, keep the markers *)
    | x :: r -> (if String.length x >= 9 && String.sub x 0 9 = "received-" then
                   (if String.length x >= 11 && String.sub x 0 11 = "received-[]" then "received-nothing" else "received") else x) :: strip r
    | [] -> [] in
  kind ^ "|" ^ String.concat ":" (strip keep)

(* per class: number of occurrences and the occurrence that fails earliest (smallest op index) *)
let classes : (string, int * int * string) Hashtbl.t = Hashtbl.create 16
let mismatch kind line detail model impl =
  (if kind = "model" then incr mm_model else incr mm_spec);
  let text = Printf.sprintf "MISMATCH case=%d op=%d kind=%s line=[%s] detail=%s model=%s impl=%s hdr=%s" !cases !ops kind line detail model impl !cur_hdr in
  let c = class_of kind detail in
  match Hashtbl.find_opt classes c with
  | None -> Hashtbl.replace classes c (1, !ops, text)
  | Some (n, op, t) -> if !ops < op then Hashtbl.replace classes c (n + 1, !ops, text) else Hashtbl.replace classes c (n + 1, op, t)

(* counts of the implementation, as the model predicts them; None = not compared *)
let expected_counts pname fs (o : int list) =
  match o with
  | [mon; det; dir; stag; ptag; sstat; sdyn; aux; data; conn; ev] ->
    let auxf = if pname = "blackboard" then 2 else 0 in
    if fs then
      [("mon", `Eq (3 * mon)); ("det", `Eq det); ("dir", `AtLeast dir); ("stag", `Eq stag); ("ptag", `Eq ptag);
       ("sstat", `Eq sstat); ("sdyn", `Eq sdyn); ("aux", `Eq (auxf * aux)); ("data", `Eq data); ("conn", `AtMost conn);
       ("ev", `Eq (2 * ev)); ("nodes", `Eq mon); ("svcs", `Eq sstat)]
    else [("nodes", `Eq mon); ("svcs", `Eq sstat)]
  | _ -> []

let compare_counts line pname fs g st counts_txt =
  let toks = String.split_on_char ',' counts_txt in
  let o = List.map int_of_nat (M.observe g st) in
  List.iter (fun (k, e) ->
      let v = fieldi k toks in
      let ok = match e with `Eq x -> v = x | `AtLeast x -> v >= x | `AtMost x -> v <= x && v >= 0 in
      if not ok then
        mismatch "model" line ("resource-count:" ^ k)
          (match e with `Eq x -> soi x | `AtLeast x -> ">=" ^ soi x | `AtMost x -> "<=" ^ soi x) (soi v))
    (expected_counts pname fs o);
  (match field "other" toks with
   | Some "-" | None -> ()
   | Some x -> mismatch "model" line "unmodelled-resource-kind" "-" x)

(* ---- preconditions of the two known findings, decided from the drop order (never from the symptom) ---- *)
let index_of names n = let r = ref (-1) in Array.iteri (fun i x -> if x = n && !r < 0 then r := i) names; !r
let chrono dropped = List.rev dropped
let pos_in l x = let rec go i = function [] -> -1 | y :: r -> if y = x then i else go (i + 1) r in go 0 l

(* F2: the probed Sample is alive, ITS subscriber has been dropped, and the publisher that produced it was
   alive in a probe round at or after that drop (so it ran update_connections and loaned again); the
   value now in the chunk is one the publisher's probe writes (7000..7999) *)
let f2_precondition names dropped res =
  let sub = index_of names "subscriber" and pub = index_of names "publisher" in
  let order = chrono dropped in
  let value = (try Scanf.sscanf res "canary:%x" (fun v -> v) with _ -> -1) in
  sub >= 0 && pub >= 0 && List.mem sub order
  && (not (List.mem pub order) || pos_in order pub > pos_in order sub)
  && value >= 7000 && value < 8000

(* node directory finding: for each node, the objects that hold its SharedNode are its Node handle, its
   service handle and the port-side objects created through that service handle (port A side on node 0,
   port B side on the last node); the directory of a node stays behind iff the LAST of them to be dropped
   is a port-side object.  Returns the number of directories predicted to stay. *)
let side_a = ["publisher"; "sample_mut"; "notifier"; "client"; "pending_response"; "response"; "writer"; "entry_handle_mut";
              "pending_a"; "pending_b"; "response_b"; "publisher1"; "publisher2"; "node_a"]
let predicted_node_dirs names nn dropped =
  let order = chrono dropped in
  let n = Array.length names in
  let count = ref 0 in
  for node = 0 to nn - 1 do
    let holders = List.filter (fun k ->
        if k < nn then k = node
        else if k < 2 * nn then k - nn = node
        else if names.(k) = "node_b" then false
        else (if List.mem names.(k) side_a then node = 0 else node = nn - 1)) (List.init n (fun k -> k)) in
    let last = List.fold_left (fun best k -> if pos_in order k > pos_in order best then k else best) (List.hd holders) holders in
    (* the directory stays iff the last holder's drop releases the SharedNode while a port tag of the node
       still exists: every port-side object keeps a state that owns its port tag (declared after the
       SharedNode holder), except EntryHandleMut: the Writer's tag is a field of the Writer handle itself *)
    if last >= 2 * nn && names.(last) <> "entry_handle_mut" then incr count
  done;
  !count

type cur = {
  hdr : string; pname : string; two : bool; fs : bool; g : M.inst; h : M.nat list; fuel : M.nat;
  names : string array; mutable st : M.st option; mutable dropped : int list; mutable ended : bool;
}

let cur : cur option ref = ref None

let finish_case () =
  (match !cur with
   | Some c when not c.ended ->
     incr ops;
     mismatch "spec" c.hdr ("case-did-not-finish:abort-or-hang-after-drops:" ^ String.concat "," (List.rev_map soi c.dropped)) "end" "missing"
   | _ -> ());
  cur := None

let name_of c k = if k >= 0 && k < Array.length c.names then c.names.(k) else "?" ^ soi k

let () =
  let done_seen = ref false in
  (try
     while true do
       let line = input_line stdin in
       if String.length line >= 2 && String.sub line 0 2 = "C " then begin
         finish_case ();
         incr cases; ops := 0;
         let toks = String.split_on_char ' ' line in
         let variant = List.nth toks 1 and pname = List.nth toks 2 in
         let two = fieldi "nodes" toks = 2 in
         let fs = fieldi "fs" toks = 1 in
         let order = match field "order" toks with Some o -> o | None -> "" in
         let names = match field "names" toks with Some n -> Array.of_list (String.split_on_char ',' n) | None -> [||] in
         let short = String.concat " " (List.filter (fun t -> not (String.length t > 9 && String.sub t 0 9 = "excluded=")) toks) in
         bump opcount ("cases_" ^ pname ^ "_" ^ variant);
         cur_hdr := String.concat "/" [variant; pname; soi (fieldi "nodes" toks); order];
         Hashtbl.replace distinct (pname ^ soi (fieldi "nodes" toks) ^ order) ();
         (match is_pattern pname with
          | false -> mismatch "model" short "unknown-pattern" "-" pname
          | true when pname = "rrovf" || pname = "ps2" || pname = "openfail" ->
            (* behavioural family without a model instance: only the property-side checks apply *)
            cur := Some { hdr = short; pname; two; fs; g = []; h = []; fuel = M.O; names; st = None; dropped = []; ended = false }
          | true ->
            let (g, h, fuel, wf) = instance pname two in
            if not wf then mismatch "model" short "harness-graph-is-not-a-well-formed-instance-of-the-generated-table" "wf" "not-wf";
            if List.length h <> fieldi "slots" toks then
              mismatch "model" short "slot-count" (soi (List.length h)) (soi (fieldi "slots" toks));
            cur := Some { hdr = short; pname; two; fs; g; h; fuel; names; st = Some (M.init g h); dropped = []; ended = false })
       end else if String.length line >= 2 && String.sub line 0 2 = "S " then begin
         match !cur with
         | Some ({ st = Some st; _ } as c) -> compare_counts line c.pname c.fs c.g st (String.sub line 2 (String.length line - 2))
         | _ -> ()
       end else if String.length line >= 7 && String.sub line 0 7 = "O drop " then begin
         incr ops;
         match !cur with
         | None -> ()
         | Some c ->
           bump opcount "drop";
           (match split_on line " ; " with
            | [head; counts; smokes] ->
              let ht = String.split_on_char ' ' head in
              let k = (try int_of_string (List.nth ht 2) with _ -> -1) in
              let r = (try List.nth ht 4 with _ -> "?") in
              c.dropped <- k :: c.dropped;
              let after = String.concat "," (List.rev_map (name_of c) c.dropped) in
              if r <> "ok" then begin
                bump extra "drop_panicked";
                mismatch "spec" line ("drop-panicked:" ^ name_of c k ^ ":after=" ^ after) "ok" r
              end;
              (* the model releases the handle in that slot *)
              (match c.st with
               | None -> ()
               | Some st ->
                 (match M.run c.fuel c.g [List.nth c.h k] st with
                  | M.Done st' -> c.st <- Some st'; compare_counts line c.pname c.fs c.g st' counts
                  | M.Underflow -> c.st <- None; mismatch "model" line "model-count-underflow" "-" "-"
                  | M.OutOfFuel -> c.st <- None; mismatch "model" line "model-out-of-fuel" "-" "-"));
              (* survivors: every slot not yet dropped must have been probed and must work *)
              let toks = if smokes = "-" then [] else List.filter (fun t -> t <> "") (String.split_on_char ' ' smokes) in
              let probed = List.map (fun t ->
                  match String.index_opt t ':' with
                  | Some i -> ((try int_of_string (String.sub t 0 i) with _ -> -1), String.sub t (i + 1) (String.length t - i - 1))
                  | None -> (-1, t)) toks in
              let expected = List.filter (fun j -> not (List.mem j c.dropped)) (List.init (Array.length c.names) (fun j -> j)) in
              if List.map fst probed <> expected then
                mismatch "model" line "survivor-set" (String.concat "," (List.map soi expected)) (String.concat "," (List.map (fun (j, _) -> soi j) probed));
              List.iter (fun (j, res) ->
                  bump opcount ("smoke_" ^ name_of c j);
                  (match c.st with
                   | Some st -> if not (st.M.alive (List.nth c.h j)) then mismatch "model" line ("model-says-held-handle-dead:" ^ name_of c j) "alive" "dead"
                   | None -> ());
                  if res <> "ok" then begin
                    bump extra ("survivor_failed_" ^ name_of c j);
                    let held = if Array.exists (fun n -> n = "response_b") c.names
                                  && not (List.exists (fun k -> name_of c k = "response_b") c.dropped)
                               then ":while-response_b-is-held" else "" in
                    let held = if c.pname = "pubsub" && name_of c j = "sample" && String.length res >= 7 && String.sub res 0 7 = "canary:"
                                  && f2_precondition c.names c.dropped res
                               then held ^ ":its-subscriber-dropped-and-publisher-loaned-afterwards" else held in
                    mismatch "spec" line ("survivor:" ^ name_of c j ^ ":" ^ res ^ held ^ ":after=" ^ after) "ok" res
                  end) probed
            | _ -> mismatch "model" line "unparsed-line" "-" "-")
       end else if String.length line >= 8 && String.sub line 0 8 = "O end = " then begin
         incr ops;
         match !cur with
         | None -> ()
         | Some c ->
           c.ended <- true;
           bump opcount "end";
           let toks = String.split_on_char ' ' line in
           let after = String.concat "," (List.rev_map (name_of c) c.dropped) in
           let get k = match field k toks with Some v -> v | None -> "?" in
           if get "left" <> "-" then begin
             bump extra "leftover";
             let nn = if c.two then 2 else 1 in
             let pred = if c.fs && List.length c.dropped = Array.length c.names then predicted_node_dirs c.names nn c.dropped else -1 in
             let marker = if pred > 0 && get "left" = "node_dirx" ^ soi pred then ":last-holder-of-each-left-node-is-a-port-side-object"
                          else ":predicted-node-dirs=" ^ soi pred in
             mismatch "spec" line ("leftover:" ^ get "left" ^ marker ^ ":order=" ^ after) "-" (get "left")
           end;
           if get "nodes" <> "0" || get "svcs" <> "0" then
             mismatch "spec" line ("listed-after-shutdown:order=" ^ after) "nodes=0,svcs=0" ("nodes=" ^ get "nodes" ^ ",svcs=" ^ get "svcs");
           if get "recreate" <> "ok" then begin
             bump extra "name_not_reusable";
             mismatch "spec" line ("name-not-reusable:" ^ get "recreate" ^ ":order=" ^ after) "ok" (get "recreate")
           end;
           if get "left2" <> "-" && get "left2" <> get "left" then
             mismatch "spec" line ("leftover-after-recreate:" ^ get "left2") "-" (get "left2");
           (match c.st with
            | Some st ->
              let o = List.map int_of_nat (M.observe c.g st) in
              if List.length c.dropped = Array.length c.names && List.exists (fun x -> x <> 0) o then
                mismatch "model" line "model-has-resources-after-all-drops" "0" (String.concat "," (List.map soi o))
            | None -> ())
       end else if String.length line >= 9 && String.sub line 0 9 = "O build =" then begin
         incr ops;
         (match !cur with Some c -> c.ended <- true | None -> ());
         mismatch "spec" line "construction-panicked" "ok" "P"
       end else if line = "DONE" then done_seen := true
     done
   with End_of_file -> ());
  finish_case ();
  if not !done_seen then begin
    ops := 0;
    mismatch "spec" "harness" "harness-process-ended-early" "DONE" "missing"
  end;
  Hashtbl.iter (fun c (n, _, t) -> Printf.printf "%s class=%s count=%d\n" t c n) classes;
  Printf.printf "SUMMARY cases=%d ops=%d mismatches_model=%d mismatches_spec=%d distinct_nontrivial=%d\n"
    !cases (Hashtbl.fold (fun k v a -> if k = "drop" || k = "end" then a + v else a) opcount 0) !mm_model !mm_spec (Hashtbl.length distinct);
  Hashtbl.iter (fun k v -> Printf.printf "OPCOUNT %s %d\n" k v) opcount;
  Hashtbl.iter (fun k v -> Printf.printf "EXTRA %s %d\n" k v) extra
