(* C05 driver: step model of the event hand-shake (model/Event.v) against the real
   iceoryx2_cal::event::common running over a MODEL trigger under the baton scheduler (G1).
   Parsing / printing only; the trace comparison is ocaml/common/g1drv.ml.
   Case header:  C <bitset|counting> <cap> <tcap|inf> <listener modes t|d|b...> <notifier programs 0,0|9> <failfull flags 01> <pdist>
   Returns:      listener: one R per reported id (odd: 2*(id + 1024*count) + 1), then 2*total (even; 6 = Err)
                 notifier: 0 = Ok, 2 = Err(BufferIsFull), 4 = Err(EventIdOutOfBounds)
   Final line:   F st<k>,tr<n>,p<id>:<count>...,B<t>...    (B<t>: thread t blocked forever) *)
open Model
open G1drv

let rec int_of_nat = function O -> 0 | S k -> 1 + int_of_nat k

(* Every distinct spec-mismatch signature (message with the digits removed) is printed once;
   repetitions are only counted (EXTRA lines after the SUMMARY), so that the many executions of
   one class cannot crowd out a different mismatch in the pipeline's bounded MISMATCH list. *)
let seen_sig : (string, int ref) Hashtbl.t = Hashtbl.create 16
let site_count : (int, int ref) Hashtbl.t = Hashtbl.create 32   (* model access sites exercised by the compared traces *)
let known_class = ref 0          (* executions ending in the known lost wake-up configuration *)
let blocked_benign = ref 0       (* executions ending with the listener blocked and nothing undelivered *)
let signature m = String.concat "" (List.map (fun c -> if c >= '0' && c <= '9' then "" else String.make 1 c) (List.init (String.length m) (String.get m)))
let once m =
  let sg = signature m in
  match Hashtbl.find_opt seen_sig sg with
  | Some r -> incr r; None
  | None -> Hashtbl.add seen_sig sg (ref 1); Some m

let mk_sys toks =
  match toks with
  | kind :: cap :: tcap :: lmodes :: nprogs :: ffs :: rest ->
    let (kb, kc) = ev_kinds in
    let ((mt, mtimed), mb) = ev_modes in
    let ((pol_model, _), _) = ev_pols in
    let k = if kind = "bitset" then kb else if kind = "counting" then kc else failwith "kind" in
    let capi = int_of_string cap in
    let tc = if tcap = "inf" then None else Some (n_of_int (int_of_string tcap)) in
    let pdist = match rest with p :: _ -> n_of_u64_string p | [] -> N0 in
    let lp = List.init (String.length lmodes) (fun i -> match lmodes.[i] with 't' -> mt | 'd' -> mtimed | 'b' -> mb | _ -> failwith "mode") in
    let nps = Array.of_list (List.map (fun s -> List.map int_of_string (split_on ',' s)) (String.split_on_char '|' nprogs)) in
    let nn = Array.length nps in
    let ff u = u < String.length ffs && ffs.[u] = '1' in
    let nt = nn + 1 in
    let c = ref (ev_init true k (n_of_int capi) tc pol_model pdist lp
                   (fun u -> let i = int_of_nat u in if i < nn then List.map n_of_int nps.(i) else [])
                   (fun u -> ff (int_of_nat u))) in
    let step t =
      let rec go () = match ev_step1 (nat_of_int t) !c with
        | None -> None
        | Some (c', []) -> c := c'; go ()
        | Some (c', es) -> c := c';
          List.iter (function EAcc (site, _, _, _, _, _, _, _, _) ->
            let k = int_of_n site in
            (match Hashtbl.find_opt site_count k with Some r -> incr r | None -> Hashtbl.add site_count k (ref 1)) | _ -> ()) es;
          Some es in go () in
    let finished t =
      let rec go cc = match ev_step1 (nat_of_int t) cc with
        | None -> let (((p, pc), _), _) = ev_local ((snd cc) (nat_of_int t)) in p = [] && pc = PIdle
        | Some (c', []) -> go c'
        | Some _ -> false in go !c in
    let sconcat = String.concat "," in
    (* the model's final observation in the harness' token format *)
    let model_final () =
      let g = fst !c in
      let ((stc, tr), _) = ev_obs g in
      let pend = List.concat (List.init capi (fun i -> let p = ev_pend g (n_of_int i) in
                                                if p = N0 then [] else [Printf.sprintf "p%d:%s" i (u64_string_of_n p)])) in
      let blocked = List.concat (List.init nt (fun t ->
        let (((p, pc), _), _) = ev_local ((snd !c) (nat_of_int t)) in
        if (p <> [] || pc <> PIdle) && ev_step1 (nat_of_int t) !c = None then [Printf.sprintf "B%d" t] else [])) in
      [Printf.sprintf "st%d" (int_of_n stc); Printf.sprintf "tr%s" (u64_string_of_n tr)] @ pend @ blocked in
    { nthreads = nt; step; finished;
      final_ok = (fun toks -> let m = model_final () in
                   if m = toks then None else Some (Printf.sprintf "model [%s] impl [%s]" (sconcat m) (sconcat toks)));
      (* the property's oracle, evaluated on the implementation's own observations only *)
      spec = (fun rets final ->
        let notified = Hashtbl.create 8 and delivered = Hashtbl.create 8 and ok_returned = Hashtbl.create 8 in
        let get h i = try Hashtbl.find h i with Not_found -> 0 in
        let pos = Array.make nt 0 in
        let err = ref None in
        let seterr m = if !err = None then err := Some m in
        List.iter (fun (t, code) ->
          if code = "P" then seterr (Printf.sprintf "thread %d panicked" t)
          else begin
            let v = Int64.of_string ("0u" ^ code) in
            if t = 0 then begin
              if Int64.rem v 2L = 1L then begin
                let x = Int64.div v 2L in
                let id = Int64.to_int (Int64.rem x 1024L) and cnt = Int64.to_int (Int64.div x 1024L) in
                Hashtbl.replace delivered id (get delivered id + cnt);
                (* no phantom: at the moment of the report at most that many notifies of the id have STARTED *)
                if get delivered id > get notified id + (Array.fold_left (+) 0 (Array.mapi (fun u p -> let k = pos.(u + 1) in
                     if k < List.length p && List.nth p k = id then 1 else 0) nps)) then
                  seterr (Printf.sprintf "phantom event: id %d reported %d times but only %d notifies of it completed or are in flight" id (get delivered id) (get notified id));
                if cnt <= 0 then seterr "reported an event with count 0";
                if kind = "bitset" && cnt <> 1 then seterr "bit set reported a count other than 1"
              end
            end else begin
              let p = nps.(t - 1) in
              let k = pos.(t) in
              if k < List.length p then begin
                let id = List.nth p k in
                pos.(t) <- k + 1;
                (* a notify that returned Err(BufferIsFull) has activated its id all the same *)
                if id < capi then Hashtbl.replace notified id (get notified id + 1);
                if code = "0" then Hashtbl.replace ok_returned id (get ok_returned id + 1)
              end else seterr (Printf.sprintf "thread %d returned more often than it has operations" t)
            end
          end) rets;
        let blocked = List.filter (fun s -> String.length s > 0 && s.[0] = 'B') final in
        let pending = List.filter_map (fun s -> if String.length s > 1 && s.[0] = 'p' then
            (match String.split_on_char ':' (String.sub s 1 (String.length s - 1)) with
             | [i; n] -> Some (int_of_string i, int_of_string n) | _ -> None) else None) final in
        let all_notifiers_done = Array.for_all (fun x -> x) (Array.mapi (fun u p -> pos.(u + 1) = List.length p) nps) in
        (match !err with Some _ -> () | None ->
          (* only notified ids are ever pending or delivered *)
          List.iter (fun (i, _) -> if get notified i = 0 then seterr (Printf.sprintf "id %d pending but never notified" i)) pending;
          Hashtbl.iter (fun i d -> if d > get notified i then seterr (Printf.sprintf "id %d delivered %d times, notified %d times" i d (get notified i))) delivered;
          if all_notifiers_done then begin
            (* merged, never dropped: every notified id was delivered or is still pending; counting: exact *)
            Hashtbl.iter (fun i n ->
              let p = try List.assoc i pending with Not_found -> 0 in
              if kind = "counting" then begin
                if get delivered i + p <> n then seterr (Printf.sprintf "counting: id %d notified %d, delivered %d + pending %d" i n (get delivered i) p) end
              else if get delivered i + p = 0 then seterr (Printf.sprintf "bit set: id %d notified %d times, never delivered and not pending" i n)) notified;
            (* no lost wake-up: the listener sleeps forever although a notify returned Ok and its id is undelivered *)
            if blocked <> [] then begin
              let lost = List.filter (fun (i, _) -> get ok_returned i > 0) pending in
              if lost = [] then incr blocked_benign
              else begin
                let (i, _) = List.hd lost in
                (* the class of the FIXED finding event:lost-wakeup-notified-empty-trigger (notification_state = Notified, trigger
                   empty, listener blocked) is still told apart in the message, but it is a violation like any other now *)
                if List.mem "st2" final && List.mem "tr0" final && blocked = ["B0"] then begin
                  incr known_class;
                  seterr (Printf.sprintf "LOST-WAKEUP-NOTIFIED-EMPTY-TRIGGER (class of the finding fixed by /repo c0b284e: regression): listener blocked forever in blocking_wait with notification_state=Notified and an empty trigger while id %d, whose notify returned Ok, is pending and undelivered" i) end
                else seterr (Printf.sprintf "LOST-WAKEUP-OTHER: listener blocked forever (final [%s]) while id %d, whose notify returned Ok, is pending and undelivered" (sconcat final) i)
              end end
          end);
        (match !err with None -> None | Some m -> once m)) }
  | _ -> failwith "unknown case header"

(* ---- port-level stage (G3): `driver port` reads histories `C port <svc> <maxl> <idmax>` / `O <op> = <obs>` of the REAL
   iceoryx2::port::{notifier,listener} and compares every return value and every delivery with the reference semantics
   model/EventPort.v (pstep) ---- *)
let port_main () =
  let cases = ref 0 and ops = ref 0 and mm = ref 0 and distinct = Hashtbl.create 1024 in
  let opcount = Hashtbl.create 16 in
  let st = ref (port_init N0 N0) in
  let hist = Buffer.create 256 in
  let (pcn, pdn) = port_ops in
  let obs_str = function
    | POk -> "ok" | PErr -> "err" | PSkip -> "skip" | POob -> "oob"
    | PCount n -> "c" ^ u64_string_of_n n
    | PIds [] -> "-"
    | PIds l -> String.concat "," (List.map (fun (i, c) -> u64_string_of_n i ^ ":" ^ u64_string_of_n c) l) in
  let num s from = n_of_int (int_of_string (String.sub s from (String.length s - from))) in
  let parse op =
    if op = "cn" then pcn else if op = "dn" then pdn else if op = "nd" then port_op (n_of_int 2) (n_of_int 3)
    else if String.length op > 2 && String.sub op 0 2 = "cl" then port_op (n_of_int 0) (num op 2)
    else if String.length op > 2 && String.sub op 0 2 = "dl" then port_op (n_of_int 1) (num op 2)
    else if op.[0] = 'n' then port_op (n_of_int 2) (num op 1)
    else if op.[0] = 'w' then port_op (n_of_int 3) (num op 1)
    else failwith ("port op " ^ op) in
  let k = ref 0 in
  (try while true do
    let line = input_line stdin in
    match split_on ' ' line with
    | "C" :: "port" :: _ :: maxl :: idmax :: _ ->
      incr cases; k := 0; Buffer.clear hist; st := port_init (n_of_int (int_of_string maxl)) (n_of_int (int_of_string idmax))
    | [ "O"; op; "="; obs ] ->
      incr ops; incr k; Buffer.add_string hist (op ^ "=" ^ obs ^ " ");
      Hashtbl.replace opcount (String.sub op 0 (if op = "cn" || op = "dn" || op = "nd" then 2 else if op.[0] = 'n' || op.[0] = 'w' then 1 else 2))
        (1 + try Hashtbl.find opcount (String.sub op 0 (if op = "cn" || op = "dn" || op = "nd" then 2 else if op.[0] = 'n' || op.[0] = 'w' then 1 else 2)) with Not_found -> 0);
      let (st', o) = port_step !st (parse op) in
      st := st';
      let m = obs_str o in
      if m <> obs then begin
        incr mm;
        Printf.printf "MISMATCH case=%d op=%d kind=spec line=[%s] model=%s impl=%s history-so-far=[%s]\n" !cases !k line m obs (Buffer.contents hist) end;
      Hashtbl.replace distinct (Buffer.contents hist) ()
    | [] -> ()
    | _ -> failwith ("bad line: " ^ line)
  done with End_of_file -> ());
  Printf.printf "SUMMARY cases=%d ops=%d mismatches_model=0 mismatches_spec=%d distinct_nontrivial=%d\n" !cases !ops !mm (Hashtbl.length distinct);
  Hashtbl.iter (fun o c -> Printf.printf "OPCOUNT port_%s %d\n" o c) opcount

let () =
  if Array.length Sys.argv > 1 && Sys.argv.(1) = "port" then port_main () else begin
  run mk_sys (fun toks -> String.concat " " toks);
  Printf.printf "EXTRA notified_empty_trigger_executions %d\nEXTRA blocked_forever_benign %d\n" !known_class !blocked_benign;
  Hashtbl.iter (fun sg r -> Printf.printf "EXTRA spec_signature_repeats %d\n" (!r - 1)) seen_sig;
  Hashtbl.iter (fun k r -> Printf.printf "EXTRA site_%d %d\n" k !r) site_count end
