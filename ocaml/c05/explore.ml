(* Exhaustive exploration (BFS over ALL schedules, no preemption bound) of the extracted step
   model of the event hand-shake on small instances: finds the shortest schedule to a lost
   wake-up, and evaluates candidate invariants on every reachable configuration before any
   proof effort is spent on them (DESIGN.md section 2).
   usage: explore <bitset|counting> <cap> <tcap|inf> <listener modes e.g. bb or tbb> <notifier programs e.g. 0,0,0 or 0,1|9> [failfull]
   prints: STATES n  DEADLOCKS n  LOST n  BADWINDOW n  INVFAIL name n  and WITNESS lines *)
open Model

let rec pos_of_int (i : int) : positive =
  if i = 1 then XH else if i land 1 = 0 then XO (pos_of_int (i lsr 1)) else XI (pos_of_int (i lsr 1))
let n_of_int (i : int) : n = if i = 0 then N0 else Npos (pos_of_int i)
let rec int_of_pos = function XH -> 1 | XO p -> 2 * int_of_pos p | XI p -> 2 * int_of_pos p + 1
let int_of_n = function N0 -> 0 | Npos p -> int_of_pos p
let rec nat_of_int (i : int) : nat = if i = 0 then O else S (nat_of_int (i - 1))
let rec int_of_nat = function O -> 0 | S k -> 1 + int_of_nat k

let () =
  let a = Sys.argv in
  let (kb, kc) = ev_kinds in
  let ((mt, mtimed), mb) = ev_modes in
  let kind = if a.(1) = "bitset" then kb else kc in
  let cap = int_of_string a.(2) in
  let tcap = if a.(3) = "inf" then None else Some (n_of_int (int_of_string a.(3))) in
  let lp = List.init (String.length a.(4)) (fun i -> match a.(4).[i] with 't' -> mt | 'd' -> mtimed | 'b' -> mb | _ -> failwith "mode") in
  let nps = Array.of_list (List.map (fun s -> List.map (fun x -> n_of_int (int_of_string x)) (List.filter (fun x -> x <> "") (String.split_on_char ',' s)))
                             (String.split_on_char '|' a.(5))) in
  let ff = Array.length a > 6 && a.(6) = "failfull" in
  let nn = Array.length nps in
  let nt = nn + 1 in
  let ((pol_model, pol_all), pol_one) = ev_pols in
  let pol = match (try Sys.getenv "EXPLORE_POL" with Not_found -> "model") with "all" -> pol_all | "one" -> pol_one | _ -> pol_model in
  let repaired = (try Sys.getenv "EXPLORE_REPAIRED" with Not_found -> "1") <> "0" in
  let crash = (try Sys.getenv "EXPLORE_CRASH" with Not_found -> "0") = "1" in
  let init = ev_init repaired kind (n_of_int cap) tcap pol (n_of_int 56) lp (fun u -> let i = int_of_nat u in if i < nn then nps.(i) else []) (fun _ -> ff) in
  let key (((g, ls) : (egst, elst) cfg), (frozen : int)) : string =
    let ((_, _), nw) = ev_obs g in
    let ws = List.init (int_of_n nw) (fun w -> ev_words g (n_of_int w)) in
    let gh = List.init cap (fun i -> ev_ghost g (n_of_int i)) in
    let lo = List.init nt (fun t -> ev_local (ls (nat_of_int t))) in
    Marshal.to_string (ev_obs g, ws, gh, lo, frozen) [] in
  let seen : (string, int) Hashtbl.t = Hashtbl.create 1000000 in
  let parent : (int, int * int) Hashtbl.t = Hashtbl.create 1000000 in
  let q = Queue.create () in
  let nstates = ref 0 in
  let add c par t =
    let k = key c in
    if not (Hashtbl.mem seen k) then begin
      let id = !nstates in incr nstates;
      Hashtbl.add seen k id; Hashtbl.add parent id (par, t); Queue.add (id, c) q end in
  add (init, -1) (-1) (-1);
  let sched_of id =
    let rec go id acc = if id <= 0 then acc else let (p, t) = Hashtbl.find parent id in go p (t :: acc) in
    go id [] in
  (* candidate invariants (tested here before being proved in proofs/EventProofs.v) *)
  let widx i = if a.(1) = "bitset" then i / 8 else i in
  let inv_fail = Hashtbl.create 8 in
  let inv_first = Hashtbl.create 8 in
  let fail name id = Hashtbl.replace inv_fail name (1 + try Hashtbl.find inv_fail name with Not_found -> 0);
    if not (Hashtbl.mem inv_first name) then Hashtbl.add inv_first name id in
  let check_inv id (((g, ls) : (egst, elst) cfg), (frozen : int)) =
    let ((stc, _), nw) = ev_obs g in
    let stc = int_of_n stc and nw = int_of_n nw in
    let lpc = let (((_, pc), _), _) = ev_local (ls O) in pc in
    let inphase i = match lpc with LStoreIdle | LEmpty | LStoreIdle2 -> true | LDrainPtr (w, _) | LDrain (w, _) -> int_of_n w <= widx i | _ -> false in
    (match lpc with LDrainPtr (w, _) | LDrain (w, _) -> if int_of_n w >= nw then fail "drain-bound" id | _ -> ());
    for i = 0 to cap - 1 do
      let (((nt_, dl), cv), (dn, lo)) = ev_ghost g (n_of_int i) in
      let nt_ = int_of_n nt_ and dl = int_of_n dl and cv = int_of_n cv and dn = int_of_n dn in
      let pe = int_of_n (ev_pend g (n_of_int i)) in
      if cv > nt_ || dn > nt_ then fail "ghost-order" id;
      if dl > nt_ then fail "no-phantom" id;
      if a.(1) = "bitset" then begin
        if dl > cv then fail "bitset-delivered-le-covered" id;
        if (pe = 1) <> (cv < nt_) then fail "bitset-pend-iff" id end
      else if dl + pe <> nt_ then fail "counting-conservation" id;
      if cv < dn && not (stc = 2 || inphase i) then fail "J1-wakeup" id
    done;
    (* repaired protocol: a token is in the trigger or a (live) notifier is between its Idle->Pending CAS and its post *)
    let ((_, tr), _) = ev_obs g in
    let tok = int_of_n tr > 0 || List.exists (fun t -> t <> frozen && (match ev_local (ls (nat_of_int t)) with (((_, NTrig _), _), _) -> true | _ -> false)) (List.init nt (fun t -> t)) in
    if repaired then begin
      let inwait = (match lpc with LWait _ -> true | _ -> false) in
      let indom = (match lpc with PIdle | LWait _ | LDrainPtr _ | LDrain _ -> true | _ -> false) in
      if indom && stc = 1 && not tok then fail "P-pending-has-token" id;
      if inwait && stc = 2 && not tok then fail "K-notified-in-wait-has-token" id;
      if inwait && not tok then
        for i = 0 to cap - 1 do if ev_undelivered g (n_of_int i) then fail "FULL-wait-undelivered-has-token" id done
    end;
    for t = 1 to nt - 1 do
      let (((_, pc), _), x) = ev_local (ls (nat_of_int t)) in
      let x = int_of_n x in
      match pc with
      | NTrig i | NCasPN i ->
        let i = int_of_n i in
        let (((nt_, _), cv), _) = ev_ghost g (n_of_int i) in
        if x > int_of_n nt_ then fail "myidx" id;
        if stc = 0 && not (x <= int_of_n cv || inphase i) then fail "Aux" id
      | NCasIP i -> let (((nt_, _), _), _) = ev_ghost g i in if x > int_of_n nt_ then fail "myidx" id
      | LWait _ | LStoreIdle | LEmpty | LStoreIdle2 | LDrainPtr _ | LDrain _ -> fail "role" id
      | _ -> ()
    done;
    (match lpc with NAct _ | NActCas _ | NCasIP _ | NTrig _ | NCasPN _ -> fail "role" id | _ -> ()) in
  let lost_terminal = ref 0 and first_lt = ref None in
  let deadlocks = ref 0 and lost = ref 0 and bad = ref 0 and lost_not_bad = ref 0 and bad_exit = ref 0 in
  let first_lost = ref None and first_bad = ref None and first_lnb = ref None in
  let maxstates = try int_of_string (Sys.getenv "EXPLORE_MAX") with Not_found -> 3000000 in
  while not (Queue.is_empty q) && !nstates < maxstates do
    let (id, (c, frozen)) = Queue.pop q in
    let moved = ref false in
    check_inv id (c, frozen);
    let isbad = ev_bad_window c in
    for t = 0 to nt - 1 do
      if t <> frozen then
      match ev_step1 (nat_of_int t) c with
      | None -> ()
      | Some (c', _) -> moved := true; add (c', frozen) id t;
        if isbad && not (ev_bad_window c') then incr bad_exit
    done;
    (* a notifier dies between its Idle->Pending CAS and its trigger post (at most one crash per run) *)
    if crash && frozen < 0 then
      for t = 1 to nt - 1 do
        match ev_local ((snd c) (nat_of_int t)) with (((_, NTrig _), _), _) -> add (c, t) id (100 + t) | _ -> ()
      done;
    let unfinished = List.exists (fun t -> t <> frozen && (let (((p, pc), _), _) = ev_local ((snd c) (nat_of_int t)) in p <> [] || pc <> PIdle)) (List.init nt (fun t -> t)) in
    if not !moved && unfinished then incr deadlocks;
    if ev_lost_wakeup c then begin incr lost; if !first_lost = None then first_lost := Some id;
      if not !moved then begin incr lost_terminal; if !first_lt = None then first_lt := Some id end;
      if not isbad then begin incr lost_not_bad; if !first_lnb = None then first_lnb := Some id end end;
    if isbad then begin incr bad; if !first_bad = None then first_bad := Some id end
  done;
  Printf.printf "STATES %d%s\nDEADLOCKS %d\nLOST %d\nLOST_TERMINAL %d\nBADWINDOW %d\nLOST_NOT_BAD %d\nBAD_EXIT %d\n" !nstates
    (if Queue.is_empty q then "" else " (truncated)") !deadlocks !lost !lost_terminal !bad !lost_not_bad !bad_exit;
  Hashtbl.iter (fun name n -> Printf.printf "INVFAIL %s %d first=%s\n" name n
    (String.concat "," (List.map string_of_int (sched_of (Hashtbl.find inv_first name))))) inv_fail;
  let show name = function None -> () | Some id ->
    let s = sched_of id in
    Printf.printf "WITNESS %s len=%d schedule=%s\n" name (List.length s) (String.concat "," (List.map string_of_int s)) in
  show "lost-wakeup" !first_lost; show "lost-terminal" !first_lt; show "bad-window" !first_bad; show "lost-not-bad" !first_lnb
