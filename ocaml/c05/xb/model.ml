
type nat =
| O
| S of nat

(** val fst : ('a1 * 'a2) -> 'a1 **)

let fst = function
| (x, _) -> x

(** val snd : ('a1 * 'a2) -> 'a2 **)

let snd = function
| (_, y) -> y

(** val length : 'a1 list -> nat **)

let rec length = function
| [] -> O
| _ :: l' -> S (length l')

(** val app : 'a1 list -> 'a1 list -> 'a1 list **)

let rec app l m =
  match l with
  | [] -> m
  | a :: l1 -> a :: (app l1 m)

type comparison =
| Eq
| Lt
| Gt

module Coq__1 = struct
 (** val add : nat -> nat -> nat **)
 let rec add n0 m =
   match n0 with
   | O -> m
   | S p -> S (add p m)
end
include Coq__1

module Nat =
 struct
  (** val eqb : nat -> nat -> bool **)

  let rec eqb n0 m =
    match n0 with
    | O -> (match m with
            | O -> true
            | S _ -> false)
    | S n' -> (match m with
               | O -> false
               | S m' -> eqb n' m')
 end

(** val map : ('a1 -> 'a2) -> 'a1 list -> 'a2 list **)

let rec map f = function
| [] -> []
| a :: t -> (f a) :: (map f t)

type positive =
| XI of positive
| XO of positive
| XH

type n =
| N0
| Npos of positive

module Pos =
 struct
  type mask =
  | IsNul
  | IsPos of positive
  | IsNeg
 end

module Coq_Pos =
 struct
  (** val succ : positive -> positive **)

  let rec succ = function
  | XI p -> XO (succ p)
  | XO p -> XI p
  | XH -> XO XH

  (** val add : positive -> positive -> positive **)

  let rec add x y =
    match x with
    | XI p ->
      (match y with
       | XI q -> XO (add_carry p q)
       | XO q -> XI (add p q)
       | XH -> XO (succ p))
    | XO p ->
      (match y with
       | XI q -> XI (add p q)
       | XO q -> XO (add p q)
       | XH -> XI p)
    | XH -> (match y with
             | XI q -> XO (succ q)
             | XO q -> XI q
             | XH -> XO XH)

  (** val add_carry : positive -> positive -> positive **)

  and add_carry x y =
    match x with
    | XI p ->
      (match y with
       | XI q -> XI (add_carry p q)
       | XO q -> XO (add_carry p q)
       | XH -> XI (succ p))
    | XO p ->
      (match y with
       | XI q -> XO (add_carry p q)
       | XO q -> XI (add p q)
       | XH -> XO (succ p))
    | XH ->
      (match y with
       | XI q -> XI (succ q)
       | XO q -> XO (succ q)
       | XH -> XI XH)

  (** val pred_double : positive -> positive **)

  let rec pred_double = function
  | XI p -> XI (XO p)
  | XO p -> XI (pred_double p)
  | XH -> XH

  (** val pred_N : positive -> n **)

  let pred_N = function
  | XI p -> Npos (XO p)
  | XO p -> Npos (pred_double p)
  | XH -> N0

  type mask = Pos.mask =
  | IsNul
  | IsPos of positive
  | IsNeg

  (** val succ_double_mask : mask -> mask **)

  let succ_double_mask = function
  | IsNul -> IsPos XH
  | IsPos p -> IsPos (XI p)
  | IsNeg -> IsNeg

  (** val double_mask : mask -> mask **)

  let double_mask = function
  | IsPos p -> IsPos (XO p)
  | x0 -> x0

  (** val double_pred_mask : positive -> mask **)

  let double_pred_mask = function
  | XI p -> IsPos (XO (XO p))
  | XO p -> IsPos (XO (pred_double p))
  | XH -> IsNul

  (** val sub_mask : positive -> positive -> mask **)

  let rec sub_mask x y =
    match x with
    | XI p ->
      (match y with
       | XI q -> double_mask (sub_mask p q)
       | XO q -> succ_double_mask (sub_mask p q)
       | XH -> IsPos (XO p))
    | XO p ->
      (match y with
       | XI q -> succ_double_mask (sub_mask_carry p q)
       | XO q -> double_mask (sub_mask p q)
       | XH -> IsPos (pred_double p))
    | XH -> (match y with
             | XH -> IsNul
             | _ -> IsNeg)

  (** val sub_mask_carry : positive -> positive -> mask **)

  and sub_mask_carry x y =
    match x with
    | XI p ->
      (match y with
       | XI q -> succ_double_mask (sub_mask_carry p q)
       | XO q -> double_mask (sub_mask p q)
       | XH -> IsPos (pred_double p))
    | XO p ->
      (match y with
       | XI q -> double_mask (sub_mask_carry p q)
       | XO q -> succ_double_mask (sub_mask_carry p q)
       | XH -> double_pred_mask p)
    | XH -> IsNeg

  (** val mul : positive -> positive -> positive **)

  let rec mul x y =
    match x with
    | XI p -> add y (XO (mul p y))
    | XO p -> XO (mul p y)
    | XH -> y

  (** val iter : ('a1 -> 'a1) -> 'a1 -> positive -> 'a1 **)

  let rec iter f x = function
  | XI n' -> f (iter f (iter f x n') n')
  | XO n' -> iter f (iter f x n') n'
  | XH -> f x

  (** val compare_cont : comparison -> positive -> positive -> comparison **)

  let rec compare_cont r x y =
    match x with
    | XI p ->
      (match y with
       | XI q -> compare_cont r p q
       | XO q -> compare_cont Gt p q
       | XH -> Gt)
    | XO p ->
      (match y with
       | XI q -> compare_cont Lt p q
       | XO q -> compare_cont r p q
       | XH -> Gt)
    | XH -> (match y with
             | XH -> r
             | _ -> Lt)

  (** val compare : positive -> positive -> comparison **)

  let compare =
    compare_cont Eq

  (** val eqb : positive -> positive -> bool **)

  let rec eqb p q =
    match p with
    | XI p0 -> (match q with
                | XI q0 -> eqb p0 q0
                | _ -> false)
    | XO p0 -> (match q with
                | XO q0 -> eqb p0 q0
                | _ -> false)
    | XH -> (match q with
             | XH -> true
             | _ -> false)

  (** val coq_lor : positive -> positive -> positive **)

  let rec coq_lor p q =
    match p with
    | XI p0 ->
      (match q with
       | XI q0 -> XI (coq_lor p0 q0)
       | XO q0 -> XI (coq_lor p0 q0)
       | XH -> p)
    | XO p0 ->
      (match q with
       | XI q0 -> XI (coq_lor p0 q0)
       | XO q0 -> XO (coq_lor p0 q0)
       | XH -> XI p0)
    | XH -> (match q with
             | XO q0 -> XI q0
             | _ -> q)

  (** val shiftl : positive -> n -> positive **)

  let shiftl p = function
  | N0 -> p
  | Npos n1 -> iter (fun x -> XO x) p n1

  (** val testbit : positive -> n -> bool **)

  let rec testbit p n0 =
    match p with
    | XI p0 -> (match n0 with
                | N0 -> true
                | Npos n1 -> testbit p0 (pred_N n1))
    | XO p0 -> (match n0 with
                | N0 -> false
                | Npos n1 -> testbit p0 (pred_N n1))
    | XH -> (match n0 with
             | N0 -> true
             | Npos _ -> false)

  (** val iter_op : ('a1 -> 'a1 -> 'a1) -> positive -> 'a1 -> 'a1 **)

  let rec iter_op op p a =
    match p with
    | XI p0 -> op a (iter_op op p0 (op a a))
    | XO p0 -> iter_op op p0 (op a a)
    | XH -> a

  (** val to_nat : positive -> nat **)

  let to_nat x =
    iter_op Coq__1.add x (S O)

  (** val of_succ_nat : nat -> positive **)

  let rec of_succ_nat = function
  | O -> XH
  | S x -> succ (of_succ_nat x)
 end

module N =
 struct
  (** val succ_double : n -> n **)

  let succ_double = function
  | N0 -> Npos XH
  | Npos p -> Npos (XI p)

  (** val double : n -> n **)

  let double = function
  | N0 -> N0
  | Npos p -> Npos (XO p)

  (** val add : n -> n -> n **)

  let add n0 m =
    match n0 with
    | N0 -> m
    | Npos p -> (match m with
                 | N0 -> n0
                 | Npos q -> Npos (Coq_Pos.add p q))

  (** val sub : n -> n -> n **)

  let sub n0 m =
    match n0 with
    | N0 -> N0
    | Npos n' ->
      (match m with
       | N0 -> n0
       | Npos m' ->
         (match Coq_Pos.sub_mask n' m' with
          | Coq_Pos.IsPos p -> Npos p
          | _ -> N0))

  (** val mul : n -> n -> n **)

  let mul n0 m =
    match n0 with
    | N0 -> N0
    | Npos p -> (match m with
                 | N0 -> N0
                 | Npos q -> Npos (Coq_Pos.mul p q))

  (** val compare : n -> n -> comparison **)

  let compare n0 m =
    match n0 with
    | N0 -> (match m with
             | N0 -> Eq
             | Npos _ -> Lt)
    | Npos n' -> (match m with
                  | N0 -> Gt
                  | Npos m' -> Coq_Pos.compare n' m')

  (** val eqb : n -> n -> bool **)

  let eqb n0 m =
    match n0 with
    | N0 -> (match m with
             | N0 -> true
             | Npos _ -> false)
    | Npos p -> (match m with
                 | N0 -> false
                 | Npos q -> Coq_Pos.eqb p q)

  (** val leb : n -> n -> bool **)

  let leb x y =
    match compare x y with
    | Gt -> false
    | _ -> true

  (** val ltb : n -> n -> bool **)

  let ltb x y =
    match compare x y with
    | Lt -> true
    | _ -> false

  (** val max : n -> n -> n **)

  let max n0 n' =
    match compare n0 n' with
    | Gt -> n0
    | _ -> n'

  (** val pos_div_eucl : positive -> n -> n * n **)

  let rec pos_div_eucl a b =
    match a with
    | XI a' ->
      let (q, r) = pos_div_eucl a' b in
      let r' = succ_double r in
      if leb b r' then ((succ_double q), (sub r' b)) else ((double q), r')
    | XO a' ->
      let (q, r) = pos_div_eucl a' b in
      let r' = double r in
      if leb b r' then ((succ_double q), (sub r' b)) else ((double q), r')
    | XH ->
      (match b with
       | N0 -> (N0, (Npos XH))
       | Npos p -> (match p with
                    | XH -> ((Npos XH), N0)
                    | _ -> (N0, (Npos XH))))

  (** val div_eucl : n -> n -> n * n **)

  let div_eucl a b =
    match a with
    | N0 -> (N0, N0)
    | Npos na -> (match b with
                  | N0 -> (N0, a)
                  | Npos _ -> pos_div_eucl na b)

  (** val div : n -> n -> n **)

  let div a b =
    fst (div_eucl a b)

  (** val modulo : n -> n -> n **)

  let modulo a b =
    snd (div_eucl a b)

  (** val coq_lor : n -> n -> n **)

  let coq_lor n0 m =
    match n0 with
    | N0 -> m
    | Npos p -> (match m with
                 | N0 -> n0
                 | Npos q -> Npos (Coq_Pos.coq_lor p q))

  (** val shiftl : n -> n -> n **)

  let shiftl a n0 =
    match a with
    | N0 -> N0
    | Npos a0 -> Npos (Coq_Pos.shiftl a0 n0)

  (** val testbit : n -> n -> bool **)

  let testbit a n0 =
    match a with
    | N0 -> false
    | Npos p -> Coq_Pos.testbit p n0

  (** val to_nat : n -> nat **)

  let to_nat = function
  | N0 -> O
  | Npos p -> Coq_Pos.to_nat p

  (** val of_nat : nat -> n **)

  let of_nat = function
  | O -> N0
  | S n' -> Npos (Coq_Pos.of_succ_nat n')

  (** val setbit : n -> n -> n **)

  let setbit a n0 =
    coq_lor a (shiftl (Npos XH) n0)
 end

type ('g, 'l) cfg = 'g * (nat -> 'l)

(** val upd_l : (nat -> 'a1) -> nat -> 'a1 -> nat -> 'a1 **)

let upd_l ls t l t' =
  if Nat.eqb t' t then l else ls t'

(** val step1 :
    (nat -> 'a1 -> 'a2 -> (('a1 * 'a2) * 'a3 list) option) -> nat -> ('a1,
    'a2) cfg -> (('a1, 'a2) cfg * 'a3 list) option **)

let step1 step0 t c =
  match step0 t (fst c) (snd c t) with
  | Some p ->
    let (p0, e) = p in
    let (g', l') = p0 in Some ((g', (upd_l (snd c) t l')), e)
  | None -> None

type ord =
| Relaxed
| Release
| Acquire
| AcqRel
| SeqCst
| NotAtomic

type akind =
| KLoad
| KStore
| KCas
| KSwap
| KFetchAdd
| KFetchSub
| KFetchOr
| KFetchAnd
| KCell

type ev =
| EAcc of n * n * n * akind * ord * ord * n * n * bool
| ERet of n

type ekind =
| EBitSet
| ECounting

type wmode =
| WTry
| WTimed
| WBlock

type nst =
| Idle
| Pending
| Notified

(** val st_code : nst -> n **)

let st_code = function
| Idle -> N0
| Pending -> Npos XH
| Notified -> Npos (XO XH)

type eop =
| ONotify of n
| OWait of wmode

type epc =
| PIdle
| NAct of n
| NActCas of n * n
| NCasIP of n
| NTrig of n
| NCasPN of n
| LWait of wmode
| LStoreIdle
| LEmpty
| LDrainPtr of n * n
| LDrain of n * n

type elst = { prog : eop list; at_pc : epc; ffull : bool; my_idx : n }

type egst = { kind : ekind; cap : n; tcap : n option; pdist : n;
              after_wait : (n -> n); after_empty : (n -> n);
              words : (n -> n); st : nst; trig : n;
              notified_total : (n -> n); delivered_total : (n -> n);
              covered : (n -> n); done_idx : (n -> n); lost : (n -> n) }

(** val undelivered_b : egst -> n -> bool **)

let undelivered_b g i =
  N.ltb (g.covered i) (g.done_idx i)

(** val b_WORD : n **)

let b_WORD =
  N0

(** val b_STATE : n **)

let b_STATE =
  Npos XH

(** val b_TRIG : n **)

let b_TRIG =
  Npos (XO XH)

(** val b_PTR : n **)

let b_PTR =
  Npos (XI XH)

(** val two64 : n **)

let two64 =
  Npos (XO (XO (XO (XO (XO (XO (XO (XO (XO (XO (XO (XO (XO (XO (XO (XO (XO
    (XO (XO (XO (XO (XO (XO (XO (XO (XO (XO (XO (XO (XO (XO (XO (XO (XO (XO
    (XO (XO (XO (XO (XO (XO (XO (XO (XO (XO (XO (XO (XO (XO (XO (XO (XO (XO
    (XO (XO (XO (XO (XO (XO (XO (XO (XO (XO (XO
    XH))))))))))))))))))))))))))))))))))))))))))))))))))))))))))))))))

(** val fupd : (n -> n) -> n -> n -> n -> n **)

let fupd f i v j =
  if N.eqb j i then v else f j

(** val widx : ekind -> n -> n **)

let widx k i =
  match k with
  | EBitSet -> N.div i (Npos (XO (XO (XO XH))))
  | ECounting -> i

(** val bitno : n -> n **)

let bitno i =
  N.modulo i (Npos (XO (XO (XO XH))))

(** val nwords : ekind -> n -> n **)

let nwords k c =
  match k with
  | EBitSet -> N.div (N.add c (Npos (XI (XI XH)))) (Npos (XO (XO (XO XH))))
  | ECounting -> c

(** val pend : ekind -> (n -> n) -> n -> n **)

let pend k ws i =
  match k with
  | EBitSet ->
    if N.testbit (ws (N.div i (Npos (XO (XO (XO XH))))))
         (N.modulo i (Npos (XO (XO (XO XH)))))
    then Npos XH
    else N0
  | ECounting -> ws i

(** val bit_reports : n -> n -> n -> nat -> (n * n) list **)

let rec bit_reports w v b = function
| O -> []
| S n' ->
  app
    (if N.testbit v b
     then ((N.add (N.mul (Npos (XO (XO (XO XH)))) w) b), (Npos XH)) :: []
     else []) (bit_reports w v (N.add b (Npos XH)) n')

(** val reports : ekind -> n -> n -> (n * n) list **)

let reports k w v =
  match k with
  | EBitSet -> bit_reports w v N0 (S (S (S (S (S (S (S (S O))))))))
  | ECounting -> if N.eqb v N0 then [] else (w, v) :: []

(** val rep_code : (n * n) -> n **)

let rep_code r =
  N.add
    (N.mul (Npos (XO XH))
      (N.add (fst r)
        (N.mul (Npos (XO (XO (XO (XO (XO (XO (XO (XO (XO (XO XH)))))))))))
          (snd r)))) (Npos XH)

(** val rep_total : ekind -> n -> n -> n **)

let rep_total k w v =
  match k with
  | EBitSet -> N.of_nat (length (reports k w v))
  | ECounting -> v

(** val rET_OK : n **)

let rET_OK =
  N0

(** val rET_FULL : n **)

let rET_FULL =
  Npos (XO XH)

(** val rET_OOB : n **)

let rET_OOB =
  Npos (XO (XO XH))

(** val set_l : elst -> eop list -> epc -> elst **)

let set_l l p c =
  { prog = p; at_pc = c; ffull = l.ffull; my_idx = l.my_idx }

(** val set_li : elst -> eop list -> epc -> n -> elst **)

let set_li l p c x =
  { prog = p; at_pc = c; ffull = l.ffull; my_idx = x }

(** val upd_real : egst -> (n -> n) -> nst -> n -> egst **)

let upd_real g ws s tr =
  { kind = g.kind; cap = g.cap; tcap = g.tcap; pdist = g.pdist; after_wait =
    g.after_wait; after_empty = g.after_empty; words = ws; st = s; trig = tr;
    notified_total = g.notified_total; delivered_total = g.delivered_total;
    covered = g.covered; done_idx = g.done_idx; lost = g.lost }

(** val activated : egst -> (n -> n) -> n -> bool -> egst **)

let activated g ws i wrapped =
  { kind = g.kind; cap = g.cap; tcap = g.tcap; pdist = g.pdist; after_wait =
    g.after_wait; after_empty = g.after_empty; words = ws; st = g.st; trig =
    g.trig; notified_total =
    (fupd g.notified_total i (N.add (g.notified_total i) (Npos XH)));
    delivered_total = g.delivered_total; covered = g.covered; done_idx =
    g.done_idx; lost =
    (if wrapped then fupd g.lost i (N.add (g.lost i) (Npos XH)) else g.lost) }

(** val returned : egst -> nst -> n -> n -> egst **)

let returned g s i x =
  { kind = g.kind; cap = g.cap; tcap = g.tcap; pdist = g.pdist; after_wait =
    g.after_wait; after_empty = g.after_empty; words = g.words; st = s;
    trig = g.trig; notified_total = g.notified_total; delivered_total =
    g.delivered_total; covered = g.covered; done_idx =
    (fupd g.done_idx i (N.max (g.done_idx i) x)); lost = g.lost }

(** val drained : egst -> n -> egst **)

let drained g w =
  let k = g.kind in
  { kind = k; cap = g.cap; tcap = g.tcap; pdist = g.pdist; after_wait =
  g.after_wait; after_empty = g.after_empty; words = (fupd g.words w N0);
  st = g.st; trig = g.trig; notified_total = g.notified_total;
  delivered_total = (fun j ->
  if N.eqb (widx k j) w
  then N.add (g.delivered_total j) (pend k g.words j)
  else g.delivered_total j); covered = (fun j ->
  if N.eqb (widx k j) w then g.notified_total j else g.covered j); done_idx =
  g.done_idx; lost = g.lost }

(** val trig_full : egst -> bool **)

let trig_full g =
  match g.tcap with
  | Some c -> N.leb c g.trig
  | None -> false

(** val wait_site : wmode -> n **)

let wait_site = function
| WTry -> Npos (XI (XO (XI (XI (XI XH)))))
| WTimed -> Npos (XO (XI (XI (XI (XI XH)))))
| WBlock -> Npos (XI (XI (XI (XI (XI XH)))))

(** val step : nat -> egst -> elst -> ((egst * elst) * ev list) option **)

let step t g l =
  match l.at_pc with
  | PIdle ->
    (match l.prog with
     | [] -> None
     | e :: p ->
       (match e with
        | ONotify i ->
          (match t with
           | O -> Some ((g, (set_l l p PIdle)), [])
           | S _ ->
             if N.leb g.cap i
             then Some ((g, (set_l l p PIdle)), ((ERet rET_OOB) :: []))
             else Some ((g, (set_l l p (NAct i))), ((EAcc ((Npos (XI (XO
                    XH))), b_PTR, N0, KLoad, Relaxed, Relaxed, g.pdist, N0,
                    true)) :: [])))
        | OWait m ->
          (match t with
           | O ->
             (match g.st with
              | Notified ->
                Some (((upd_real g g.words Idle g.trig), (set_l l p LEmpty)),
                  ((EAcc ((Npos (XO (XO (XI (XI (XI XH)))))), b_STATE, N0,
                  KCas, SeqCst, SeqCst, (Npos (XO XH)), N0, true)) :: []))
              | x ->
                Some ((g, (set_l l p (LWait m))), ((EAcc ((Npos (XO (XO (XI
                  (XI (XI XH)))))), b_STATE, N0, KCas, SeqCst, SeqCst,
                  (st_code x), N0, false)) :: [])))
           | S _ -> Some ((g, (set_l l p PIdle)), []))))
  | NAct i ->
    (match g.kind with
     | EBitSet ->
       let cur = g.words (N.div i (Npos (XO (XO (XO XH))))) in
       let e = EAcc ((Npos (XO (XI (XO XH)))), b_WORD,
         (N.div i (Npos (XO (XO (XO XH))))), KLoad, Relaxed, Relaxed, cur,
         N0, true)
       in
       if N.testbit cur (bitno i)
       then Some (((activated g g.words i false),
              (set_li l l.prog (NCasIP i)
                (N.add (g.notified_total i) (Npos XH)))), (e :: []))
       else Some ((g, (set_l l l.prog (NActCas (i, cur)))), (e :: []))
     | ECounting ->
       let c = g.words i in
       let c' = N.modulo (N.add c (Npos XH)) two64 in
       Some (((activated g (fupd g.words i c') i (N.eqb c' N0)),
       (set_li l l.prog (NCasIP i) (N.add (g.notified_total i) (Npos XH)))),
       ((EAcc ((Npos (XO (XO (XI (XO XH))))), b_WORD, i, KFetchAdd, Relaxed,
       Relaxed, c, c', true)) :: [])))
  | NActCas (i, cur) ->
    let w = N.div i (Npos (XO (XO (XO XH)))) in
    let v = g.words w in
    let new0 = N.setbit cur (bitno i) in
    if N.eqb v cur
    then Some (((activated g (fupd g.words w new0) i false),
           (set_li l l.prog (NCasIP i) (N.add (g.notified_total i) (Npos XH)))),
           ((EAcc ((Npos (XI (XI (XO XH)))), b_WORD, w, KCas, Relaxed,
           Relaxed, cur, new0, true)) :: []))
    else let e = EAcc ((Npos (XI (XI (XO XH)))), b_WORD, w, KCas, Relaxed,
           Relaxed, v, new0, false)
         in
         if N.testbit v (bitno i)
         then Some (((activated g g.words i false),
                (set_li l l.prog (NCasIP i)
                  (N.add (g.notified_total i) (Npos XH)))), (e :: []))
         else Some ((g, (set_l l l.prog (NActCas (i, v)))), (e :: []))
  | NCasIP i ->
    (match g.st with
     | Idle ->
       Some (((upd_real g g.words Pending g.trig),
         (set_l l l.prog (NTrig i))), ((EAcc ((Npos (XO (XI (XI (XI XH))))),
         b_STATE, N0, KCas, SeqCst, SeqCst, N0, (Npos XH), true)) :: []))
     | Pending ->
       Some ((g, (set_l l l.prog (NTrig i))), ((EAcc ((Npos (XO (XI (XI (XI
         XH))))), b_STATE, N0, KCas, SeqCst, SeqCst, (Npos XH), (Npos XH),
         false)) :: []))
     | Notified ->
       Some (((returned g g.st i l.my_idx), (set_l l l.prog PIdle)), ((EAcc
         ((Npos (XO (XI (XI (XI XH))))), b_STATE, N0, KCas, SeqCst, SeqCst,
         (Npos (XO XH)), (Npos XH), false)) :: ((ERet rET_OK) :: []))))
  | NTrig i ->
    if trig_full g
    then let e = EAcc ((Npos (XO (XO (XO (XI (XO XH)))))), b_TRIG, N0,
           KFetchAdd, SeqCst, SeqCst, g.trig, g.trig, false)
         in
         if l.ffull
         then Some ((g, (set_l l l.prog PIdle)), (e :: ((ERet
                rET_FULL) :: [])))
         else Some ((g, (set_l l l.prog (NCasPN i))), (e :: []))
    else Some (((upd_real g g.words g.st (N.add g.trig (Npos XH))),
           (set_l l l.prog (NCasPN i))), ((EAcc ((Npos (XO (XO (XO (XI (XO
           XH)))))), b_TRIG, N0, KFetchAdd, SeqCst, SeqCst, g.trig,
           (N.add g.trig (Npos XH)), true)) :: []))
  | NCasPN i ->
    (match g.st with
     | Pending ->
       Some (((returned g Notified i l.my_idx), (set_l l l.prog PIdle)),
         ((EAcc ((Npos (XO (XI (XO (XO (XI XH)))))), b_STATE, N0, KCas,
         SeqCst, SeqCst, (Npos XH), (Npos (XO XH)), true)) :: ((ERet
         rET_OK) :: [])))
     | x ->
       Some (((returned g x i l.my_idx), (set_l l l.prog PIdle)), ((EAcc
         ((Npos (XO (XI (XO (XO (XI XH)))))), b_STATE, N0, KCas, SeqCst,
         SeqCst, (st_code x), (Npos (XO XH)), false)) :: ((ERet
         rET_OK) :: []))))
  | LWait m ->
    if N.eqb g.trig N0
    then (match m with
          | WBlock -> None
          | _ ->
            Some ((g, (set_l l l.prog LStoreIdle)), ((EAcc ((wait_site m),
              b_TRIG, N0, KFetchSub, SeqCst, SeqCst, N0, N0, false)) :: [])))
    else Some (((upd_real g g.words g.st (g.after_wait g.trig)),
           (set_l l l.prog LStoreIdle)), ((EAcc ((wait_site m), b_TRIG, N0,
           KFetchSub, SeqCst, SeqCst, g.trig, (g.after_wait g.trig),
           true)) :: []))
  | LStoreIdle ->
    Some (((upd_real g g.words Idle g.trig), (set_l l l.prog LEmpty)), ((EAcc
      ((Npos (XO (XO (XO (XO (XO (XO XH))))))), b_STATE, N0, KStore, SeqCst,
      SeqCst, N0, N0, true)) :: []))
  | LEmpty ->
    Some (((upd_real g g.words g.st (g.after_empty g.trig)),
      (set_l l l.prog (LDrainPtr (N0, N0)))), ((EAcc ((Npos (XI (XO (XO (XO
      (XO (XO XH))))))), b_TRIG, N0, KSwap, SeqCst, SeqCst, g.trig,
      (g.after_empty g.trig), true)) :: []))
  | LDrainPtr (w, total) ->
    Some ((g, (set_l l l.prog (LDrain (w, total)))), ((EAcc ((Npos (XI (XO
      (XI (XO (XO (XO XH))))))), b_PTR, N0, KLoad, Relaxed, Relaxed, g.pdist,
      N0, true)) :: []))
  | LDrain (w, total) ->
    let v = g.words w in
    let total' = N.add total (rep_total g.kind w v) in
    let e = (EAcc
      ((match g.kind with
        | EBitSet -> Npos (XO (XI (XI (XO (XO (XO XH))))))
        | ECounting -> Npos (XI (XI (XI (XO (XO (XO XH))))))), b_WORD, w,
      KSwap, Relaxed, Relaxed, v, N0,
      true)) :: (map (fun r -> ERet (rep_code r)) (reports g.kind w v))
    in
    if N.leb (nwords g.kind g.cap) (N.add w (Npos XH))
    then Some (((drained g w), (set_l l l.prog PIdle)),
           (app e ((ERet (N.mul (Npos (XO XH)) total')) :: [])))
    else Some (((drained g w),
           (set_l l l.prog (LDrainPtr ((N.add w (Npos XH)), total')))), e)

(** val zero : n -> n **)

let zero _ =
  N0

type tpolicy = { pol_wait : (n -> n); pol_empty : (n -> n) }

(** val pol_model : tpolicy **)

let pol_model =
  { pol_wait = (fun n0 -> N.sub n0 (Npos XH)); pol_empty = (fun _ -> N0) }

(** val pol_take_all : tpolicy **)

let pol_take_all =
  { pol_wait = (fun _ -> N0); pol_empty = (fun _ -> N0) }

(** val pol_one_each : tpolicy **)

let pol_one_each =
  { pol_wait = (fun n0 -> N.sub n0 (Npos XH)); pol_empty = (fun n0 ->
    N.sub n0 (Npos XH)) }

(** val g_init : ekind -> n -> n option -> tpolicy -> n -> egst **)

let g_init k c tc po pd =
  { kind = k; cap = c; tcap = tc; pdist = pd; after_wait = po.pol_wait;
    after_empty = po.pol_empty; words = zero; st = Idle; trig = N0;
    notified_total = zero; delivered_total = zero; covered = zero; done_idx =
    zero; lost = zero }

(** val l_init : eop list -> bool -> elst **)

let l_init p ff =
  { prog = p; at_pc = PIdle; ffull = ff; my_idx = N0 }

(** val init :
    ekind -> n -> n option -> tpolicy -> n -> wmode list -> (nat -> n list)
    -> (nat -> bool) -> (egst, elst) cfg **)

let init k c tc po pd lp np ff =
  ((g_init k c tc po pd), (fun t ->
    match t with
    | O -> l_init (map (fun x -> OWait x) lp) false
    | S u -> l_init (map (fun x -> ONotify x) (np u)) (ff u)))

(** val listener_pc : (egst, elst) cfg -> epc **)

let listener_pc c =
  (snd c O).at_pc

(** val any_below : nat -> (n -> bool) -> bool **)

let rec any_below n0 f =
  match n0 with
  | O -> false
  | S k -> (||) (f (N.of_nat k)) (any_below k f)

(** val asleep_b : (egst, elst) cfg -> bool **)

let asleep_b c =
  match listener_pc c with
  | LWait m -> (match m with
                | WBlock -> N.eqb (fst c).trig N0
                | _ -> false)
  | _ -> false

(** val lost_wakeup_b : (egst, elst) cfg -> bool **)

let lost_wakeup_b c =
  (&&) (asleep_b c) (any_below (N.to_nat (fst c).cap) (undelivered_b (fst c)))

(** val bad_window_b : (egst, elst) cfg -> bool **)

let bad_window_b c =
  (&&) (asleep_b c) (match (fst c).st with
                     | Notified -> true
                     | _ -> false)

(** val ev_step1 :
    nat -> (egst, elst) cfg -> ((egst, elst) cfg * ev list) option **)

let ev_step1 =
  step1 step

(** val ev_init :
    ekind -> n -> n option -> tpolicy -> n -> wmode list -> (nat -> n list)
    -> (nat -> bool) -> (egst, elst) cfg **)

let ev_init =
  init

(** val ev_pols : (tpolicy * tpolicy) * tpolicy **)

let ev_pols =
  ((pol_model, pol_take_all), pol_one_each)

(** val ev_kinds : ekind * ekind **)

let ev_kinds =
  (EBitSet, ECounting)

(** val ev_modes : (wmode * wmode) * wmode **)

let ev_modes =
  ((WTry, WTimed), WBlock)

(** val ev_words : egst -> n -> n **)

let ev_words e =
  e.words

(** val ev_obs : egst -> (n * n) * n **)

let ev_obs g =
  (((st_code g.st), g.trig), (nwords g.kind g.cap))

(** val ev_ghost : egst -> n -> ((n * n) * n) * (n * n) **)

let ev_ghost g i =
  ((((g.notified_total i), (g.delivered_total i)), (g.covered i)),
    ((g.done_idx i), (g.lost i)))

(** val ev_pend : egst -> n -> n **)

let ev_pend g i =
  pend g.kind g.words i

(** val ev_local : elst -> ((eop list * epc) * bool) * n **)

let ev_local l =
  (((l.prog, l.at_pc), l.ffull), l.my_idx)

(** val ev_asleep : (egst, elst) cfg -> bool **)

let ev_asleep =
  asleep_b

(** val ev_lost_wakeup : (egst, elst) cfg -> bool **)

let ev_lost_wakeup =
  lost_wakeup_b

(** val ev_bad_window : (egst, elst) cfg -> bool **)

let ev_bad_window =
  bad_window_b

(** val ev_undelivered : egst -> n -> bool **)

let ev_undelivered =
  undelivered_b
