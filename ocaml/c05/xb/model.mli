
type nat =
| O
| S of nat

val fst : ('a1 * 'a2) -> 'a1

val snd : ('a1 * 'a2) -> 'a2

val length : 'a1 list -> nat

val app : 'a1 list -> 'a1 list -> 'a1 list

type comparison =
| Eq
| Lt
| Gt

val add : nat -> nat -> nat

module Nat :
 sig
  val eqb : nat -> nat -> bool
 end

val map : ('a1 -> 'a2) -> 'a1 list -> 'a2 list

type positive =
| XI of positive
| XO of positive
| XH

type n =
| N0
| Npos of positive

module Pos :
 sig
  type mask =
  | IsNul
  | IsPos of positive
  | IsNeg
 end

module Coq_Pos :
 sig
  val succ : positive -> positive

  val add : positive -> positive -> positive

  val add_carry : positive -> positive -> positive

  val pred_double : positive -> positive

  val pred_N : positive -> n

  type mask = Pos.mask =
  | IsNul
  | IsPos of positive
  | IsNeg

  val succ_double_mask : mask -> mask

  val double_mask : mask -> mask

  val double_pred_mask : positive -> mask

  val sub_mask : positive -> positive -> mask

  val sub_mask_carry : positive -> positive -> mask

  val mul : positive -> positive -> positive

  val iter : ('a1 -> 'a1) -> 'a1 -> positive -> 'a1

  val compare_cont : comparison -> positive -> positive -> comparison

  val compare : positive -> positive -> comparison

  val eqb : positive -> positive -> bool

  val coq_lor : positive -> positive -> positive

  val shiftl : positive -> n -> positive

  val testbit : positive -> n -> bool

  val iter_op : ('a1 -> 'a1 -> 'a1) -> positive -> 'a1 -> 'a1

  val to_nat : positive -> nat

  val of_succ_nat : nat -> positive
 end

module N :
 sig
  val succ_double : n -> n

  val double : n -> n

  val add : n -> n -> n

  val sub : n -> n -> n

  val mul : n -> n -> n

  val compare : n -> n -> comparison

  val eqb : n -> n -> bool

  val leb : n -> n -> bool

  val ltb : n -> n -> bool

  val max : n -> n -> n

  val pos_div_eucl : positive -> n -> n * n

  val div_eucl : n -> n -> n * n

  val div : n -> n -> n

  val modulo : n -> n -> n

  val coq_lor : n -> n -> n

  val shiftl : n -> n -> n

  val testbit : n -> n -> bool

  val to_nat : n -> nat

  val of_nat : nat -> n

  val setbit : n -> n -> n
 end

type ('g, 'l) cfg = 'g * (nat -> 'l)

val upd_l : (nat -> 'a1) -> nat -> 'a1 -> nat -> 'a1

val step1 :
  (nat -> 'a1 -> 'a2 -> (('a1 * 'a2) * 'a3 list) option) -> nat -> ('a1, 'a2)
  cfg -> (('a1, 'a2) cfg * 'a3 list) option

type ord =
| Relaxed
| Release
| Acquire
| AcqRel
| SeqCst
| NotAtomic

type akind =
| KLoad
| KStore
| KCas
| KSwap
| KFetchAdd
| KFetchSub
| KFetchOr
| KFetchAnd
| KCell

type ev =
| EAcc of n * n * n * akind * ord * ord * n * n * bool
| ERet of n

type ekind =
| EBitSet
| ECounting

type wmode =
| WTry
| WTimed
| WBlock

type nst =
| Idle
| Pending
| Notified

val st_code : nst -> n

type eop =
| ONotify of n
| OWait of wmode

type epc =
| PIdle
| NAct of n
| NActCas of n * n
| NCasIP of n
| NTrig of n
| NCasPN of n
| LWait of wmode
| LStoreIdle
| LEmpty
| LDrainPtr of n * n
| LDrain of n * n

type elst = { prog : eop list; at_pc : epc; ffull : bool; my_idx : n }

type egst = { kind : ekind; cap : n; tcap : n option; pdist : n;
              after_wait : (n -> n); after_empty : (n -> n);
              words : (n -> n); st : nst; trig : n;
              notified_total : (n -> n); delivered_total : (n -> n);
              covered : (n -> n); done_idx : (n -> n); lost : (n -> n) }

val undelivered_b : egst -> n -> bool

val b_WORD : n

val b_STATE : n

val b_TRIG : n

val b_PTR : n

val two64 : n

val fupd : (n -> n) -> n -> n -> n -> n

val widx : ekind -> n -> n

val bitno : n -> n

val nwords : ekind -> n -> n

val pend : ekind -> (n -> n) -> n -> n

val bit_reports : n -> n -> n -> nat -> (n * n) list

val reports : ekind -> n -> n -> (n * n) list

val rep_code : (n * n) -> n

val rep_total : ekind -> n -> n -> n

val rET_OK : n

val rET_FULL : n

val rET_OOB : n

val set_l : elst -> eop list -> epc -> elst

val set_li : elst -> eop list -> epc -> n -> elst

val upd_real : egst -> (n -> n) -> nst -> n -> egst

val activated : egst -> (n -> n) -> n -> bool -> egst

val returned : egst -> nst -> n -> n -> egst

val drained : egst -> n -> egst

val trig_full : egst -> bool

val wait_site : wmode -> n

val step : nat -> egst -> elst -> ((egst * elst) * ev list) option

val zero : n -> n

type tpolicy = { pol_wait : (n -> n); pol_empty : (n -> n) }

val pol_model : tpolicy

val pol_take_all : tpolicy

val pol_one_each : tpolicy

val g_init : ekind -> n -> n option -> tpolicy -> n -> egst

val l_init : eop list -> bool -> elst

val init :
  ekind -> n -> n option -> tpolicy -> n -> wmode list -> (nat -> n list) ->
  (nat -> bool) -> (egst, elst) cfg

val listener_pc : (egst, elst) cfg -> epc

val any_below : nat -> (n -> bool) -> bool

val asleep_b : (egst, elst) cfg -> bool

val lost_wakeup_b : (egst, elst) cfg -> bool

val bad_window_b : (egst, elst) cfg -> bool

val ev_step1 : nat -> (egst, elst) cfg -> ((egst, elst) cfg * ev list) option

val ev_init :
  ekind -> n -> n option -> tpolicy -> n -> wmode list -> (nat -> n list) ->
  (nat -> bool) -> (egst, elst) cfg

val ev_pols : (tpolicy * tpolicy) * tpolicy

val ev_kinds : ekind * ekind

val ev_modes : (wmode * wmode) * wmode

val ev_words : egst -> n -> n

val ev_obs : egst -> (n * n) * n

val ev_ghost : egst -> n -> ((n * n) * n) * (n * n)

val ev_pend : egst -> n -> n

val ev_local : elst -> ((eop list * epc) * bool) * n

val ev_asleep : (egst, elst) cfg -> bool

val ev_lost_wakeup : (egst, elst) cfg -> bool

val ev_bad_window : (egst, elst) cfg -> bool

val ev_undelivered : egst -> n -> bool
