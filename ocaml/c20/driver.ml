(* Correspondence driver for C20: replays the operation histories that the Rust harness ran
   against the real WaitSet on the extracted Coq model (concrete model = the tie) and on the
   extracted reference specification (= the oracle of the property) and reports every
   difference.  Parsing / printing only; all behaviour comes from Model (extracted).

   input:
     C <variant> cap=<n> maxev=<n> order=<cap|dup> ballast=<n> layout=<service digit per listener>
     O an <l> | ad <l> <period ns> | ai <period ns> | dg <j> | n <svc> | d <l> | p | pc | pn <svc>
          = <observation> [| <state digest of the implementation>]
   A listener's descriptor is represented by the listener index.  `ballast` = number of
   one-hour intervals attached before the history starts (replayed here as attach ops). *)
open Model

let rec pos_of_int (i : int) : positive =
  if i = 1 then XH else if i land 1 = 0 then XO (pos_of_int (i lsr 1)) else XI (pos_of_int (i lsr 1))
let n_of_int (i : int) : n = if i = 0 then N0 else Npos (pos_of_int i)
let rec int_of_pos = function XH -> 1 | XO p -> 2 * int_of_pos p | XI p -> 2 * int_of_pos p + 1
let int_of_n = function N0 -> 0 | Npos p -> int_of_pos p
let soi = string_of_int

let show_err = function
  | EInsufficientCapacity -> "nocap" | EAlreadyAttached -> "already"
  | EInternalError -> "internal" | EInsufficientResources -> "nores"

let parse_err = function
  | "nocap" -> Some EInsufficientCapacity | "already" -> Some EAlreadyAttached
  | "internal" -> Some EInternalError | "nores" -> Some EInsufficientResources | _ -> None

let show_pairs sorted l =
  let l = List.map (fun (g, k) -> (int_of_n g, (match k with KEvent -> "e" | KMissed -> "m"))) l in
  let l = if sorted then List.sort compare l else l in
  String.concat "," (List.map (fun (g, k) -> soi g ^ k) l)

let show_obs = function
  | OAttached g -> "ok" ^ soi (int_of_n g)
  | OAttachErr e -> show_err e
  | ODropped true -> "ok" | ODropped false -> "-"
  | ODone -> "ok"
  | ONoAttachments -> "noatt"
  | ODelivered (dl, nt, fo) -> "D:" ^ show_pairs false dl ^ "/" ^ show_pairs true nt ^ "/" ^ soi (int_of_n fo)

let show_map m =
  let l = List.sort compare (List.map (fun (k, v) -> (int_of_n k, int_of_n v)) m) in
  String.concat "," (List.map (fun (k, v) -> soi k ^ ":" ^ soi v) l)

(* digest of the model state in the format of the harness; `rfull` = the implementation
   exposed the reactor's descriptor list (posix_select), otherwise only its length (epoll) *)
let show_state (s : sys) (rfull : bool) (nodq : bool) =
  let ws = w s in
  let r = if rfull then "r=" ^ String.concat "," (List.map soi (List.sort compare (List.map int_of_n (reactor ws))))
          else "rl=" ^ soi (List.length (reactor ws)) in
  let dqs = String.concat "," (List.map (fun e -> soi (int_of_n (de_idx e)) ^ ":" ^ soi (int_of_n (de_period e))) (dq ws)) in
  if nodq then
    Printf.sprintf "B cnt=%d idc=%d a2d=%s d2a=%s %s" (int_of_n (counter ws)) (int_of_n (id_count ws))
      (show_map (a2d ws)) (show_map (d2a ws)) r
  else
  Printf.sprintf "cnt=%d idc=%d dq=%s a2d=%s d2a=%s %s" (int_of_n (counter ws)) (int_of_n (id_count ws)) dqs
    (show_map (a2d ws)) (show_map (d2a ws)) r

let () =
  let st : (sys * sp) option ref = ref None in
  (* timed scenarios: the deadline queue with its clock (times in ms since the scenario's epoch) *)
  let tst : tdq option ref = ref None in
  let show_idx l = "r:" ^ String.concat "," (List.map (fun i -> soi (int_of_n i)) l) in
  let layout = ref [||] and nballast = ref 0 in
  let inits = Hashtbl.create 8 in
  let case_no = ref 0 and op_no = ref 0 and ops_total = ref 0 in
  let mm_model = ref 0 and mm_spec = ref 0 in
  let cur_case = Buffer.create 256 and cur_nontrivial = ref false in
  let seen = Hashtbl.create 100000 in
  let distinct_nontrivial = ref 0 in
  let opcount = Hashtbl.create 64 and extra = Hashtbl.create 64 in
  let bump tbl k = Hashtbl.replace tbl k (1 + try Hashtbl.find tbl k with Not_found -> 0) in
  let dead = ref false in
  (* the implementation's last state digest (id_count dropped): a refused attach must not change it *)
  let prev_digest : string option ref = ref None in
  let strip_idc d = String.concat " " (List.filter (fun t -> not (String.length t > 4 && String.sub t 0 4 = "idc="))
                                         (String.split_on_char ' ' d)) in
  let flush_case () =
    if Buffer.length cur_case > 0 then begin
      let key = Digest.string (Buffer.contents cur_case) in
      if !cur_nontrivial && not (Hashtbl.mem seen key) then begin
        Hashtbl.add seen key (); incr distinct_nontrivial end;
      Buffer.clear cur_case; cur_nontrivial := false
    end in
  let fds_of_service sv =
    let l = ref [] in
    Array.iteri (fun i c -> if c = sv then l := n_of_int i :: !l) !layout;
    List.rev !l in
  let kv tok = match String.index_opt tok '=' with
    | Some i -> (String.sub tok 0 i, String.sub tok (i + 1) (String.length tok - i - 1))
    | None -> (tok, "") in
  (try
    while true do
      let line = input_line stdin in
      let toks = List.filter (fun s -> s <> "") (String.split_on_char ' ' line) in
      match toks with
      | "N" :: what :: _ -> bump extra what
      | "C" :: "timed" :: variant :: scen :: _ ->
        flush_case (); incr case_no; op_no := 0; dead := false; st := None;
        Buffer.add_string cur_case ("timed " ^ scen ^ "|");
        ignore variant;
        tst := Some (tdq_new N0)
      | "O" :: (("ta" | "tp") as name) :: rest ->
        incr op_no; incr ops_total; bump opcount name;
        let rec split acc = function "=" :: r -> (List.rev acc, r) | x :: r -> split (x :: acc) r | [] -> (List.rev acc, []) in
        let (args, obs) = split [] rest in
        let impl = match obs with o :: _ -> o | [] -> "?" in
        Buffer.add_string cur_case (name ^ ";");
        let an k = n_of_int (int_of_string (List.nth args k)) in
        (match !tst with
         | None -> failwith "timed op before timed case"
         | Some q ->
           if name = "ta" then tst := Some (t_add q (an 0) (an 1))
           else begin
             let q1 = t_peek q (an 0) in
             let (q2, rep) = t_report q1 (an 1) in
             let om = show_idx rep and os = show_idx (t_spec_missed q1 (an 1)) in
             if rep <> [] then cur_nontrivial := true;
             bump extra "timed_process_calls";
             (* model and oracle are proved equal (c20_timed_oracle_is_code): when both disagree with the
                implementation in the same way only the property failure (kind=spec) is reported *)
             if not !dead && om <> impl && (om <> os || os = impl) then begin
               incr mm_model;
               Printf.printf "MISMATCH case=%d op=%d kind=model line=[%s] model=%s impl=%s\n" !case_no !op_no line om impl end;
             if not !dead && os <> impl then begin
               incr mm_spec;
               Printf.printf "MISMATCH case=%d op=%d kind=spec line=[%s] spec=%s impl=%s\n" !case_no !op_no line os impl end;
             (* the real previous_iteration is what the code wrote; the model continues with its own *)
             tst := Some q2
           end)
      | "C" :: variant :: rest ->
        flush_case (); incr case_no; op_no := 0; dead := false;
        let get k = try List.assoc k (List.map kv rest) with Not_found -> failwith ("header lacks " ^ k) in
        let cap = int_of_string (get "cap") and maxev = int_of_string (get "maxev") in
        let order = (match get "order" with "cap" -> CapFirst | "dup" -> DupFirst | o -> failwith ("order " ^ o)) in
        let ballast = int_of_string (get "ballast") in
        nballast := ballast;
        let lay = get "layout" in
        layout := Array.init (String.length lay) (fun i -> Char.code lay.[i] - 48);
        (* distinct = distinct (reactor order, free capacity, layout, history); the service variant
           (ipc / local / ...) is deliberately not part of the key *)
        Buffer.add_string cur_case (Printf.sprintf "%s %d %d %s|" (get "order") (min (cap - ballast) 9) ballast lay);
        ignore variant;
        (* initial states are immutable values: computed once per configuration *)
        let key = (cap, maxev, get "order", ballast) in
        let init = (try Hashtbl.find inits key with Not_found ->
          let s = ref (sys_new (n_of_int cap) (n_of_int maxev) order) and a = ref (sp_new (n_of_int cap)) in
          for _ = 1 to ballast do
            let o = OAttachI (n_of_int 3600000000000) in
            s := fst (step !s o); a := fst (sp_step !a o)
          done;
          Hashtbl.add inits key (!s, !a); (!s, !a)) in
        prev_digest := None;
        st := Some init
      | "S" :: d ->
        (* state digest of the fresh wait set (after the ballast) *)
        let d = String.concat " " d in
        prev_digest := Some (strip_idc d);
        (match !st with
         | Some (s, _) ->
           let rfull = (try ignore (Str.search_forward (Str.regexp_string " r=") (" " ^ d) 0); true with Not_found -> false) in
           let nodq = String.length d > 2 && String.sub d 0 2 = "B " in
           if show_state s rfull nodq <> d then begin
             incr mm_model; dead := true;
             Printf.printf "MISMATCH case=%d op=0 kind=model line=[%s] model=%s impl=state-differs\n" !case_no line
               (String.concat "_" (String.split_on_char ' ' (show_state s rfull nodq))) end
         | None -> failwith "state before case")
      | "O" :: name :: rest ->
        incr op_no; incr ops_total;
        let rec split acc = function "=" :: r -> (List.rev acc, r) | x :: r -> split (x :: acc) r | [] -> (List.rev acc, []) in
        let (args, obs) = split [] rest in
        let impl = match obs with o :: _ -> o | [] -> "?" in
        let digest = (match obs with _ :: "|" :: d -> Some (String.concat " " d) | _ -> None) in
        Buffer.add_string cur_case (name ^ " " ^ String.concat " " args ^ ";");
        bump opcount name;
        if not !dead then begin
          match !st with
          | None -> failwith "op before case"
          | Some (s, a) ->
            let ai k = int_of_string (List.nth args k) in
            let an k = n_of_int (ai k) in
            let o = (match name with
              | "an" -> OAttachN (an 0) | "ad" -> OAttachD (an 0, an 1) | "ai" -> OAttachI (an 0)
              | "dg" -> ODrop (n_of_int (ai 0 + !nballast))   (* the ballast guards are the oldest ones *) | "n" -> ONotify (fds_of_service (ai 0)) | "d" -> ODrain (an 0)
              | "p" -> OProcess | "pc" -> OProcessConsume | "pn" -> OProcessNotify (fds_of_service (ai 0))
              | _ -> failwith ("unknown op " ^ name)) in
            let (s', om) = step s o in
            let (a', os) = sp_step a o in
            let oms = show_obs om and oss = show_obs os in
            if oms <> impl then begin
              incr mm_model;
              Printf.printf "MISMATCH case=%d op=%d kind=model line=[%s] model=%s impl=%s\n" !case_no !op_no line oms impl end
            else (match digest with
              | Some d ->
                let rfull = (try ignore (Str.search_forward (Str.regexp_string " r=") (" " ^ d) 0); true with Not_found -> false) in
                let nodq = String.length d > 2 && String.sub d 0 2 = "B " in
                let md = show_state s' rfull nodq in
                if md <> d then begin
                  incr mm_model;
                  Printf.printf "MISMATCH case=%d op=%d kind=model line=[%s] model=%s impl=state-differs\n" !case_no !op_no line
                    (String.concat "_" (String.split_on_char ' ' md)) end
              | None -> ());
            (* when an object is already attached AND the wait set is full the specification admits both errors *)
            let spec_ok = oss = impl || (match parse_err impl with Some e -> obs_ok a o (OAttachErr e) | None -> false) in
            if not spec_ok then begin
              incr mm_spec;
              Printf.printf "MISMATCH case=%d op=%d kind=spec line=[%s] spec=%s impl=%s\n" !case_no !op_no line oss impl end;
            (* the reference leaves everything unchanged when it refuses an attach: so must the implementation
               (all components of the digest; DeadlineQueue::id_count is an allocation cursor and exempt) *)
            (match os, digest, !prev_digest with
             | OAttachErr _, Some d, Some pd when (name = "an" || name = "ad" || name = "ai") && strip_idc d <> pd ->
               incr mm_spec;
               Printf.printf "MISMATCH case=%d op=%d kind=spec line=[%s] spec=refused-attach-leaves-state-unchanged impl=state-changed-from_%s\n"
                 !case_no !op_no line (String.concat "_" (String.split_on_char ' ' pd))
             | _ -> ());
            (match digest with Some d -> prev_digest := Some (strip_idc d) | None -> ());
            (match om with
             | ODelivered (dl, nt, _) -> if dl <> [] || nt <> [] then cur_nontrivial := true
             | OAttachErr e -> bump extra (name ^ "." ^ show_err e)
             | _ -> ());
            if String.length impl > 4 && String.sub impl 0 2 = "D:" && impl <> "D://0" then bump extra "process_calls_with_callbacks";
            (* after a disagreement on the observation the states may have diverged: stop comparing this case *)
            if impl = "P" || oms <> impl then dead := true;
            st := Some (s', a')
        end
      | [] -> ()
      | _ -> failwith ("bad line: " ^ line)
    done
  with End_of_file -> ());
  flush_case ();
  Printf.printf "SUMMARY cases=%d ops=%d mismatches_model=%d mismatches_spec=%d distinct_nontrivial=%d\n"
    !case_no !ops_total !mm_model !mm_spec !distinct_nontrivial;
  Hashtbl.iter (fun k v -> Printf.printf "OPCOUNT %s %d\n" k v) opcount;
  Hashtbl.iter (fun k v -> Printf.printf "EXTRA %s %d\n" k v) extra
