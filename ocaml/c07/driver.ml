(* C07 driver: the step model of process_state.rs (model/ProcState.v over model/Fs.v, extracted)
   against executions of the REAL ProcessGuard / ProcessMonitor / ProcessCleaner recorded through
   the G2 libc gate.  Parsing, printing, comparison -- and a breadth-first exploration of the model
   (mode `explore`) that searches the shortest schedule violating a stated predicate.

   stdin (mode compare), one execution = one case:
     C <id> priv=<0|1> nlc=<0|1> progs=<ops,..>|<ops,..>|.. kills=<k|->,.. [oracle=<name>]
     E <t> <role> <call> <args> <result> <errno>     completed gated call of process t (global order)
     R <t> <op> <token>                              operation of process t returned
     K <t>                                           process t was killed at its next gate
     F <role:mode,...>                               final listing of the directory
   kind=model : the model's event differs from the implementation's (the tie)
   kind=spec  : the implementation's own verdicts / calls violate the property.  class=N1 | N2 | N4 | F3
                mark a RECORDED finding and are printed only when its exact preconditions are verified
                on the observed calls of this execution (see `oracle preconditions` below); the same
                symptom without them is class=UNKEYED-... and must be reported as a new violation. *)
open Model

let rec pos_of_int (i : int) : positive =
  if i = 1 then XH else if i land 1 = 0 then XO (pos_of_int (i lsr 1)) else XI (pos_of_int (i lsr 1))
let n_of_int (i : int) : n = if i = 0 then N0 else Npos (pos_of_int i)
let rec int_of_pos = function XH -> 1 | XO p -> 2 * int_of_pos p | XI p -> 2 * int_of_pos p + 1
let int_of_n = function N0 -> 0 | Npos p -> int_of_pos p
let rec nat_of_int (i : int) : nat = if i = 0 then O else S (nat_of_int (i - 1))
let rec int_of_nat = function O -> 0 | S k -> 1 + int_of_nat k

let split_on c s = List.filter (fun x -> x <> "") (String.split_on_char c s)

let role_name r = match int_of_n r with 0 -> "ctx" | 1 -> "state" | 2 -> "owner" | 3 -> "dir" | k -> "role" ^ string_of_int k
let errno_name = function ENOENT -> "ENOENT" | EEXIST -> "EEXIST" | EACCES -> "EACCES" | EAGAIN -> "EAGAIN" | EBADF -> "EBADF" | ENOTEMPTY -> "ENOTEMPTY"
let acc_name = function ARd -> "O_RDONLY" | AWr -> "O_WRONLY" | ARdWr -> "O_RDWR"
let lt_name = function LRead -> "F_RDLCK" | LWrite -> "F_WRLCK"

(* canonical text of a call: the gate's own argument syntax *)
let call_text (k : callk) : string * string =
  match k with
  | KStat -> ("stat", "-")
  | KOpen (a, creat, excl, mode) ->
    ("open", Printf.sprintf "flags=%s%s%s%s" (acc_name a) (if creat then "|O_CREAT" else "") (if excl then "|O_EXCL" else "")
       (if creat then Printf.sprintf ",mode=0%o" (int_of_n mode) else ""))
  | KFchmod m -> ("fchmod", Printf.sprintf "mode=0%o" (int_of_n m))
  | KFstat -> ("fstat", "-")
  | KRead -> ("read", "n=16")
  | KWrite -> ("write", "n=16")
  | KSetlk l -> ("fcntl", Printf.sprintf "cmd=F_SETLK,type=%s,whence=0,start=0,len=0" (lt_name l))
  | KGetlk l -> ("fcntl", Printf.sprintf "cmd=F_GETLK,type=%s,whence=0,start=0,len=0" (lt_name l))
  | KRemove -> ("remove", "-")
  | KClose -> ("close", "-")
  | KAccess -> ("access", "mode=0")

let res_text (k : callk) (r : cres) : string * string =
  match r with
  | RErr e -> ("-1", errno_name e)
  | ROk v ->
    (match k with
     | KRead | KWrite -> (string_of_int (16 * int_of_n v), "0")
     | _ -> (string_of_int (int_of_n v), "0"))
  | RStat (m, nl) -> (Printf.sprintf "0:mode=0%o,nlink=%d" (int_of_n m) (int_of_n nl), "0")
  | RLock None -> ("0:F_UNLCK", "0")
  | RLock (Some l) -> ("0:" ^ lt_name l, "0")

let ev_text = function
  | ECall (role, k, r) ->
    let (c, a) = call_text k and (res, e) = res_text k r in
    Printf.sprintf "%s %s %s %s %s" (role_name role) c a res e
  | ERet (op, code) -> Printf.sprintf "ret %d %d" (int_of_n op) (int_of_n code)
  | ECrash -> "crash"

let op_name op = match int_of_n op with 1 -> "create" | 2 -> "drop" | 3 -> "state" | 4 -> "clean" | 5 -> "cdrop" | 6 -> "cabandon" | 7 -> "exit" | k -> string_of_int k
let ret_token op code =
  let c = int_of_n code in
  match int_of_n op with
  | 1 -> (match c with 0 -> "ok" | 1 -> "err:AlreadyExists" | 2 -> "err:ContractViolation" | 3 -> "err:SystemCorrupted"
                      | 4 -> "err:InsufficientPermissions" | _ -> "err:UnknownError(0)")
  | 3 -> (match c with 1 -> "Alive" | 2 -> "Dead" | 3 -> "DoesNotExist" | 4 -> "Starting" | 5 -> "CleaningUp"
                      | 10 -> "err:CorruptedState" | 11 -> "err:FailedToAcquireUniqueProcessIdFromContextFile"
                      | 12 -> "err:ProcessMonitorOpenError(UnknownError)" | 14 -> "err:ProcessMonitorOpenError(InsufficientPermissions)"
                      | _ -> "err:InternalError")
  | 4 -> (match c with 0 -> "ok" | 1 -> "err:ProcessIsStillAlive" | 2 -> "err:ProcessIsInitializedOrCrashedDuringInitialization"
                      | 3 -> "err:ProcessIsBeingCleanedUpOrCrashedDuringCleanup" | 4 -> "err:OwnedByAnotherProcess" | 5 -> "err:DoesNotExist"
                      | 6 -> "err:UnableToOpenContextFile" | 7 -> "err:UnableToOpenOwnerLockFile" | 8 -> "err:UnableToOpenStateFile"
                      | 9 -> "err:ProcessMonitorStateError" | _ -> "err:FailedToAcquireLockState")
  | _ -> "ok"

let parse_op = function
  | "create" -> OCreate | "drop" -> ODrop | "state" -> OState | "clean" -> OClean | "cdrop" -> OCDrop
  | "cabandon" -> OCAbandon | "exit" -> OExit | s -> failwith ("op " ^ s)

let kv toks key default =
  let p = key ^ "=" in
  let lp = String.length p in
  match List.find_opt (fun t -> String.length t >= lp && String.sub t 0 lp = p) toks with
  | Some t -> String.sub t lp (String.length t - lp)
  | None -> default

(* ------------------------------------------------------------------ model instance *)
type inst = { priv : bool; nlc : bool; mutable fs : fs; ls : lst array }

let mk_inst priv nlc (progs : pop list array) (kills : int option array) =
  { priv; nlc; fs = ps_fs_init;
    ls = Array.mapi (fun i p -> ps_l_init p (match kills.(i) with None -> None | Some k -> Some (nat_of_int k))) progs }

(* one model step of process t: None = cannot move *)
let step1 (m : inst) (t : int) : pev list option =
  match ps_step m.priv m.nlc (nat_of_int t) m.fs m.ls.(t) with
  | None -> None
  | Some ((fs', l'), es) -> m.fs <- fs'; m.ls.(t) <- l'; Some es

(* advance t until a step that performs a call (or crashes); returns all events on the way *)
let step_to_call (m : inst) (t : int) : pev list option =
  let rec go acc n =
    if n > 50 then Some acc else
    match step1 m t with
    | None -> if acc = [] then None else Some acc
    | Some es ->
      let acc = acc @ es in
      if List.exists (function ECall _ | ECrash -> true | _ -> false) es then Some acc else go acc (n + 1) in
  go [] 0

(* silent steps only (operation dispatch, returns without a call) *)
let drain_silent (m : inst) (t : int) : pev list =
  let rec go acc n =
    if n > 50 then acc else
    let save_fs = m.fs and save_l = m.ls.(t) in
    match step1 m t with
    | None -> acc
    | Some es ->
      if List.exists (function ECall _ | ECrash -> true | _ -> false) es
      then begin m.fs <- save_fs; m.ls.(t) <- save_l; acc end
      else go (acc @ es) (n + 1) in
  go [] 0

let listing_text (fs : fs) =
  let l = List.map (fun (p, mode) -> Printf.sprintf "%s:0%o" (role_name p) (int_of_n mode)) (ps_listing fs) in
  String.concat "," (List.sort compare l)

(* ------------------------------------------------------------------ compare mode *)
let compare_mode () =
  let cases = ref 0 and events = ref 0 and mm_model = ref 0 and mm_spec = ref 0 in
  let seen = Hashtbl.create 10000 and distinct = ref 0 in
  let opcount : (string, int) Hashtbl.t = Hashtbl.create 32 in
  let bump k = Hashtbl.replace opcount k (1 + try Hashtbl.find opcount k with Not_found -> 0) in
  let inst = ref None and header = ref "" and dead = ref false in
  let pending : (int, string Queue.t) Hashtbl.t = Hashtbl.create 8 in
  let tracebuf = Buffer.create 1024 in
  (* oracle state, from the implementation's lines only *)
  let nproc = ref 0 in
  let guard_owner = ref (-1) and guard_alive = ref false and guard_removed_state = ref false in
  let gone = ref [||] in                  (* process killed or exited *)
  let holder = ref (-1) in                (* process currently owning the cleaner *)
  let clean_oks = ref 0 in
  let cleaned_up = ref false and last_verdict = ref "" in
  let winner = ref (-1) and legit_release = ref false in
  let cprogs = ref [||] and nrets = ref [||] in
  let cur_op t = let p = (!cprogs).(t) and k = (!nrets).(t) in if k < Array.length p then p.(k) else "" in
  let oracle = ref "" in
  let in_op = ref [||] in
  (* oracle preconditions: indices (position in the case) of the last relevant call of each process *)
  let evi = ref 0 in
  let op_start = ref [||] and mutated = ref [||] in
  let d_rm_state = ref [||] and d_rm_ctx = ref [||] in          (* inside the running drop/cdrop *)
  let c_created = ref [||] and c_final = ref [||] in            (* inside the running create *)
  let i_owner_open = ref [||] and i_state_open = ref [||] and i_setlk_ok = ref [||] and i_getlk_state = ref [||] in
  let i_owner_remove = ref [||] and i_owner_close_drop = ref [||] and i_state_remove = ref [||] and i_state_close_drop = ref [||] in
  let self_release = ref (-1) in          (* the holder closed an owner_lock descriptor outside its drop/abandon *)
  let hold_since = ref (-1) in
  let killed_in_drop = ref false and killed_in_create = ref false in
  let holder_dropping () = !holder >= 0 && (!in_op).(!holder) && (cur_op !holder = "cdrop" || cur_op !holder = "cabandon") in
  let op_started_after_death = ref [||] in   (* per process: its running op began after the guard owner died *)
  let mismatch kind msg =
    (if kind = "model" then incr mm_model else incr mm_spec);
    Printf.printf "MISMATCH case=%d kind=%s header=[%s] %s\n" !cases kind !header msg in
  let push_rets t es =
    List.iter (function
      | ERet (op, code) ->
        let q = match Hashtbl.find_opt pending t with Some q -> q | None -> let q = Queue.create () in Hashtbl.add pending t q; q in
        Queue.add (op_name op ^ " " ^ ret_token op code) q
      | _ -> ()) es in
  let finish_case final =
    (match !inst with
     | None -> ()
     | Some m ->
       if not !dead then begin
         (match final with
          | Some f -> let mf = listing_text m.fs in if mf <> f then mismatch "model" (Printf.sprintf "final listing: model [%s] impl [%s]" mf f)
          | None -> ())
       end;
       (match final with
        | Some f when !oracle = "collectable" && f <> "" ->
          let roles = List.map (fun x -> List.hd (String.split_on_char ':' x)) (split_on ',' f) in
          (* N2 exactly: a process was killed inside StateFiles::drop after its remove(state) and before its remove(context);
             what remains is context (+ owner_lock), no state file; the survivor sees CleaningUp.
             Starting residue (note): killed inside ProcessGuard creation after creating context, before its final chmod 0400 *)
          let cls =
            if !killed_in_drop && !last_verdict = "CleaningUp" && List.mem "ctx" roles && not (List.mem "state" roles) then "N2"
            else if !killed_in_create && !last_verdict = "Starting" && List.mem "ctx:0200" (split_on ',' f) then "NOTE-STARTING"
            else "UNKEYED-RESIDUE" in
          mismatch "spec" (Printf.sprintf "class=%s after the death of the process and a complete state/clean/cdrop/state round of a fresh process the files [%s] remain and the last verdict is %s" cls f !last_verdict)
        | _ -> ());
       (match final with
        | Some f when !holder >= 0 && not (holder_dropping ()) ->
          let roles = List.map (fun x -> List.hd (String.split_on_char ':' x)) (split_on ',' f) in
          if not (List.mem "ctx" roles && List.mem "state" roles && List.mem "owner" roles) then
            mismatch "spec" (Printf.sprintf "class=%s process %d still holds the ProcessCleaner but only [%s] exist (while a cleaner holds the resources the three files exist)"
                               (if !self_release >= 0 then "N4" else "UNKEYED-FILES-MISSING-UNDER-CLEANER") !holder f)
        | _ -> ());
       if !oracle = "onewinner" && !clean_oks <> 1 then
         mismatch "spec" (Printf.sprintf "class=UNKEYED-ONEWINNER racing cleaners on a dead process: %d of them returned Ok (expected exactly 1)" !clean_oks);
       let key = Digest.string (Buffer.contents tracebuf) in
       if not (Hashtbl.mem seen key) then begin Hashtbl.add seen key (); incr distinct end);
    inst := None in
  (try
     while true do
       let line = input_line stdin in
       match split_on ' ' line with
       | "C" :: rest ->
         if !inst <> None then finish_case None;
         incr cases; header := String.concat " " rest; dead := false;
         Hashtbl.reset pending; Buffer.clear tracebuf;
         let progs = Array.of_list (List.map (fun p -> List.map parse_op (split_on ',' p)) (String.split_on_char '|' (kv rest "progs" ""))) in
         let n = Array.length progs in
         let kills = Array.make n None in
         List.iteri (fun i k -> if i < n && k <> "-" then kills.(i) <- Some (int_of_string k)) (split_on ',' (kv rest "kills" ""));
         inst := Some (mk_inst (kv rest "priv" "0" = "1") (kv rest "nlc" "0" = "1") progs kills);
         nproc := n; guard_owner := -1; guard_alive := false; guard_removed_state := false;
         gone := Array.make n false; holder := -1; clean_oks := 0; oracle := kv rest "oracle" ""; cleaned_up := false; last_verdict := ""; winner := -1; legit_release := false;
         cprogs := Array.of_list (List.map (fun p -> Array.of_list (split_on ',' p)) (String.split_on_char '|' (kv rest "progs" ""))); nrets := Array.make n 0;
         op_started_after_death := Array.make n false; in_op := Array.make n false;
         evi := 0; op_start := Array.make n 0; mutated := Array.make n false;
         d_rm_state := Array.make n false; d_rm_ctx := Array.make n false; c_created := Array.make n false; c_final := Array.make n false;
         i_owner_open := Array.make n (-1); i_state_open := Array.make n (-1); i_setlk_ok := Array.make n (-1); i_getlk_state := Array.make n (-1);
         i_owner_remove := Array.make n (-1); i_owner_close_drop := Array.make n (-1); i_state_remove := Array.make n (-1); i_state_close_drop := Array.make n (-1);
         self_release := -1; hold_since := -1; killed_in_drop := false; killed_in_create := false;
         Buffer.add_string tracebuf (kv rest "progs" "")
       | [ "E"; t; role; call; args; result; errno ] ->
         incr events; bump call;
         let t = int_of_string t in
         Buffer.add_string tracebuf (Printf.sprintf "%d%s%s%s;" t role call result);
         (* oracle bookkeeping *)
         incr evi;
         if not (!in_op).(t) then begin
           (!in_op).(t) <- true; (!op_started_after_death).(t) <- (!guard_owner >= 0 && not !guard_alive);
           (!op_start).(t) <- !evi; (!mutated).(t) <- false; (!d_rm_state).(t) <- false; (!d_rm_ctx).(t) <- false;
           (!c_created).(t) <- false; (!c_final).(t) <- false end;
         let op = cur_op t in
         let ok = result <> "-1" in
         let contains s sub = let ls = String.length s and lb = String.length sub in
           let rec go i = i + lb <= ls && (String.sub s i lb = sub || go (i + 1)) in go 0 in
         let mutating = List.mem call ["remove"; "unlink"; "fchmod"; "chmod"; "write"; "rename"; "ftruncate"; "mkdir"; "rmdir"]
                        || (call = "open" && contains args "O_CREAT") in
         if mutating && (op = "state" || op = "clean") then (!mutated).(t) <- true;
         let dropping = op = "drop" || op = "cdrop" in
         if call = "remove" && ok then begin
           if role = "state" then begin (!i_state_remove).(t) <- !evi; if dropping then (!d_rm_state).(t) <- true end;
           if role = "owner" then (!i_owner_remove).(t) <- !evi;
           if role = "ctx" && dropping then (!d_rm_ctx).(t) <- true;
           (* nobody but the owner of the ProcessCleaner removes anything while it holds the resources *)
           if !holder >= 0 && t <> !holder && not (holder_dropping ()) then
             mismatch "spec" (Printf.sprintf "class=%s process %d removes the %s file while process %d holds the ProcessCleaner"
                                (if !self_release >= 0 then "N4" else "UNKEYED-REMOVAL-UNDER-CLEANER") t role !holder)
         end;
         if call = "close" && dropping then begin
           if role = "owner" then (!i_owner_close_drop).(t) <- !evi;
           if role = "state" then (!i_state_close_drop).(t) <- !evi end;
         if call = "open" && ok then begin
           if role = "owner" then (!i_owner_open).(t) <- !evi;
           if role = "state" then (!i_state_open).(t) <- !evi;
           if role = "ctx" && op = "create" then (!c_created).(t) <- true end;
         if call = "fchmod" && role = "ctx" && op = "create" && args = "mode=0400" && ok then (!c_final).(t) <- true;
         if call = "fcntl" && ok && contains args "F_SETLK" && role = "owner" then (!i_setlk_ok).(t) <- !evi;
         if call = "fcntl" && contains args "F_GETLK" && role = "state" then (!i_getlk_state).(t) <- !evi;
         if t = !holder && role = "owner" && call = "close" && not (op = "cdrop" || op = "cabandon") then self_release := !evi;
         if t = !guard_owner && role = "state" && call = "remove" then guard_removed_state := true;
         if t = !holder && role = "owner" && call = "close" && (cur_op t = "cdrop" || cur_op t = "cabandon") then begin
           holder := -1; legit_release := (cur_op t = "cabandon") end;
         (match !inst with
          | Some m when not !dead ->
            let impl = Printf.sprintf "%s %s %s %s %s" role call args result errno in
            (match step_to_call m t with
             | None -> mismatch "model" (Printf.sprintf "process %d: model cannot move but the implementation did [%s]" t impl); dead := true
             | Some es ->
               push_rets t es;
               (match List.find_opt (function ECall _ | ECrash -> true | _ -> false) es with
                | Some (ECall _ as e) ->
                  let mt = ev_text e in
                  if mt <> impl then begin
                    mismatch "model" (Printf.sprintf "process %d call differs: impl=[%s] model=[%s]" t impl mt); dead := true end
                | Some ECrash -> mismatch "model" (Printf.sprintf "process %d: model crashes here, implementation performed [%s]" t impl); dead := true
                | _ -> mismatch "model" (Printf.sprintf "process %d: model has no further call, implementation performed [%s]" t impl); dead := true))
          | _ -> ())
       | [ "R"; t; op; token ] ->
         let t = int_of_string t in
         Buffer.add_string tracebuf (Printf.sprintf "%dR%s%s;" t op token);
         bump ("ret:" ^ op ^ ":" ^ token);
         (* the property's oracle, on the implementation's own verdicts *)
         if op = "create" && token = "ok" then begin guard_owner := t; guard_alive := true; guard_removed_state := false; cleaned_up := false; winner := -1 end;
         if op = "state" then last_verdict := token;
         incr evi;
         if op = "state" && token = "Dead" && !guard_owner >= 0 && !guard_alive then begin
           (* F3 (fixed by a8f7c5d) exactly: the monitor opened the state file before the guard's drop removed it and
              queried the lock after the guard's drop closed it *)
           let g = !guard_owner in
           if !guard_removed_state && (!i_state_open).(t) >= 0 && (!i_state_open).(t) < (!i_state_remove).(g)
              && (!i_state_close_drop).(g) >= 0 && (!i_state_close_drop).(g) < (!i_getlk_state).(t)
           then mismatch "spec" (Printf.sprintf "class=F3 process %d: state() = Dead while the guard process %d is alive (monitor open(state) before, F_GETLK after the guard's remove+close of the state file)" t g)
           else mismatch "spec" (Printf.sprintf "class=UNKEYED-DEAD-WHILE-ALIVE process %d: state() = Dead while the guard process %d is alive, outside the recorded F3 call order" t g) end;
         if (op = "state" || op = "clean") && (!mutated).(t) then
           mismatch "spec" (Printf.sprintf "class=UNKEYED-QUERY-MUTATES process %d: %s returned %s after removing / changing files (a state() query and a ProcessCleaner::new, failed or not, must not remove, chmod, write or create anything)" t op token);
         (* while a cleaner holds the resources every query that started afterwards observes CleaningUp *)
         if op = "state" && !holder >= 0 && !guard_owner >= 0 && not !guard_alive && not (holder_dropping ())
            && (!op_start).(t) > !hold_since && token <> "CleaningUp" then begin
           let keyed = if t = !holder then !self_release >= (!op_start).(t) else !self_release >= 0 in
           mismatch "spec" (Printf.sprintf "class=%s process %d: state() = %s while process %d holds the ProcessCleaner (expected CleaningUp)%s"
                              (if keyed then "N4" else "UNKEYED-VERDICT-UNDER-CLEANER") t token !holder
                              (if t = !holder then " -- the owner's own query opened and closed owner_lock" else "")) end;
         if op = "state" && token = "Alive" && !guard_owner >= 0 && not !guard_alive && (!op_started_after_death).(t) then
           mismatch "spec" (Printf.sprintf "class=UNKEYED-ALIVE-AFTER-DEATH process %d: state() = Alive although the guard process died before the call started" t);
         if op = "clean" && token = "ok" then begin
           incr clean_oks;
           if !guard_owner >= 0 && !guard_alive then
             mismatch "spec" (Printf.sprintf "class=UNKEYED-RECLAIM process %d: ProcessCleaner::new = Ok while the guard process %d is alive" t !guard_owner);
           if !holder < 0 && !winner >= 0 && !winner <> t && not !legit_release then begin
             (* N1 exactly: t opened owner_lock and state before the first winner w removed them (it holds descriptors of
                the unlinked files) and its F_SETLK succeeded after w's drop closed owner_lock *)
             let w = !winner in
             let n1 = (!i_owner_remove).(w) >= 0 && (!i_state_remove).(w) >= 0 && (!i_owner_close_drop).(w) >= 0
                      && (!i_owner_open).(t) >= 0 && (!i_owner_open).(t) < (!i_owner_remove).(w)
                      && (!i_state_open).(t) >= 0 && (!i_state_open).(t) < (!i_state_remove).(w)
                      && (!i_owner_close_drop).(w) < (!i_setlk_ok).(t) in
             mismatch "spec" (Printf.sprintf "class=%s process %d: ProcessCleaner::new = Ok although process %d already won and performed the cleanup (its StateFiles::drop removed the files) for this dead process%s"
                                (if n1 then "N1" else "UNKEYED-SECOND-WINNER") t w
                                (if n1 then " -- opened owner_lock/state before their removal, F_SETLK on the unlinked owner_lock after the winner's close" else "")) end;
           winner := t; legit_release := false;
           if !holder >= 0 && !holder <> t then begin
             (* N4 exactly: the holder itself closed an owner_lock descriptor outside its drop (its own state()/new() query)
                before this process' F_SETLK succeeded *)
             let n4 = !self_release >= 0 && !self_release < (!i_setlk_ok).(t) in
             mismatch "spec" (Printf.sprintf "class=%s process %d: ProcessCleaner::new = Ok while process %d still owns the cleaner%s"
                                (if n4 then "N4" else "UNKEYED-TWO-OWNERS") t !holder
                                (if n4 then " -- after the owner's own query closed an owner_lock descriptor" else "")) end;
           holder := t; hold_since := !evi; self_release := -1 end;
         if op = "cdrop" && !holder = t then cleaned_up := true;
         if (op = "cdrop" || op = "cabandon") && !holder = t then holder := -1;
         (!in_op).(t) <- false; (!nrets).(t) <- (!nrets).(t) + 1;
         (match !inst with
          | Some m when not !dead ->
            push_rets t (drain_silent m t);
            (match Hashtbl.find_opt pending t with
             | Some q when not (Queue.is_empty q) ->
               let want = Queue.pop q in
               let got = op ^ " " ^ token in
               let ok = want = got ||
                        (let lw = String.length want in String.length got >= lw && String.sub got 0 lw = want && want = "clean err:ProcessMonitorStateError") in
               if not ok then begin mismatch "model" (Printf.sprintf "process %d returned [%s], model says [%s]" t got want); dead := true end
             | _ -> mismatch "model" (Printf.sprintf "process %d returned [%s %s], model has no return pending" t op token); dead := true)
          | _ -> ())
       | [ "K"; t ] ->
         let t = int_of_string t in
         Buffer.add_string tracebuf (Printf.sprintf "%dK;" t);
         bump "kill";
         incr evi;
         if (!in_op).(t) && (cur_op t = "drop" || cur_op t = "cdrop") && (!d_rm_state).(t) && not (!d_rm_ctx).(t) then killed_in_drop := true;
         if (!in_op).(t) && cur_op t = "create" && (!c_created).(t) && not (!c_final).(t) then killed_in_create := true;
         if t = !guard_owner then guard_alive := false;
         if t = !holder then begin holder := -1; legit_release := true end;
         (!gone).(t) <- true;
         (match !inst with
          | Some m when not !dead ->
            (match step_to_call m t with
             | Some es when List.mem ECrash es -> ()
             | Some es -> mismatch "model" (Printf.sprintf "process %d was killed; model performs [%s] instead of crashing" t (String.concat "; " (List.map ev_text es))); dead := true
             | None -> mismatch "model" (Printf.sprintf "process %d was killed; model cannot move" t); dead := true)
          | _ -> ())
       | [ "X"; t ] ->   (* orderly exit without drop (exit command) *)
         let t = int_of_string t in
         if t = !guard_owner then guard_alive := false;
         if t = !holder then holder := -1;
         (match !inst with Some m when not !dead -> push_rets t (drain_silent m t) | _ -> ())
       | "F" :: rest -> finish_case (Some (String.concat "" rest))
       | [] -> ()
       | _ -> failwith ("bad line: " ^ line)
     done
   with End_of_file -> ());
  if !inst <> None then finish_case None;
  Printf.printf "SUMMARY cases=%d ops=%d mismatches_model=%d mismatches_spec=%d distinct_nontrivial=%d\n"
    !cases !events !mm_model !mm_spec !distinct;
  Hashtbl.iter (fun k v -> Printf.printf "OPCOUNT %s %d\n" k v) opcount

(* ------------------------------------------------------------------ explore mode *)
(* breadth-first over all interleavings of the model (every enabled process may move at every
   state; silent dispatch steps are interleaved too).  State = (fs, locals, ghost). *)
type ghost = { g_creator : int; g_clean_oks : int; g_holder : int; g_dead_started : bool array }

let explore (args : string list) =
  let priv = kv args "priv" "0" = "1" and nlc = kv args "nlc" "0" = "1" in
  let progs = Array.of_list (List.map (fun p -> List.map parse_op (split_on ',' p)) (String.split_on_char '|' (kv args "progs" ""))) in
  let n = Array.length progs in
  let kills = Array.make n None in
  List.iteri (fun i k -> if i < n && k <> "-" then kills.(i) <- Some (int_of_string k)) (split_on ',' (kv args "kills" ""));
  let pred = kv args "find" "dead-while-alive" in
  let maxstates = int_of_string (kv args "max" "2000000") in
  let m0 = mk_inst priv nlc progs kills in
  let seen = Hashtbl.create 100000 in
  let q = Queue.create () in
  let g0 = { g_creator = -1; g_clean_oks = 0; g_holder = -1; g_dead_started = Array.make n false } in
  let key fs ls g = Digest.string (Marshal.to_string (fs, ls, g) []) in
  Hashtbl.add seen (key m0.fs m0.ls g0) ();
  Queue.add (m0.fs, m0.ls, g0, []) q;
  let states = ref 1 and found = ref 0 and transitions = ref 0 in
  let maxfound = int_of_string (kv args "witnesses" "1") in
  let verdicts : (string, int) Hashtbl.t = Hashtbl.create 16 in
  (try
    while not (Queue.is_empty q) do
      let (fs, ls, g, path) = Queue.pop q in
      for t = 0 to n - 1 do
        match ps_step priv nlc (nat_of_int t) fs ls.(t) with
        | None -> ()
        | Some ((fs', l'), es) ->
          incr transitions;
          let ls' = Array.copy ls in
          ls'.(t) <- l';
          let g' = ref g in
          let bad = ref None in
          let alive p = p >= 0 && not ls.(p).crashed in
          List.iter (fun e ->
            (match e with
             | ERet (op, code) ->
               let k = op_name op ^ ":" ^ ret_token op code in
               Hashtbl.replace verdicts k (1 + try Hashtbl.find verdicts k with Not_found -> 0)
             | _ -> ());
            match e with
            | ERet (op, code) when int_of_n op = 1 && int_of_n code = 0 -> g' := { !g' with g_creator = t }
            | ERet (op, code) when int_of_n op = 3 && int_of_n code = 2 ->
              if pred = "dead-while-alive" && alive g.g_creator then bad := Some "state() = Dead while the guard process is alive"
            | ERet (op, code) when int_of_n op = 3 && int_of_n code = 1 ->
              if pred = "alive-after-death" && g.g_creator >= 0 && not (alive g.g_creator) && g.g_dead_started.(t) then
                bad := Some "state() = Alive for a call that started after the guard process died"
            | ERet (op, code) when int_of_n op = 4 && int_of_n code = 0 ->
              if pred = "reclaim-while-alive" && alive g.g_creator then bad := Some "ProcessCleaner::new = Ok while the guard process is alive";
              if pred = "two-owners" && g.g_holder >= 0 && g.g_holder <> t then bad := Some "two processes own the cleaner at the same time";
              if pred = "two-oks" && g.g_clean_oks >= 1 then bad := Some "a second ProcessCleaner::new returned Ok";
              g' := { !g' with g_clean_oks = g.g_clean_oks + 1; g_holder = t }
            | ECall (role, KClose, _) when int_of_n role = 2 && g.g_holder = t
                                           && (match ls.(t).at_pc with Drop _ | Unwind _ -> true | _ -> false) -> g' := { !g' with g_holder = -1 }
            | ECrash -> if g.g_holder = t then g' := { !g' with g_holder = -1 }
            | _ -> ()) es;
          (* an operation of t starts with its dispatch step out of Idle *)
          (if ls.(t).at_pc = Idle then begin
              let d = Array.copy !g'.g_dead_started in
              d.(t) <- (g.g_creator >= 0 && not (alive g.g_creator));
              g' := { !g' with g_dead_started = d } end);
          (if ls'.(t).crashed && !g'.g_holder = t then g' := { !g' with g_holder = -1 });
          let path' = (t, es) :: path in
          (match !bad with
           | Some what when !found < maxfound ->
             incr found;
             let p = List.rev path' in
             Printf.printf "WITNESS find=%s what=[%s] steps=%d\n" pred what (List.length p);
             Printf.printf "SCHEDULE %s\n" (String.concat "," (List.map (fun (t, _) -> string_of_int t) p));
             Printf.printf "CALLS %s\n" (String.concat "," (List.map (fun (t, _) -> string_of_int t)
                                                              (List.filter (fun (_, es) -> List.exists (function ECall _ | ECrash -> true | _ -> false) es) p)));
             List.iter (fun (t, es) -> List.iter (fun e -> Printf.printf "  %d %s\n" t (ev_text e)) es) p;
             if !found >= maxfound then raise Exit
           | _ -> ());
          let k = key fs' ls' !g' in
          if not (Hashtbl.mem seen k) then begin
            Hashtbl.add seen k (); incr states;
            if !states > maxstates then begin Printf.printf "LIMIT states=%d\n" !states; raise Exit end;
            Queue.add (fs', ls', !g', path') q end
      done
    done
  with Exit -> ());
  Printf.printf "EXPLORED find=%s priv=%b nlc=%b progs=%s kills=%s states=%d transitions=%d witnesses=%d exhaustive=%b\n"
    pred priv nlc (kv args "progs" "") (kv args "kills" "") !states !transitions !found (Queue.is_empty q);
  Hashtbl.iter (fun k v -> Printf.printf "VERDICT %s %d\n" k v) verdicts


(* sequential mode: the processes run one after the other, each to completion; prints every return *)
let seq (args : string list) =
  let priv = kv args "priv" "0" = "1" and nlc = kv args "nlc" "0" = "1" in
  let progs = Array.of_list (List.map (fun p -> List.map parse_op (split_on ',' p)) (String.split_on_char '|' (kv args "progs" ""))) in
  let n = Array.length progs in
  let kills = Array.make n None in
  List.iteri (fun i k -> if i < n && k <> "-" then kills.(i) <- Some (int_of_string k)) (split_on ',' (kv args "kills" ""));
  let m = mk_inst priv nlc progs kills in
  let out = ref [] in
  for t = 0 to n - 1 do
    let rec go k = if k > 1000 then () else match step1 m t with
      | None -> ()
      | Some es -> List.iter (function ERet (op, code) -> out := Printf.sprintf "%d:%s:%s" t (op_name op) (ret_token op code) :: !out
                                     | ECrash -> out := Printf.sprintf "%d:crash@%d" t (int_of_nat m.ls.(t).ncalls) :: !out | _ -> ()) es; go (k + 1) in
    go 0
  done;
  Printf.printf "SEQ %s | listing=[%s]\n" (String.concat " " (List.rev !out)) (listing_text m.fs)

let () =
  match Array.to_list Sys.argv with
  | _ :: "explore" :: rest -> explore rest
  | _ :: "seq" :: rest -> seq rest
  | _ -> compare_mode ()
