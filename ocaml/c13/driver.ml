(* C13 driver: connection lifecycle step model (model/ConnState.v) against the real
   zero_copy_connection over process_local storage (G1), the property oracle on the
   implementation's own observations, and an exhaustive explorer of the extracted model
   (`driver explore ...`) used to find / re-find the witnesses of c13_unlink_once_refuted. *)
open Model
open G1drv

let rec int_of_nat = function O -> 0 | S k -> 1 + int_of_nat k

(* ---- parameter variants (index 0 = base, 1..6 differ from the base in one field) ---- *)
let mkpar i =
  let b = { p_bs = n_of_int 2; p_mb = n_of_int 2; p_ovf = false; p_ns = n_of_int 4; p_seg = n_of_int 1; p_ch = n_of_int 1 } in
  match i with
  | 0 -> b
  | 1 -> { b with p_bs = n_of_int 3 }
  | 2 -> { b with p_mb = n_of_int 3 }
  | 3 -> { b with p_ovf = true }
  | 4 -> { b with p_ns = n_of_int 5 }
  | 5 -> { b with p_seg = n_of_int 2 }
  | 6 -> { b with p_ch = n_of_int 2 }
  | 7 -> { b with p_bs = n_of_int 3; p_mb = n_of_int 1 }   (* same completion queue size, other buffer size *)
  | _ -> failwith "param variant"

type aop = Cr of role * int | Dr of int | Lk of int | Fo of role | Ic of int
let parse_aop s =
  let num i = int_of_string (String.sub s i (String.length s - i)) in
  if String.length s >= 3 && String.sub s 0 2 = "cs" then Cr (RSend, num 2)
  else if String.length s >= 3 && String.sub s 0 2 = "cr" then Cr (RRecv, num 2)
  else if String.length s >= 3 && String.sub s 0 2 = "ic" then Ic (num 2)
  else if s = "fs" then Fo RSend else if s = "fr" then Fo RRecv
  else if s.[0] = 'd' then Dr (num 1) else if s.[0] = 'l' then Lk (num 1)
  else failwith ("op " ^ s)
let aop_str = function
  | Cr (RSend, p) -> Printf.sprintf "cs%d" p | Cr (RRecv, p) -> Printf.sprintf "cr%d" p
  | Dr k -> Printf.sprintf "d%d" k | Lk k -> Printf.sprintf "l%d" k
  | Fo RSend -> "fs" | Fo RRecv -> "fr" | Ic k -> Printf.sprintf "ic%d" k
let conv = function
  | Cr (r, p) -> OCreate (r, mkpar p) | Dr k -> ODrop (nat_of_int k) | Lk k -> OLeak (nat_of_int k)
  | Fo r -> OForce r | Ic k -> OIsConn (nat_of_int k)
let parse_prog s = Array.of_list (List.map (fun t -> List.map parse_aop (split_on ',' t)) (String.split_on_char '|' s))
let prog_str p = String.concat "|" (Array.to_list (Array.map (fun l -> String.concat "," (List.map aop_str l)) p))

(* ================= property oracle on the implementation's own observations ================= *)
(* timeline token: b:t:k (thread t begins op k) / e:t:k:code (op k returned code = 2*result+exists) *)
type hstate = { role : role; par : int; t : int; k : int; mutable dropping : bool; mutable gone : bool; mutable leaked : bool }

let oracle (progs : aop list array) (timeline : string) (final : string list) : string option =
  let evs = split_on ',' timeline in
  let live : hstate list ref = ref [] in       (* ports whose create returned Ok *)
  let inflight : (int * int, (role * int * bool ref * bool ref)) Hashtbl.t = Hashtbl.create 8 in
  let forcing : (int * int, role) Hashtbl.t = Hashtbl.create 4 in
  (* create in flight -> (role, par, same-role port surely live during the whole call, misuse) *)
  let err = ref None and misuse = ref false and any_leak = ref false in
  let icsnap : (int * int, hstate * hstate) Hashtbl.t = Hashtbl.create 4 in   (* is_connected call -> (port, peer) both attached at its begin *)
  let last_exists = ref None and create_since = ref false in
  let fail m = if !err = None then err := Some m in
  let op_of t k = List.nth progs.(t) k in
  let surely_live h = not h.dropping && not h.gone && not h.leaked in
  let find t k = List.find_opt (fun h -> h.t = t && h.k = k && not h.gone) !live in
  List.iter (fun tok ->
    match String.split_on_char ':' tok with
    | [ "b"; t; k ] ->
      let t = int_of_string t and k = int_of_string k in
      (match op_of t k with
       | Cr (r, p) ->
         create_since := true;
         let covered = ref (List.exists (fun h -> surely_live h && h.role = r) !live) in
         Hashtbl.replace inflight (t, k) (r, p, covered, ref false)
       | Dr j -> (match find t j with Some h -> h.dropping <- true | None -> ());
         (* a port that starts to detach stops covering the creates in flight *)
         Hashtbl.iter (fun _ (r, _, cov, _) -> match find t j with Some h when h.role = r -> cov := false | _ -> ()) inflight
       | Lk j -> any_leak := true; (match find t j with Some h -> h.leaked <- true | None -> ())
       | Fo r ->
         if List.exists (fun h -> h.role = r && not h.gone && not h.leaked) !live
            || Hashtbl.fold (fun _ (r', _, _, _) acc -> acc || r' = r) inflight false then misuse := true;
         Hashtbl.replace forcing (t, k) r;
         Hashtbl.iter (fun _ (_, _, cov, _) -> cov := false) inflight
       | Ic j ->
         (match find t j with
          | Some p when surely_live p ->
            (match List.find_opt (fun q -> surely_live q && q.role <> p.role) !live with
             | Some q -> Hashtbl.replace icsnap (t, k) (p, q)
             | None -> ())
          | _ -> ()))
    | [ "l"; t; j ] ->
      let t = int_of_string t and j = int_of_string j in
      any_leak := true; (match find t j with Some h -> h.leaked <- true | None -> ())
    | [ "e"; t; k; code ] ->
      let t = int_of_string t and k = int_of_string k and code = int_of_string code in
      let res = code / 2 and exists = code land 1 = 1 in
      if not !misuse then begin
        (match op_of t k with
         | Cr (r, p) ->
           let (_, _, cov, _) = Hashtbl.find inflight (t, k) in
           Hashtbl.remove inflight (t, k);
           if !cov && res <> 2 then
             fail (Printf.sprintf "second attach of a role not refused as AnotherInstanceIsAlreadyConnected: thread %d op %d returned %d while a port of that role was attached during the whole call" t k res);
           if res = 0 then begin
             if List.exists (fun h -> surely_live h && h.role = r) !live then
               fail (Printf.sprintf "two attached ports of one role: thread %d op %d attached while another port of that role is attached" t k);
             live := { role = r; par = p; t; k; dropping = false; gone = false; leaked = false } :: !live
           end
         | Dr j -> (match find t j with Some h -> h.gone <- true | None -> ())
         | Fo _ -> Hashtbl.remove forcing (t, k)
         | Ic j ->
           (match Hashtbl.find_opt icsnap (t, k) with
            | Some (p, q) when res = 0 && surely_live p && surely_live q ->
              fail (Printf.sprintf "is_connected = false on thread %d op %d although a sender and a receiver are both attached for the whole call: the two ports sit on different resources" t k)
            | _ -> ());
           if res = 1 && not (List.exists (fun h -> not h.gone) (List.filter (fun h -> not (h.t = t && h.k = j)) !live) || Hashtbl.length inflight > 0)
           then fail (Printf.sprintf "is_connected reported a peer while no other port exists (thread %d op %d)" t k)
         | _ -> ());
        if not exists && List.exists surely_live !live then
          fail (Printf.sprintf "connection does not exist (does_exist = false after thread %d op %d) while a port is attached to it" t k);
        (* a removed connection comes back only through a create_* *)
        if exists && !last_exists = Some false && not !create_since && Hashtbl.length inflight = 0 then
          fail (Printf.sprintf "connection exists again after thread %d op %d although nothing created it since it was observed removed" t k);
        if !last_exists <> Some exists then begin last_exists := Some exists; create_since := Hashtbl.length inflight > 0 end
      end
    | _ -> ()) evs;
  (match final with
   | ex :: _ when not !misuse ->
     let remaining = List.exists (fun h -> not h.gone) !live in
     if ex = "1" && not remaining && not !any_leak then fail "all ports are gone but the connection still exists (never destroyed)";
     if ex = "0" && List.exists surely_live !live then fail "a port is attached at the end but the connection does not exist"
   | _ -> ());
  !err

(* ================= G1 system ================= *)
let mk_sys toks =
  match toks with
  | _nt :: prog :: timeline :: _ ->
    let aprogs = parse_prog prog in
    let nt = Array.length aprogs in
    let progs = Array.map (List.map conv) aprogs in
    let c = ref (conn_init (fun t -> let i = int_of_nat t in if i < nt then progs.(i) else [])) in
    let step t =
      let rec go () = match conn_step1 (nat_of_int t) !c with
        | None -> None
        | Some (c', []) -> c := c'; go ()
        | Some (c', es) -> c := c'; Some es in go () in
    let finished t =
      let rec go cc = match conn_step1 (nat_of_int t) cc with
        | None -> true
        | Some (c', []) -> go c'
        | Some _ -> false in go !c in
    let agrees = ref false in
    { nthreads = nt; step; finished;
      final_ok = (fun toks ->
        (* only called when the whole trace agreed with the model *)
        let m = match (fst !c).cur with Some _ -> "1" | None -> "0" in
        let all_done = let r = ref true in for t = 0 to nt - 1 do if not (finished t) then r := false done; !r in
        agrees := all_done && (match toks with x :: _ -> x = m | [] -> false);
        match toks with
        | x :: _ when x = m -> None
        | x :: _ -> Some (Printf.sprintf "model exists=%s impl exists=%s" m x)
        | [] -> Some "no final observation");
      spec = (fun _rets final ->
        (* the verdict uses the implementation's observations only; the class tag says whether the model,
           having agreed with the implementation on the WHOLE execution, explains it *)
        match oracle aprogs timeline final with
        | None -> None
        | Some m ->
          let g = fst !c in
          let cls = if not !agrees then "unexplained"
            else if g.saw_marked then "second-owner-after-mark"
            else if g.stolen <> [] then "forced-removal-of-live-port"
            else "unexplained" in
          Some (m ^ " class=" ^ cls)) }
  | _ -> failwith "unknown case header"

(* ================= explorer of the extracted model ================= *)
type st = { g : gst; ls : lst array }

let key (s : st) = Marshal.to_string (s.g, s.ls) [ Marshal.No_sharing ]

let succs (s : st) =
  let r = ref [] in
  Array.iteri (fun t l ->
    match conn_step (nat_of_int t) s.g l with
    | None -> ()
    | Some ((g', l'), _) -> let ls = Array.copy s.ls in ls.(t) <- l'; r := (t, { g = g'; ls }) :: !r) s.ls;
  List.rev !r

(* what to look for *)
type goal = { name : string; bad : st -> bool }
let has_force (s : st) = Array.exists (fun l -> List.exists (function OForce _ -> true | _ -> false) l.prog) s.ls
let bad_unlink s = List.exists (fun u -> not (conn_unlink_good u)) s.g.unl
let goals = [
  { name = "full"; bad = bad_unlink };
  { name = "hyp"; bad = (fun s -> not s.g.saw_marked && bad_unlink s) };
  { name = "stale"; bad = (fun s -> List.exists (fun u -> match u.u_rm with Some i -> i <> u.u_hinc | None -> false) s.g.unl) };
  { name = "stale-attached"; bad = (fun s -> List.exists (fun u -> match u.u_rm with Some i -> i <> u.u_hinc && u.u_att | None -> false) s.g.unl) };
  { name = "both-attached"; bad = (fun s -> List.exists (fun u -> u.u_rm <> None && int_of_n u.u_st = 3) s.g.unl) };
  { name = "stolen-without-force"; bad = (fun s -> s.g.stolen <> [] && not (Array.exists (fun l -> List.exists (function OForce _ -> true | _ -> false) l.prog || (match l.at_pc with RsLoad (_, WForce) | RsCas (_, WForce, _) | Acq (_, WForce) | DrOwn (_, WForce) | DrRm (_, WForce) -> true | _ -> false)) s.ls) && false) };
  { name = "attached-on-removed"; bad = (fun s ->
      (* a port that completed create_* and is still held, whose bit nobody stole, sits on an incarnation the name no longer refers to *)
      not s.g.saw_marked && s.g.stolen = [] &&
      Array.exists (fun l -> List.exists (function Some h -> s.g.cur <> Some h.h_inc | None -> false) l.hs) s.ls) };
]

(* BFS; returns for each goal the shortest schedule reaching a bad state, and the number of states *)
let bfs (progs : aop list array) (gs : goal list) =
  let nt = Array.length progs in
  let init = { g = conn_ginit; ls = Array.init nt (fun t -> conn_linit (List.map conv progs.(t))) } in
  let seen = Hashtbl.create 4096 in
  let q = Queue.create () in
  Hashtbl.add seen (key init) ();
  Queue.add (init, []) q;
  let found = Hashtbl.create 8 in
  while not (Queue.is_empty q) do
    let (s, path) = Queue.pop q in
    List.iter (fun gl -> if not (Hashtbl.mem found gl.name) && gl.bad s then Hashtbl.add found gl.name (List.rev path, s)) gs;
    List.iter (fun (t, s') ->
      let k = key s' in
      if not (Hashtbl.mem seen k) then begin Hashtbl.add seen k (); Queue.add (s', t :: path) q end) (succs s)
  done;
  (found, Hashtbl.length seen)

let prog_main args =
  let progs = parse_prog (List.nth args 0) in
  (* legit: every stolen port was leaked (its owner died) -- checked on the program text + progress *)
  let legit (s : st) = List.for_all (fun (t, k) ->
      let t = int_of_nat t and k = int_of_nat k in
      let rec idx i = function [] -> None | Lk j :: _ when j = k -> Some i | _ :: r -> idx (i + 1) r in
      match idx 0 progs.(t) with Some i -> int_of_nat s.ls.(t).opi > i | None -> false) s.g.stolen in
  let gs = goals @ [ { name = "full-legit"; bad = (fun s -> bad_unlink s && legit s) };
                     { name = "stale-attached-legit"; bad = (fun s -> legit s && List.exists (fun u -> match u.u_rm with Some i -> i <> u.u_hinc && u.u_att | None -> false) s.g.unl) } ] in
  let (found, n) = bfs progs gs in
  Printf.printf "EXPLORED prog=%s states=%d\n" (prog_str progs) n;
  List.iter (fun gl -> match Hashtbl.find_opt found gl.name with
    | None -> Printf.printf "GOAL %s none\n" gl.name
    | Some (sch, s) -> Printf.printf "GOAL %s steps=%d sched=%s saw_marked=%b stolen=%d\n" gl.name (List.length sch)
        (String.concat "," (List.map string_of_int sch)) s.g.saw_marked (List.length s.g.stolen)) gs

let explore_main args =
  (* driver explore <maxthreads> <maxops> <alphabet: comma separated op templates> [forced] *)
  let nthreads = int_of_string (List.nth args 0) and maxops = int_of_string (List.nth args 1) in
  let mode = List.nth args 2 in
  (* thread programs: all sequences of length 1..maxops over the alphabet; d/l/ic refer to an earlier create *)
  let base = match mode with
    | "plain" -> [ `Cr (RSend, 0); `Cr (RRecv, 0); `D ]
    | "mismatch" -> [ `Cr (RSend, 0); `Cr (RRecv, 0); `Cr (RSend, 1); `Cr (RRecv, 1); `D ]
    | "forced" -> [ `Cr (RSend, 0); `Cr (RRecv, 0); `D; `L; `F RSend; `F RRecv ]
    | _ -> failwith "mode" in
  let rec seqs n : aop list list =
    if n = 0 then [ [] ] else
      List.concat_map (fun pre ->
        let len = List.length pre in
        let creates = List.filteri (fun _ _ -> true) (List.mapi (fun i o -> (i, o)) pre) |> List.filter (fun (_, o) -> match o with Cr _ -> true | _ -> false) in
        List.concat_map (function
          | `Cr (r, p) -> [ pre @ [ Cr (r, p) ] ]
          | `D -> List.map (fun (i, _) -> pre @ [ Dr i ]) creates
          | `L -> List.map (fun (i, _) -> pre @ [ Lk i ]) creates
          | `F r -> [ pre @ [ Fo r ] ]) base |> List.filter (fun s -> List.length s = len + 1)) (seqs (n - 1)) in
  let all = List.concat_map (fun n -> seqs n) (List.init maxops (fun i -> i + 1)) in
  let all = List.filter (fun p -> match p with Cr _ :: _ | Fo _ :: _ -> true | _ -> false) all in
  let best = Hashtbl.create 8 in
  let nprogs = ref 0 and nstates = ref 0 in
  let rec combos k (acc : aop list list) =
    if k = 0 then begin
      let progs = Array.of_list (List.rev acc) in
      incr nprogs;
      let (found, n) = bfs progs goals in
      nstates := !nstates + n;
      Hashtbl.iter (fun name (sch, s) ->
        let cost = List.length sch in
        match Hashtbl.find_opt best name with
        | Some (c0, _, _, _) when c0 <= cost -> ()
        | _ -> Hashtbl.replace best name (cost, prog_str progs, sch, s)) found
    end else
      List.iter (fun p ->
        (* symmetry: thread programs in non-decreasing order *)
        match acc with
        | prev :: _ when compare prev p > 0 -> ()
        | _ -> combos (k - 1) (p :: acc)) all in
  for nt = 2 to nthreads do combos nt [] done;
  Printf.printf "EXPLORED programs=%d states=%d mode=%s threads<=%d ops<=%d\n" !nprogs !nstates mode nthreads maxops;
  List.iter (fun gl ->
    match Hashtbl.find_opt best gl.name with
    | None -> Printf.printf "GOAL %s none\n" gl.name
    | Some (cost, p, sch, s) ->
      Printf.printf "GOAL %s steps=%d prog=%s sched=%s saw_marked=%b stolen=%d unlinks=[%s]\n" gl.name cost p
        (String.concat "," (List.map string_of_int sch)) s.g.saw_marked (List.length s.g.stolen)
        (String.concat ";" (List.map (fun u -> Printf.sprintf "t%d:h%d:rm%s:st%d:att%b" (int_of_nat u.u_t) (int_of_nat u.u_hinc)
           (match u.u_rm with Some i -> string_of_int (int_of_nat i) | None -> "-") (int_of_n u.u_st) u.u_att) s.g.unl))) goals

(* run one program under one schedule on the model and print its trace (for replay files) *)
let run_main args =
  let progs = parse_prog (List.nth args 0) in
  let sch = List.map int_of_string (split_on ',' (List.nth args 1)) in
  let nt = Array.length progs in
  let s = ref { g = conn_ginit; ls = Array.init nt (fun t -> conn_linit (List.map conv progs.(t))) } in
  let hs = ref [] in
  List.iter (fun t ->
    match conn_step (nat_of_int t) !s.g !s.ls.(t) with
    | None -> Printf.printf "t%d: cannot move\n" t
    | Some ((g', l'), es) ->
      if es <> [] then hs := t :: !hs;
      let ls = Array.copy !s.ls in ls.(t) <- l'; s := { g = g'; ls };
      List.iter (function
        | EAcc (site, b, i, k, _, _, rd, wr, ok) -> Printf.printf "t%d: site %d loc %d:%d %s rd %s wr %s ok %b\n" t (int_of_n site) (int_of_n b) (int_of_n i) (kind_name k) (u64_string_of_n rd) (u64_string_of_n wr) ok
        | ERet c -> Printf.printf "t%d: ret %s\n" t (u64_string_of_n c)) es) sch;
  Printf.printf "HARNESS_SCHED %s\n" (String.concat "," (List.rev_map string_of_int !hs));
  Printf.printf "cur=%s unlinks=[%s] saw_marked=%b stolen=%d\n"
    (match !s.g.cur with Some i -> string_of_int (int_of_nat i) | None -> "-")
    (String.concat ";" (List.map (fun u -> Printf.sprintf "t%d:h%d:rm%s:st%d:att%b:%s" (int_of_nat u.u_t) (int_of_nat u.u_hinc)
       (match u.u_rm with Some i -> string_of_int (int_of_nat i) | None -> "-") (int_of_n u.u_st) u.u_att (if conn_unlink_good u then "good" else "BAD")) !s.g.unl))
    !s.g.saw_marked (List.length !s.g.stolen)

(* observations only (posix_shared_memory runs): C header with the timeline, R lines ignored, F final *)
let oracle_main () =
  let cases = ref 0 and mm = ref 0 and ops = ref 0 in
  let cur = ref None in
  (try while true do
     let line = input_line stdin in
     match split_on ' ' line with
     | "C" :: rest -> incr cases; cur := Some rest
     | "R" :: _ -> incr ops
     | "F" :: rest ->
       (match !cur with
        | Some (_ :: prog :: timeline :: _ as hdr) ->
          (match oracle (parse_prog prog) timeline (match rest with x :: _ -> split_on ',' x | [] -> []) with
           | Some m -> incr mm; Printf.printf "MISMATCH case=%d kind=spec header=[%s] %s class=unexplained\n" !cases (String.concat " " hdr) m
           | None -> ())
        | _ -> ());
       cur := None
     | _ -> ()
   done with End_of_file -> ());
  Printf.printf "SUMMARY cases=%d ops=%d mismatches_model=0 mismatches_spec=%d distinct_nontrivial=%d\n" !cases !ops !mm !cases

let () =
  match Array.to_list Sys.argv with
  | _ :: "oracle" :: _ -> oracle_main ()
  | _ :: "explore" :: rest -> explore_main rest
  | _ :: "run" :: rest -> run_main rest
  | _ :: "prog" :: rest -> prog_main rest
  | _ -> run mk_sys (fun toks -> match toks with a :: b :: _ -> a ^ " " ^ b | _ -> String.concat " " toks)
