(* C10 driver: step model of mpmc::Container (coq/model/Container.v) against the real container
   (G1), plus the property's oracle evaluated on the implementation's own observations.
   Header: C <cap> <program> <dist0> <dist1> <dist2>.  F line: snap,len,again, then t.start.end.code
   per returned operation. *)
open Model
open G1drv

type aop = Add of int * int option | Rem of int * int option | Rec of bool | Upd | Go

let parse_aop s =
  let two s = match String.split_on_char 'k' s with [a; b] -> (int_of_string a, int_of_string b) | _ -> failwith ("op " ^ s) in
  let rest = String.sub s 1 (String.length s - 1) in
  match s.[0] with
  | 'a' -> Add (int_of_string rest, None)
  | 'A' -> let (i, k) = two rest in Add (i, Some k)
  | 'r' -> Rem (int_of_string rest, None)
  | 'R' -> let (i, k) = two rest in Rem (i, Some k)
  | 'x' -> Rec (rest = "1")
  | 'u' -> Upd
  | 'g' -> Go
  | _ -> failwith ("op " ^ s)

let rec int_of_nat = function O -> 0 | S k -> 1 + int_of_nat k

let pccount = Array.make 40 0
let d2_reported = ref 0
let d2_suppressed = ref 0

(* ------------------------------------------------------------------------------------ *)
(* the oracle: no torn, no ghost, notice, exact at quiescence -- on R lines + positions   *)
(* ------------------------------------------------------------------------------------ *)
type idinfo = {
  mutable a_start : int; mutable a_end : int option; mutable a_idx : int option; mutable a_abandoned : bool;
  mutable rm : (int * int option * bool) list;   (* removal attempts: start, end (None = abandoned), by recover *)
}

let digits cap snap = List.init cap (fun i -> (snap lsr (5 * i)) land 31)

(* `orphans`: slots the MODEL (trace-equal so far) marks as abandoned inside the known window of remove():
   index released, generation CAS owed (ghost `orph` of coq/model/Container.v) *)
let oracle cap (progs : aop list array) (orphans : int list) (final : string list) : string option =
  match final with
  | snap :: len :: again :: ops ->
    let nt = Array.length progs in
    let ids : (int, idinfo) Hashtbl.t = Hashtbl.create 16 in
    let info d = match Hashtbl.find_opt ids d with Some x -> x | None ->
      let x = { a_start = max_int; a_end = None; a_idx = None; a_abandoned = false; rm = [] } in Hashtbl.add ids d x; x in
    let rest = Array.map (fun l -> ref l) progs in
    let last_end = Array.make nt 0 in
    let handles = Array.make nt [] in           (* per thread: list of (j, id) alive, in order *)
    let nh = Array.make nt 0 in
    let epoch_ids = Array.make nt [] in         (* ids this thread added (or tried to) under its current owner *)
    let upds = ref [] in                        (* (t, s, e, changed, digits) in completion order *)
    let any_abandoned = ref false in
    (* an operation of thread t that did not return: abandoned (or skipped) *)
    let not_returned t o =
      match o with
      | Add (d, Some _) -> let x = info d in x.a_start <- min x.a_start last_end.(t); x.a_abandoned <- true; any_abandoned := true;
        epoch_ids.(t) <- d :: epoch_ids.(t)
      | Rem (j, Some _) ->
        (match List.assoc_opt j handles.(t) with
         | Some d -> (info d).rm <- (last_end.(t), None, false) :: (info d).rm; any_abandoned := true;
           handles.(t) <- List.remove_assoc j handles.(t)
         | None -> ())
      | _ -> () in
    let returned t s e o res payload =
      (match o with
       | Add (d, _) ->
         let x = info d in x.a_start <- min x.a_start s;
         if res >= 1 && res <= 63 then begin
           x.a_end <- Some e; x.a_idx <- Some (res - 1);
           handles.(t) <- handles.(t) @ [(nh.(t), d)]; nh.(t) <- nh.(t) + 1; epoch_ids.(t) <- d :: epoch_ids.(t) end
       | Rem (j, _) ->
         (match List.assoc_opt j handles.(t) with
          | Some d -> if res <> 2 then (info d).rm <- (s, Some e, false) :: (info d).rm; handles.(t) <- List.remove_assoc j handles.(t)
          | None -> ())
       | Rec p ->
         if p then List.iter (fun d ->
             let x = info d in
             (* entries already removed by a completed remove are not this recover's *)
             if not (List.exists (fun (_, en, byrec) -> en <> None && not byrec) x.rm) then x.rm <- (s, Some e, true) :: x.rm) epoch_ids.(t);
         epoch_ids.(t) <- []; handles.(t) <- []
       | Upd -> upds := (t, s, e, payload land 1 = 1, digits cap (payload lsr 1)) :: !upds);
      last_end.(t) <- e in
    let matches tag arg o = match tag, o with
      | _, Go -> false
      | 1, Add (d, _) -> d = arg | 2, Rem (j, _) -> j = arg | 3, Rec _ -> true | 4, Upd -> true | _ -> false in
    let err = ref None in
    List.iter (fun tok ->
      match String.split_on_char '.' tok with
      | [t; s; e; code] ->
        let t = int_of_string t and s = int_of_string s and e = int_of_string e and code = int_of_string code in
        let tag = code land 7 and payload = code lsr 3 in
        let arg = if tag <= 2 then payload / 128 else 0 and res = if tag <= 2 then payload mod 128 else 0 in
        let rec go () = match !(rest.(t)) with
          | [] -> err := Some ("oracle: return " ^ tok ^ " matches no operation of the program")
          | o :: r -> rest.(t) := r; if matches tag arg o then returned t s e o res payload else (not_returned t o; go ()) in
        go ()
      | _ -> err := Some ("oracle: bad token " ^ tok)) ops;
    Array.iteri (fun t r -> List.iter (not_returned t) !r) rest;
    if !err <> None then !err else begin
      let removed_abandoned x = List.exists (fun (_, en, byrec) -> en = None && not byrec) x.rm in
      (* classes are descriptive only; the ONLY class matched to a known finding is window-orphan: the symptom is
         "a removed entry is still listed", the entry's remove() was abandoned, and the model says it was abandoned
         between the index release and the generation CAS of exactly that slot *)
      let cls d = match Hashtbl.find_opt ids d with
        | Some x when x.a_abandoned -> "crashed-add"
        | Some x when removed_abandoned x -> "crashed-remove-other"
        | _ -> if !any_abandoned then "crash-collateral" else "none" in
      let cls_listed d = match Hashtbl.find_opt ids d with
        | Some x when not x.a_abandoned && removed_abandoned x
                      && (match x.a_idx with Some k -> List.mem k orphans | None -> false) -> "window-orphan"
        | _ -> cls d in
      let bads = ref [] in
      let fail c m = bads := (c, Printf.sprintf "class=%s %s" c m) :: !bads in
      let prev = Array.make nt (List.init cap (fun _ -> 0)) in
      List.iter (fun (t, s, e, changed, dg) ->
        List.iteri (fun i d ->
          if d = 31 then fail (if !any_abandoned then "crashed-add" else "none")
              (Printf.sprintf "torn: update of thread %d [%d,%d] lists slot %d with a payload that fails its self-check (never written / torn)" t s e i)
          else if d <> 0 then begin
            match Hashtbl.find_opt ids d with
            | None -> fail "none" (Printf.sprintf "torn: update of thread %d lists id %d in slot %d which no add ever used" t d i)
            | Some x ->
              if x.a_start >= e then fail (cls d) (Printf.sprintf "torn: update of thread %d [%d,%d] lists id %d before its add started (%d)" t s e d x.a_start);
              (match x.a_idx with Some k when k <> i -> fail (cls d) (Printf.sprintf "torn: id %d was added to slot %d but is listed in slot %d" d k i) | _ -> ());
              List.iter (fun (_, en, _) -> match en with
                | Some en when en < s -> fail (cls_listed d) (Printf.sprintf "ghost: update of thread %d started at %d lists id %d (slot %d) whose removal completed at %d" t s d i en)
                | _ -> ()) x.rm
          end) dg;
        Hashtbl.iter (fun d x ->
          match x.a_end, x.a_idx with
          | Some ae, Some k when ae < s && not (List.exists (fun (rs, _, _) -> rs < e) x.rm) ->
            if List.nth dg k <> d then fail (cls d) (Printf.sprintf "notice: add of id %d (slot %d) completed at %d, update of thread %d [%d,%d] does not list it (lists %d)" d k ae t s e (List.nth dg k))
          | _ -> ()) ids;
        if not changed && dg <> prev.(t) then fail "none" (Printf.sprintf "notice: update of thread %d [%d,%d] returned false but its snapshot differs from the previous one" t s e);
        prev.(t) <- dg) (List.rev !upds);
      (* quiescence *)
      let fd = digits cap (int_of_string snap) in
      List.iteri (fun i d ->
        if d = 31 then fail (if !any_abandoned then "crashed-add" else "none") (Printf.sprintf "exact: at quiescence slot %d lists a payload that fails its self-check" i)
        else if d <> 0 then match Hashtbl.find_opt ids d with
          | None -> fail "none" (Printf.sprintf "exact: at quiescence id %d listed, never added" d)
          | Some x -> if List.exists (fun (_, en, _) -> en <> None) x.rm then fail (cls_listed d) (Printf.sprintf "exact: at quiescence id %d (slot %d) is listed although its removal completed" d i)) fd;
      Hashtbl.iter (fun d x -> match x.a_end, x.a_idx with
        | Some _, Some k when x.rm = [] -> if List.nth fd k <> d then fail (cls d) (Printf.sprintf "exact: at quiescence id %d (slot %d) is registered but not listed (lists %d)" d k (List.nth fd k))
        | _ -> ()) ids;
      if again <> "0" then fail "none" "exact: at quiescence a second refresh reports a change";
      if not !any_abandoned then begin
        let reg = Hashtbl.fold (fun _ x n -> if x.a_end <> None && x.rm = [] then n + 1 else n) ids 0 in
        if string_of_int reg <> len then fail "none" (Printf.sprintf "exact: len() = %s but %d entries are registered" len reg) end;
      (* every failure of the execution was collected: one that is not the known window symptom goes first *)
      let all = List.rev !bads in
      (match List.filter (fun (c, _) -> c <> "window-orphan") all, all with
       | (_, m) :: _, _ -> Some m
       | [], (_, m) :: _ -> Some m
       | [], [] -> None)
    end
  | _ -> Some "oracle: F line too short"

let mk_sys toks =
  match toks with
  | [cap; prog; d0; d1; d2] ->
    let gprogs = Array.of_list (List.map (fun t -> List.map parse_aop (split_on ',' t)) (String.split_on_char '|' prog)) in
    let nmain = Array.map (fun l -> let rec after = function [] -> None | Go :: r -> Some (List.length r) | _ :: r -> after r in after l) gprogs in
    let aprogs = Array.map (List.filter (fun o -> o <> Go)) gprogs in
    let nt = Array.length aprogs in
    let capi = int_of_string cap in
    let fz = function None -> None | Some k -> Some (nat_of_int k) in
    let conv = function
      | Add (d, k) -> c10_add (n_of_int d) (fz k) | Rem (j, k) -> c10_rem (nat_of_int j) (fz k)
      | Rec p -> c10_rec p | Upd -> c10_upd | Go -> failwith "go" in
    let progs = Array.map (List.map conv) aprogs in
    let c = ref (c10_init (n_of_int capi) (n_of_u64_string d0) (n_of_u64_string d1) (n_of_u64_string d2)
                   (fun t -> let i = int_of_nat t in if i < nt then progs.(i) else [])) in
    (* setup prefixes: run the model thread through them before the trace starts *)
    Array.iteri (fun t nm -> match nm with
      | None -> ()
      | Some nm ->
        let rec go fuel =
          let l = snd !c (nat_of_int t) in
          if fuel = 0 then failwith "setup does not terminate"
          else if int_of_nat (c10_prog_len l) <= nm && int_of_n (c10_pc_tag l) = 0 then ()
          else match c10_step1 (nat_of_int t) !c with None -> () | Some (c', _) -> c := c'; go (fuel - 1) in
        go 10000) nmain;
    let step t =
      let rec go () =
        let tag = int_of_n (c10_pc_tag (snd !c (nat_of_int t))) in
        match c10_step1 (nat_of_int t) !c with
        | None -> None
        | Some (c', []) -> c := c'; go ()
        | Some (c', es) -> pccount.(tag) <- pccount.(tag) + 1; c := c'; Some es in go () in
    let finished t =
      let rec go cc = match c10_step1 (nat_of_int t) cc with
        | None -> true
        | Some (c', []) -> go c'
        | Some _ -> false in go !c in
    { nthreads = nt; step; finished;
      final_ok = (fun toks ->
        match toks with
        | s :: l :: a :: _ ->
          let (ms, ml) = c10_final (fst !c) in
          let ms = u64_string_of_n ms and ml = u64_string_of_n ml in
          if ms = s && ml = l && a = "0" then None
          else Some (Printf.sprintf "model snap %s len %s again 0, impl snap %s len %s again %s" ms ml s l a)
        | _ -> Some "short F line");
      spec = (fun _rets final ->
        let orphans = List.concat (List.init nt (fun t -> List.map int_of_n (c10_orph (snd !c (nat_of_int t))))) in
        match oracle capi aprogs orphans final with
        | Some m when String.length m >= 19 && String.sub m 0 19 = "class=window-orphan" ->
          (* the known crash window of remove() and nothing else in this execution: list one per process, count the rest
             (keeps the 200-line window of the check free for anything else) *)
          if !d2_reported < 1 then begin incr d2_reported; Some m end else begin incr d2_suppressed; None end
        | r -> r) }
  | _ -> failwith "unknown case header"

let () =
  run mk_sys (fun toks -> match toks with cap :: prog :: _ -> cap ^ " " ^ prog | _ -> "");
  Array.iteri (fun i n -> Printf.printf "OPCOUNT pc%02d %d\n" i n) pccount;
  Printf.printf "EXTRA window_orphan_failures_not_listed %d\n" !d2_suppressed
