(* Correspondence driver for C06.  Parsing / printing only; all behaviour comes from Model
   (extracted from coq/model/Service.v).

   G3 input (harness/g3/c06):
     C <svc> pat=<p> nodes=<n> def=<defaults>
     O create|open|ooc <node> <req> T=<types> = ok <digest> | err <e> | panic  | ex=<0|1> ls=<st>,<dy>,<tg>|-
     O drop <k> = ok | none | ex=.. ls=..
     O end = ok | ex=.. ls=..
   Every operation is run to completion on the step model (thread = node) and on the sequential
   reference specification; result, does_exist and the directory listing are compared.

   G2 input (tools/checks/C06.py, from libgate traces of REAL processes):
     C g2 pat=<p> T=<ticks> def=<defaults>
     S <thread> create|open|ooc <req> T=<types> | S <thread> drop <k>     command sent to the process
     X <thread> <call> <object> <result>                                  one gated libc call, in execution order
     R <thread> <result text>                                             answer of the process
     F ex=<0|1> ls=<st>,<dy>,<tg>                                         final observation
   The model is stepped with exactly this schedule: each X line is one model step of that thread
   (which must emit the same call); steps without a libc call (registry operations, returns) run
   as soon as they are enabled, as in the real process. *)
open Model

let rec pos_of_int (i : int) : positive =
  if i = 1 then XH else if i land 1 = 0 then XO (pos_of_int (i lsr 1)) else XI (pos_of_int (i lsr 1))
let n_of_int (i : int) : n = if i = 0 then N0 else Npos (pos_of_int i)
let rec int_of_pos = function XH -> 1 | XO p -> 2 * int_of_pos p | XI p -> 2 * int_of_pos p + 1
let int_of_n = function N0 -> 0 | Npos p -> int_of_pos p
let nat_of_int i = let rec go acc i = if i <= 0 then acc else go (S acc) (i - 1) in go O i
let rec int_of_nat = function O -> 0 | S k -> 1 + int_of_nat k
let soi = string_of_int

let pat_of = function "ps" -> PubSub | "ev" -> Event | "rr" -> ReqRes | "bb" -> Blackboard | p -> failwith ("pattern " ^ p)

let err_name (p : pattern) (e : err) : string = match e with
  | DoesNotExist -> "DoesNotExist" | AlreadyExists -> "AlreadyExists" | HangsInCreation -> "HangsInCreation"
  | IsMarkedForDestruction -> "IsMarkedForDestruction" | ExceedsMaxNumberOfNodes -> "ExceedsMaxNumberOfNodes"
  | ServiceInCorruptedState -> "ServiceInCorruptedState" | SystemInFlux -> "SystemInFlux" | InternalFailure -> "InternalFailure"
  | IncompatibleAttributes -> "IncompatibleAttributes"
  | UnableToAcquireTypeDefinition -> "UnableToAcquireTypeDefinition"
  | IncompatibleTypes -> (match p with ReqRes -> "IncompatibleRequestOrResponseType" | Blackboard -> "IncompatibleKeys" | _ -> "IncompatibleTypes")
  | SubscriberBufferMustBeLargerThanHistorySize -> "SubscriberBufferMustBeLargerThanHistorySize"
  | NoEntriesProvided -> "NoEntriesProvided"
  | DoesNotSupportRequestedAmountOfPublishers -> "DoesNotSupportRequestedAmountOfPublishers"
  | DoesNotSupportRequestedAmountOfSubscribers -> "DoesNotSupportRequestedAmountOfSubscribers"
  | DoesNotSupportRequestedMinBufferSize -> "DoesNotSupportRequestedMinBufferSize"
  | DoesNotSupportRequestedMinHistorySize -> "DoesNotSupportRequestedMinHistorySize"
  | DoesNotSupportRequestedMinSubscriberBorrowedSamples -> "DoesNotSupportRequestedMinSubscriberBorrowedSamples"
  | IncompatibleOverflowBehavior -> "IncompatibleOverflowBehavior"
  | DoesNotSupportRequestedAmountOfNodes -> "DoesNotSupportRequestedAmountOfNodes"
  | DoesNotSupportRequestedAmountOfNotifiers -> "DoesNotSupportRequestedAmountOfNotifiers"
  | DoesNotSupportRequestedAmountOfListeners -> "DoesNotSupportRequestedAmountOfListeners"
  | DoesNotSupportRequestedMaxEventId -> "DoesNotSupportRequestedMaxEventId"
  | IncompatibleNotifierCreatedEvent -> "IncompatibleNotifierCreatedEvent"
  | IncompatibleNotifierDroppedEvent -> "IncompatibleNotifierDroppedEvent"
  | IncompatibleNotifierDeadEvent -> "IncompatibleNotifierDeadEvent"
  | IncompatibleDeadline -> "IncompatibleDeadline"
  | IncompatibleOverflowBehaviorForRequests -> "IncompatibleOverflowBehaviorForRequests"
  | IncompatibleOverflowBehaviorForResponses -> "IncompatibleOverflowBehaviorForResponses"
  | IncompatibleBehaviorForFireAndForgetRequests -> "IncompatibleBehaviorForFireAndForgetRequests"
  | DoesNotSupportRequestedAmountOfActiveRequestsPerClient -> "DoesNotSupportRequestedAmountOfActiveRequestsPerClient"
  | DoesNotSupportRequestedAmountOfClientRequestLoans -> "DoesNotSupportRequestedAmountOfClientRequestLoans"
  | DoesNotSupportRequestedAmountOfBorrowedResponsesPerPendingResponse -> "DoesNotSupportRequestedAmountOfBorrowedResponsesPerPendingResponse"
  | DoesNotSupportRequestedResponseBufferSize -> "DoesNotSupportRequestedResponseBufferSize"
  | DoesNotSupportRequestedAmountOfServers -> "DoesNotSupportRequestedAmountOfServers"
  | DoesNotSupportRequestedAmountOfClients -> "DoesNotSupportRequestedAmountOfClients"
  | DoesNotSupportRequestedAmountOfReaders -> "DoesNotSupportRequestedAmountOfReaders"

let show_td d = Printf.sprintf "%d:%d:%d:%d" (int_of_n d.td_variant) (int_of_n d.td_name) (int_of_n d.td_size) (int_of_n d.td_align)
let show_attrs l =
  let l = List.sort compare (List.map (fun (k, v) -> (int_of_n k, int_of_n v)) l) in
  String.concat "+" (List.map (fun (k, v) -> soi k ^ ":" ^ soi v) l)
let digest (c : scfg) =
  Printf.sprintf "v=%s;T=%s;at=%s" (String.concat "," (List.map (fun v -> soi (int_of_n v)) c.c_vals))
    (String.concat "/" (List.map show_td c.c_types)) (show_attrs c.c_attrs)

let show_result (p : pattern) (r : result) : string = match r with
  | ROk (_, c) -> "ok " ^ digest c
  | RErr (SNone, e) -> "err " ^ err_name p e
  | RErr (SOpen, e) -> "err o:" ^ err_name p e
  | RErr (SCreate, e) -> "err c:" ^ err_name p e
  | RPanic -> "panic"
  | RDropped -> "ok"
  | RNoHandle -> "none"

let split c s = List.filter (fun x -> x <> "") (String.split_on_char c s)
let parse_td s = match List.map int_of_string (String.split_on_char ':' s) with
  | [v; n; sz; a] -> { td_variant = n_of_int v; td_name = n_of_int n; td_size = n_of_int sz; td_align = n_of_int a }
  | _ -> failwith ("type detail " ^ s)
let parse_pairs s = List.map (fun kv -> match String.split_on_char ':' kv with
  | [k; v] -> (n_of_int (int_of_string k), n_of_int (int_of_string v)) | _ -> failwith ("pair " ^ kv)) (split '+' s)

let parse_req (p : pattern) (text : string) (ttok : string) : req =
  let vals = ref [] and define = ref [] and require = ref [] and keys = ref [] and ne = ref false and resfail = ref None in
  List.iter (fun part ->
    if part = "ne" then ne := true
    else if part = "dk" then resfail := Some ServiceInCorruptedState
    else if part = "-" then ()
    else match String.index_opt part '=' with
      | None -> failwith ("requirement part " ^ part)
      | Some i ->
        let k = String.sub part 0 i and v = String.sub part (i + 1) (String.length part - i - 1) in
        (match k with
         | "ty" -> if String.length v > 0 && v.[0] = '5' then resfail := Some UnableToAcquireTypeDefinition
         | "v" -> vals := List.map (fun x -> if x = "-" then None else Some (n_of_int (int_of_string x))) (String.split_on_char ',' v)
         | "at" -> define := parse_pairs v
         | "rq" -> require := parse_pairs v
         | "rk" -> keys := List.map (fun x -> n_of_int (int_of_string x)) (split '+' v)
         | _ -> failwith ("requirement key " ^ k))) (split ';' text);
  let types = if String.length ttok <= 2 then [] else List.map parse_td (split '/' (String.sub ttok 2 (String.length ttok - 2))) in
  let nf = List.length (field_table p) in
  let vals = if !vals = [] then List.init nf (fun _ -> None) else !vals in
  { r_pat = p; r_sized = List.for_all (fun d -> int_of_n d.td_variant = 0) types; r_vals = vals; r_types = types;
    r_define = !define; r_require = !require; r_keys = !keys; r_noentries = !ne; r_resfail = !resfail }

let show_call = function
  | CAccess -> "access" | COpenRd -> "open" | COpenExcl -> "creat" | CFstat -> "fstat" | CRead -> "read" | CWrite -> "write"
  | CChmod -> "fchmod" | CStat -> "stat" | CShmOpen -> "shm_open" | CShmCreate -> "shm_creat" | CFtruncate -> "ftruncate"
  | CRemove -> "remove" | CShmUnlink -> "shm_unlink"
let show_cres = function XFail -> "fail" | XOk -> "ok" | XEnoent -> "ENOENT" | XEexist -> "EEXIST" | XInit -> "init" | XFinal -> "final" | XZero -> "zero"

let () =
  let nthreads = 8 in
  let g = ref g_init and ls = Array.make nthreads (l_init []) in
  let sp = ref sp_init in
  let pat = ref PubSub and defs = ref [] and tticks = ref 2000 in
  let tnat = ref (nat_of_int 2000) in
  let dynfault = ref false in
  let params () = { p_T = !tnat; p_defs = (fun _ -> !defs); p_recheck = true; p_own_static = true; p_dynfault = !dynfault } in
  let case_no = ref 0 and op_no = ref 0 and ops_total = ref 0 in
  let mm_model = ref 0 and mm_spec = ref 0 in
  let cur_case = Buffer.create 256 and cur_nontrivial = ref false in
  let seen = Hashtbl.create 100000 and distinct_nontrivial = ref 0 in
  let opcount = Hashtbl.create 64 and extra = Hashtbl.create 64 in
  let bump tbl k = Hashtbl.replace tbl k (1 + try Hashtbl.find tbl k with Not_found -> 0) in
  let dead = ref false in
  let ghandles : int list ref = ref [] in          (* G3: holder thread of every live handle, creation order *)
  let dyn_names : (int * int) list ref = ref [] in  (* G2: model instance -> order of first appearance *)
  let pending_calls : (int, string list) Hashtbl.t = Hashtbl.create 8 in
  let flush_case () =
    if Buffer.length cur_case > 0 then begin
      let key = Digest.string (Buffer.contents cur_case) in
      if !cur_nontrivial && not (Hashtbl.mem seen key) then begin Hashtbl.add seen key (); incr distinct_nontrivial end;
      Buffer.clear cur_case; cur_nontrivial := false
    end in
  let mismatch kind line model impl =
    (if kind = "model" then incr mm_model else incr mm_spec);
    Printf.printf "MISMATCH case=%d op=%d kind=%s line=[%s] model=%s impl=%s\n" !case_no !op_no kind line model impl in
  let kv tok = match String.index_opt tok '=' with
    | Some i -> (String.sub tok 0 i, String.sub tok (i + 1) (String.length tok - i - 1)) | None -> (tok, "") in
  let obj_text o = match o with
    | BStatic -> "static" | BTag -> "tag" | BNodeDir -> "nodedir" | BSvcDir -> "svcdir"
    | BDyn i | BRes i ->
      let i = int_of_nat i in
      let k = (try List.assoc i !dyn_names with Not_found -> let k = List.length !dyn_names in dyn_names := (i, k) :: !dyn_names; k) in
      (match o with BDyn _ -> "dyn" | _ -> "res") ^ soi k in
  (* one model step of thread t; returns the call it made, if any *)
  let step1 t =
    match step (params ()) (nat_of_int t) !g ls.(t) with
    | None -> None
    | Some ((g', l'), evs) ->
      let calls = List.filter_map (function ECall (c, o, r) -> Some (show_call c ^ " " ^ obj_text o ^ " " ^ show_cres r) | _ -> None) evs in
      Some (g', l', calls) in
  let commit t g' l' = g := g'; ls.(t) <- l' in
  let rec run_silent t =
    match step1 t with
    | Some (g', l', []) -> commit t g' l'; run_silent t
    | _ -> () in
  let run_to_completion t =
    let fuel = ref 100000 in
    let rec go () =
      decr fuel;
      if !fuel <= 0 then failwith "model does not terminate" else
      match step1 t with
      | Some (g', l', _) -> commit t g' l'; go ()
      | None -> () in
    go () in
  let last_result t = match List.rev ls.(t).rets with r :: _ -> Some r | [] -> None in
  let listing_text () =
    let ((a, b), c) = listing !g in Printf.sprintf "%d,%d,%d" (int_of_nat a) (int_of_nat b) (int_of_nat c) in
  let reset () =
    g := g_init; Array.fill ls 0 nthreads (l_init []); sp := sp_init; ghandles := []; dyn_names := [];
    Hashtbl.reset pending_calls; dead := false in
  let set_prog t o = let l = ls.(t) in ls.(t) <- { l with prog = [o] } in
  let parse_svc_op kind t reqtext ttok =
    let r = parse_req !pat reqtext ttok in
    (match kind with "create" -> OCreate r | "open" -> OOpen r | "ooc" -> OOoc r | k -> failwith ("op " ^ k)), r in
  (try
    while true do
      let line = input_line stdin in
      let toks = split ' ' line in
      match toks with
      | "C" :: svc :: rest ->
        flush_case (); incr case_no; op_no := 0; reset ();
        let get k = try List.assoc k (List.map kv rest) with Not_found -> failwith ("header lacks " ^ k) in
        pat := pat_of (get "pat");
        defs := List.map (fun x -> n_of_int (int_of_string x)) (split ',' (get "def"));
        tticks := (try int_of_string (get "T") with _ -> 2000); tnat := nat_of_int !tticks;
        dynfault := (try get "fault" = "dyn" with _ -> false);
        Buffer.add_string cur_case (get "pat" ^ " " ^ get "def" ^ "|");
        ignore svc
      | "O" :: rest when not !dead ->
        incr op_no; incr ops_total;
        (* split at "=" and "|" *)
        let rec cut acc = function
          | "=" :: tl -> (List.rev acc, tl)
          | x :: tl -> cut (x :: acc) tl
          | [] -> (List.rev acc, []) in
        let (head, tl) = cut [] rest in
        let rec cut2 acc = function
          | "|" :: tl -> (List.rev acc, tl)
          | x :: tl -> cut2 (x :: acc) tl
          | [] -> (List.rev acc, []) in
        let (obs, suffix) = cut2 [] tl in
        let impl = String.concat " " obs in
        let sfx = List.map kv suffix in
        Buffer.add_string cur_case (String.concat " " head ^ ";");
        let model_res, spec_res =
          (match head with
           | [kind; node; reqtext; ttok] when kind = "create" || kind = "open" || kind = "ooc" ->
             bump opcount kind;
             let t = int_of_string node in
             let (o, r) = parse_svc_op kind t reqtext ttok in
             set_prog t o; run_to_completion t;
             let mr = (match last_result t with Some r -> r | None -> RNoHandle) in
             (match mr with ROk _ -> ghandles := !ghandles @ [t] | _ -> ());
             let (s', sr) = (match kind with
               | "create" -> sp_create !defs !sp (nat_of_int t) r KCreate
               | "open" -> sp_open !sp (nat_of_int t) r KOpen
               | _ -> sp_ooc !defs !sp (nat_of_int t) r) in
             sp := s';
             (show_result !pat mr, show_result !pat sr)
           | ["drop"; k] ->
             bump opcount "drop";
             let k = int_of_string k in
             if k >= List.length !ghandles then ("none", "none")
             else begin
               let t = List.nth !ghandles k in
               let idx = List.length (List.filter (fun x -> x = t) (List.filteri (fun i _ -> i < k) !ghandles)) in
               ghandles := List.filteri (fun i _ -> i <> k) !ghandles;
               set_prog t (ODrop (nat_of_int idx)); run_to_completion t;
               let mr = (match last_result t with Some r -> r | None -> RNoHandle) in
               let (s', sr) = sp_drop !sp (nat_of_int t) in
               sp := s';
               (show_result !pat mr, show_result !pat sr)
             end
           | ["end"] ->
             (* the harness drops what is still held, oldest first *)
             List.iter (fun t -> set_prog t (ODrop O); run_to_completion t; sp := fst (sp_drop !sp (nat_of_int t))) !ghandles;
             ghandles := [];
             ("ok", "ok")
           | _ -> failwith ("operation line: " ^ line)) in
        (match String.split_on_char ' ' impl with
         | "ok" :: _ :: _ -> cur_nontrivial := true
         | _ -> ());
        bump extra (match String.split_on_char ' ' impl with
          | "err" :: e :: _ -> "err_" ^ (String.map (fun c -> if c = ':' then '_' else c) e)
          | x :: _ -> x | [] -> "empty");
        if model_res <> impl then begin mismatch "model" line model_res impl; dead := true end;
        if spec_res <> impl then mismatch "spec" line spec_res impl;
        let ex = (try List.assoc "ex" sfx with Not_found -> "") in
        let mex = if does_exist !g then "1" else "0" in
        if ex <> "" && mex <> ex then begin mismatch "model" line ("ex=" ^ mex) ("ex=" ^ ex); dead := true end;
        let sex = if sp_exists !sp then "1" else "0" in
        if ex <> "" && sex <> ex then mismatch "spec" line ("ex=" ^ sex) ("ex=" ^ ex);
        let liv = (try List.assoc "li" sfx with Not_found -> "") in
        if liv <> "" && liv <> mex then begin mismatch "model" line ("li=" ^ mex) ("li=" ^ liv); dead := true end;
        if liv <> "" && liv <> sex then mismatch "spec" line ("li=" ^ sex) ("li=" ^ liv);
        let lsv = (try List.assoc "ls" sfx with Not_found -> "-") in
        (* a "-" component was not observed *)
        let ls_eq a b = (match String.split_on_char ',' a, String.split_on_char ',' b with
          | [a1; a2; a3], [b1; b2; b3] -> a1 = b1 && (b2 = "-" || a2 = b2) && a3 = b3 | _ -> a = b) in
        if lsv <> "-" && not (ls_eq (listing_text ()) lsv) then begin mismatch "model" line ("ls=" ^ listing_text ()) ("ls=" ^ lsv); dead := true end
      | "O" :: _ -> incr op_no; incr ops_total
      (* ---------------- G2 ---------------- *)
      | "S" :: node :: rest when not !dead ->
        incr op_no; incr ops_total;
        let t = int_of_string node in
        Buffer.add_string cur_case (line ^ ";");
        (match rest with
         | [kind; reqtext; ttok] when kind <> "drop" -> bump opcount kind; set_prog t (fst (parse_svc_op kind t reqtext ttok))
         | ["drop"; k] -> bump opcount "drop"; set_prog t (ODrop (nat_of_int (int_of_string k)))
         | _ -> failwith ("send line: " ^ line));
        run_silent t
      | "X" :: node :: call :: objt :: res :: _ when not !dead ->
        incr ops_total; bump extra "calls";
        let t = int_of_string node in
        let impl = call ^ " " ^ objt ^ " " ^ res in
        Buffer.add_string cur_case (line ^ ";");
        (match step1 t with
         | Some (g', l', [c]) ->
           (* object numbering: the harness numbers dyn/res objects by first appearance, and so do we *)
           if c <> impl then begin mismatch "model" line c impl; dead := true end
           else begin commit t g' l'; run_silent t end
         | Some (_, _, cs) -> mismatch "model" line ("calls:" ^ String.concat "," cs) impl; dead := true
         | None -> mismatch "model" line "thread-has-no-step" impl; dead := true)
      | "R" :: node :: rest when not !dead ->
        let t = int_of_string node in
        let impl = String.concat " " rest in
        cur_nontrivial := true;
        bump extra (match rest with "err" :: e :: _ -> "res_" ^ (String.map (fun c -> if c = ':' then '_' else c) e) | x :: _ -> "res_" ^ x | [] -> "res");
        let m = (match ls.(t).at_pc, ls.(t).prog, last_result t with
          | Idle, [], Some r -> show_result !pat r
          | _ -> "call-still-running") in
        if m <> impl then begin mismatch "model" line m impl; dead := true end
      | "F" :: rest when not !dead ->
        let sfx = List.map kv rest in
        let ex = (try List.assoc "ex" sfx with Not_found -> "") in
        let mex = if does_exist !g then "1" else "0" in
        if ex <> "" && mex <> ex then mismatch "model" line ("ex=" ^ mex) ("ex=" ^ ex);
        let lsv = (try List.assoc "ls" sfx with Not_found -> "-") in
        if lsv <> "-" && lsv <> listing_text () then mismatch "model" line ("ls=" ^ listing_text ()) ("ls=" ^ lsv)
      | "G" :: rest ->
        (* registry sub-protocol: all interleavings of the model's registry steps for a program of the G1 harness
           (harness/g1/c06): threads run acq (OReg ; RIncr) and lrel (DDereg ; DSnap ; DCas) on ONE instance *)
        let get k = try List.assoc k (List.map kv rest) with Not_found -> failwith ("G line lacks " ^ k) in
        let cap = int_of_string (get "cap") and prog = get "prog" in
        let progs = Array.of_list (List.map (fun t -> split ',' t) (String.split_on_char '|' prog)) in
        let nt = Array.length progs in
        let c0 = { c_pat = Blackboard; c_vals = [n_of_int 8; n_of_int cap]; c_types = []; c_attrs = [] } in
        let x0 = { i_cfg = c0; i_owner = O; i_st = SFinal; i_dy = DFinal; i_dy_linked = true; i_res = false;
                   i_locked = false; i_gen = S O; i_members = [] } in
        let g0 = { g_init with insts = [x0]; cur = Some O } in
        let pr = { p_T = O; p_defs = (fun _ -> []); p_recheck = (try get "recheck" <> "0" with _ -> true); p_own_static = true; p_dynfault = false } in
        let outcomes = Hashtbl.create 16 in
        let idle l = (match l.at_pc with Idle -> true | _ -> false) in
        let rec go depth (g : gst) (ls : lst array) (rem : string list array) (res : string list array) =
          let moved = ref (depth > 40) in
          if depth <= 40 then
          for t = 0 to nt - 1 do
            let l = ls.(t) in
            (* load the next operation when the thread is between operations *)
            let l, rem_t, skip =
              if idle l then (match rem.(t) with
                | [] -> (l, [], true)
                | "acq" :: tl -> ({ l with at_pc = OReg (O, false); nreg = O; regi = None }, tl, false)
                | "lrel" :: tl ->
                  if int_of_nat l.nreg = 0 then (l, tl, true)      (* nothing held: the harness prints "-" *)
                  else ({ l with at_pc = DDereg O; nreg = O; regi = None; handles = [] }, tl, false)
                | o :: _ -> failwith ("G op " ^ o))
              else (l, rem.(t), false) in
            if skip && idle l && rem.(t) <> [] && rem_t <> rem.(t) then begin
              (* a release without a held index *)
              moved := true;
              let rem' = Array.copy rem and res' = Array.copy res in
              rem'.(t) <- rem_t; res'.(t) <- res.(t) @ ["-"];
              go (depth + 1) g ls rem' res'
            end else if not skip then begin
              match step pr (nat_of_int t) g l with
              | None -> ()
              | Some ((g', l'), _) ->
                moved := true;
                let ls' = Array.copy ls and rem' = Array.copy rem and res' = Array.copy res in
                rem'.(t) <- rem_t;
                (* did the operation end with this step? *)
                let fin = (match l'.at_pc with
                  | Idle -> (match List.rev l'.rets with
                      | ROk _ :: _ -> Some "ok" | RErr (_, IsMarkedForDestruction) :: _ -> Some "locked"
                      | RErr (_, ExceedsMaxNumberOfNodes) :: _ -> Some "full" | RDropped :: _ -> Some "U" | _ -> Some "?")
                  | DDyChmod _ -> Some "L"
                  | _ -> None) in
                (match fin with
                 | Some r -> res'.(t) <- res.(t) @ [r];
                   ls'.(t) <- { l' with at_pc = Idle; rets = [] }
                 | None -> ls'.(t) <- l');
                go (depth + 1) g' ls' rem' res'
            end
          done;
          if not !moved then
            Hashtbl.replace outcomes (String.concat "|" (Array.to_list (Array.map (String.concat ",") res))) ()
        in
        go 0 g0 (Array.make nt (l_init [])) (Array.copy progs) (Array.make nt []);
        let l = List.sort compare (Hashtbl.fold (fun k () acc -> k :: acc) outcomes []) in
        Printf.printf "GM cap=%d prog=%s outcomes=%s\n" cap prog (String.concat ";" l)
      | ("S" | "X" | "R" | "F") :: _ -> ()
      | [] -> ()
      | _ -> failwith ("unparsable line: " ^ line)
    done
  with End_of_file -> ());
  flush_case ();
  Printf.printf "SUMMARY cases=%d ops=%d mismatches_model=%d mismatches_spec=%d distinct_nontrivial=%d\n"
    !case_no !ops_total !mm_model !mm_spec !distinct_nontrivial;
  Hashtbl.iter (fun k v -> Printf.printf "OPCOUNT %s %d\n" k v) opcount;
  Hashtbl.iter (fun k v -> Printf.printf "EXTRA %s %d\n" k v) extra
