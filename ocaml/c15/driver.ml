(* Correspondence driver for C15: replays the allocator histories that the Rust harness ran
   against the real allocators on the extracted Coq model (kind=model = the tie) and evaluates
   the property oracle (kind=spec: in-bounds, aligned, pairwise disjoint live allocations,
   constructor total, segment large enough, canaries intact) on the implementation's own
   observations.  Parsing / printing only; all behaviour comes from Model (extracted). *)
open Model

(* ---- decimal <-> N (values up to 2^64 do not fit OCaml's int) ---- *)
let rec pos_of_int (i : int) : positive =
  if i = 1 then XH else if i land 1 = 0 then XO (pos_of_int (i lsr 1)) else XI (pos_of_int (i lsr 1))
let n_of_int (i : int) : n = if i = 0 then N0 else Npos (pos_of_int i)
let ten = n_of_int 10
let n_of_string (s : string) : n =
  let acc = ref N0 in
  String.iter (fun c ->
    if c < '0' || c > '9' then failwith ("bad number " ^ s);
    acc := N.add (N.mul !acc ten) (n_of_int (Char.code c - 48))) s;
  !acc
let rec int_of_pos = function XH -> 1 | XO p -> 2 * int_of_pos p | XI p -> 2 * int_of_pos p + 1
let int_of_n = function N0 -> 0 | Npos p -> int_of_pos p
let string_of_n (v : n) : string =
  if v = N0 then "0" else begin
    let b = Buffer.create 20 in
    let cur = ref v in
    let digits = ref [] in
    while !cur <> N0 do
      digits := int_of_n (N.modulo !cur ten) :: !digits;
      cur := N.div !cur ten
    done;
    List.iter (fun d -> Buffer.add_char b (Char.chr (48 + d))) !digits;
    Buffer.contents b
  end

let vbase = n_of_int (1 lsl 20)
let ns = n_of_string
let sn = string_of_n
let lay s a = { lsize = ns s; lalign = ns a }

let err_name = function
  | ESizeIsZero -> "SizeIsZero" | ESizeTooLarge -> "SizeTooLarge" | EAlignmentFailure -> "AlignmentFailure"
  | EOutOfMemory -> "OutOfMemory" | EInternalError -> "InternalError"

let strat_of = function "bestfit" -> BestFit | "pow2" -> PowerOfTwo | "static" -> Static | s -> failwith ("strategy " ^ s)

(* show an allocation result whose address is printed relative to `rel` *)
let show_ares rel = function
  | AOk a -> "ok:" ^ sn (N.sub a rel)
  | AErr e -> "err:" ^ err_name e

type st =
  | SNone
  | SPool of pool * n * n                 (* model, lo, hi (absolute, virtual base) *)
  | SBump of bump * n * n
  | SOne of onechunk * n * n
  | SCalPool of calpool * n * n
  | SCalBump of calbump * n * n
  | SCodec
  | SPubSub
  | SMtd of mtd
  | SDyn of dynmem * view * bool * int     (* model sender, model view, guarded layout, n hint *)
  | SDynPending of (string * string * string * string * string)  (* strat hs ha n base_mod *)
  | SPoolPending of string list
  | SFixedPending of string list
  | SCalPoolPending of string list
  | SCalBumpPending of string list

let split_colon s = String.split_on_char ':' s

let () =
  let st = ref SNone in
  let case_no = ref 0 and op_no = ref 0 and ops_total = ref 0 in
  let mm_model = ref 0 and mm_spec = ref 0 in
  let cur_case = Buffer.create 256 and cur_nontrivial = ref false in
  let seen = Hashtbl.create 100000 in
  let distinct_nontrivial = ref 0 in
  let opcount = Hashtbl.create 64 in
  let extra = Hashtbl.create 16 in
  let bump_extra k = Hashtbl.replace extra k (1 + try Hashtbl.find extra k with Not_found -> 0) in
  (* model_dead: the concrete model diverged (or panicked) -- only the MODEL replay of this case
     stops; the property oracle keeps judging the implementation's observations to the end of
     the case.  impl_dead: the implementation panicked, the harness ended the case. *)
  let model_dead = ref false and impl_dead = ref false in
  let live : live list ref = ref [] in             (* the implementation's live allocations *)
  let live_vals : (string * live) list ref = ref [] in
  let kind_name = ref "?" in
  let params : string list ref = ref [] in
  let cur_line = ref "" in
  (* oracle context, from the case header and the implementation's own `new` observation *)
  let o_lo = ref N0 and o_hi = ref N0 and o_rel = ref N0 in
  let flush_case () =
    if Buffer.length cur_case > 0 then begin
      let key = Digest.string (Buffer.contents cur_case) in
      if !cur_nontrivial && not (Hashtbl.mem seen key) then begin
        Hashtbl.add seen key (); incr distinct_nontrivial end;
      Buffer.clear cur_case; cur_nontrivial := false
    end in
  let stateless () = match !kind_name with "codec" | "mtd" | "pubsub" -> true | _ -> false in
  let mismatch_model om impl =
    incr mm_model;
    Printf.printf "MISMATCH case=%d op=%d kind=model line=[%s] model=%s impl=%s\n" !case_no !op_no !cur_line om impl;
    if not (stateless ()) then model_dead := true in
  let mismatch_spec what impl =
    incr mm_spec;
    Printf.printf "MISMATCH case=%d op=%d kind=spec line=[%s] spec=%s impl=%s\n" !case_no !op_no !cur_line what impl in
  (* a spec failure of one recognisable class (signature) is printed once per run; repeats are
     still counted in mismatches_spec and in EXTRA spec_repeats_suppressed *)
  let sigs = Hashtbl.create 16 in
  let mismatch_spec_sig sg what impl =
    if Hashtbl.mem sigs sg then (incr mm_spec; bump_extra "spec_repeats_suppressed")
    else (Hashtbl.add sigs sg (); mismatch_spec what impl) in
  let cmp om impl = if om <> impl then mismatch_model om impl in
  let after_ok impl = String.sub impl 3 (String.length impl - 3) in
  (* property oracle over the implementation's own live set, w.r.t. the REAL block [lo, hi) *)
  let oracle_alloc (addr : n) (size : n) (al : n) key =
    let x = { lv_addr = addr; lv_size = size; lv_align = al } in
    (* only the new allocation is judged (earlier offenders were reported when they appeared) *)
    if not (live_ok_one !o_lo !o_hi x && live_disjoint_from x !live) then begin
      let why =
        if not (N.eqb (N.modulo addr al) N0) then "misaligned"
        else if not (live_ok_one !o_lo !o_hi x) then "out-of-bounds"
        else "overlap" in
      mismatch_spec "inbounds+aligned+disjoint" why
    end else bump_extra "oracle_live_sets_checked";
    live := x :: !live; live_vals := (key, x) :: !live_vals in
  let oracle_dealloc key =
    match List.assoc_opt key !live_vals with
    | None -> ()
    | Some x ->
      live_vals := List.remove_assoc key !live_vals;
      let removed = ref false in
      live := List.filter (fun y -> if (not !removed) && y == x then (removed := true; false) else true) !live in
  (* clause on `new`: n buckets of the advertised bucket size, starting at the aligned start,
     must fit into the real block: start >= lo, start aligned, start + n * bsize <= hi, and the
     bucket size is at least the configured one *)
  let oracle_new_fits (nb : n) (start : n) (bsize : n) (cfg_bs : n) (cfg_ba : n) impl =
    if nb <> N0 && not (N.leb !o_lo start && N.leb (N.add start (N.mul nb bsize)) !o_hi) then
      mismatch_spec "buckets-fit-into-block" impl
    else if nb <> N0 && (not (N.eqb (N.modulo start cfg_ba) N0) || not (N.leb cfg_bs bsize)) then
      mismatch_spec "start-aligned+bucket-size>=configured" impl
    else bump_extra "oracle_new_fits_checked" in
  (* ------------------------------------------------------------------------------------
     the property oracle: judged on the implementation's observations only *)
  let oracle name (a : int -> string) impl =
    let is_ok = String.length impl >= 3 && String.sub impl 0 3 = "ok:" in
    let p i = List.nth !params i in
    match !kind_name, name with
    | ("pool" | "fixed" | "calpool"), ("canary" | "guard") ->
      if impl <> "1" then mismatch_spec (name ^ "-bytes-intact") impl else bump_extra "oracle_drain_canaries_checked"
    | "pool", "new" when is_ok ->
      (match split_colon impl with
       | ["ok"; nb; start; bsz] -> oracle_new_fits (ns nb) (N.add vbase (ns start)) (ns bsz) (ns (p 0)) (ns (p 1)) impl
       | _ -> ())
    | "fixed", "new" ->
      let bs = ns (p 1) and ba = ns (p 2) in
      let ptr = !o_lo in
      (* c15_fixed_ctor_total: the constructor returns an allocator for every block *)
      if impl = "P" && bs <> N0 && N.leb (align ptr ba) !o_hi then mismatch_spec "ctor-returns" "P";
      (match split_colon impl with
       | ["ok"; nb; bsz] -> oracle_new_fits (ns nb) (align ptr ba) (ns bsz) bs ba impl
       | _ -> ())
    | ("pool" | "fixed"), "alloc" when is_ok ->
      cur_nontrivial := true;
      oracle_alloc (N.add vbase (ns (after_ok impl))) (ns (a 0)) (ns (a 1)) (after_ok impl)
    | ("pool" | "fixed" | "onechunk" | "calpool"), "dealloc" -> oracle_dealloc (a 0)
    | ("bump" | "onechunk"), "alloc" when is_ok ->
      cur_nontrivial := true;
      oracle_alloc (N.add vbase (ns (after_ok impl))) (ns (a 0)) (ns (a 1)) (after_ok impl)
    | "calpool", "new" when is_ok ->
      (match split_colon impl with
       | ["ok"; nb; rel; bsz] ->
         o_rel := ns rel;
         oracle_new_fits (ns nb) (N.add !o_lo (ns rel)) (ns bsz) (ns (p 0)) (ns (p 1)) impl
       | _ -> ())
    | "calpool", "alloc" when is_ok ->
      cur_nontrivial := true;
      (* the pointer the shared memory hands out: payload start + offset *)
      oracle_alloc (N.add (N.add !o_lo !o_rel) (po_offset (ns (after_ok impl)))) (ns (a 0)) (ns (a 1)) (after_ok impl)
    | "calbump", "alloc" when is_ok ->
      cur_nontrivial := true;
      oracle_alloc (N.add !o_lo (po_offset (ns (after_ok impl)))) (ns (a 0)) (ns (a 1)) "-"
    | "calbump", "reset" -> live := []; live_vals := []
    | "codec", "make" ->
      cur_nontrivial := true;
      (* c15_offset_codec: round trip below 2^56 *)
      (match split_colon impl with
       | [_; o; s] ->
         if N.ltb (ns (a 0)) (ns "72057594037927936") && (o <> a 0 || s <> a 1) then mismatch_spec "roundtrip" impl
         else bump_extra "oracle_codec_roundtrips"
       | _ -> mismatch_spec "roundtrip" impl)
    | "codec", "setseg" ->
      (match split_colon impl with
       | [_; o; s] -> if o <> sn (po_offset (ns (a 0))) || s <> a 1 then mismatch_spec "setseg-keeps-offset" impl
       | _ -> mismatch_spec "setseg-keeps-offset" impl)
    | "mtd", "layout" ->
      (* c15_chunk_layout_guard on the implementation's own numbers *)
      (match split_colon impl with
       | [s; al] -> if not (N.eqb (N.modulo (ns s) (ns al)) N0) then mismatch_spec "align-divides-size" impl
                    else bump_extra "oracle_chunk_layouts_checked"
       | _ -> mismatch_spec "align-divides-size" impl)
    | "mtd", "uptr" ->
      if not (N.eqb (N.modulo (N.add vbase (ns impl)) (ns (p 3))) N0) then mismatch_spec "user-header-aligned" impl
    | "mtd", "pptr" ->
      (match !st with
       | SMtd m ->
         if not (N.eqb (N.modulo (N.add vbase (ns impl)) m.m_payload.td_align) N0) then mismatch_spec "payload-aligned" impl;
         (* payload of n elements ends inside the chunk when the chunk start is aligned *)
         let h = ns (a 0) in
         if N.eqb (N.modulo h (mtd_max_alignment m)) N0 then
           List.iter (fun nn ->
             let l = chunk_layout m (n_of_int nn) in
             let pend = N.add (ns impl) (N.mul (align m.m_payload.td_size m.m_payload.td_align) (n_of_int nn)) in
             if not (N.leb pend (N.add h l.lsize)) then mismatch_spec "payload-inside-chunk" impl
             else bump_extra "oracle_payload_fits_checked") [0; 1; 3; 100]
       | _ -> ())
    | "dyn", "cap0" ->
      (* header: kind strat hs ha n base_mod *)
      let hs = ns (p 2) and ha = ns (p 3) and nn = int_of_string (p 4) and bm = ns (p 5) in
      let guarded = N.eqb (N.modulo hs ha) N0 in
      (* c15_segment_enough for the dynamic segment, on the implementation's own number.
         Repeats are suppressed ONLY for the exact preconditions of the recorded finding F18
         (dynamic segment, port-style layout, chunk alignment >= 16, payload start 8-aligned but
         not aligned to the chunk alignment, exactly ONE bucket lost, concrete model agrees);
         every other lost-bucket observation is printed in full. *)
      if guarded then
        (if int_of_string impl < nn then begin
           let f18 = (nn - int_of_string impl = 1) && N.leb (n_of_int 16) ha
                     && N.eqb (N.modulo bm (n_of_int 8)) N0 && not (N.eqb (N.modulo bm ha) N0)
                     && not !model_dead in
           if f18 then mismatch_spec_sig "cap0:f18-preconditions" ("segment0-holds>=" ^ string_of_int nn) impl
           else mismatch_spec ("segment0-holds>=" ^ string_of_int nn) impl
         end else bump_extra "oracle_segment_enough_checked")
    | "dyn", "alloc" when is_ok ->
      cur_nontrivial := true;
      (match split_colon impl with
       | ["ok"; _; aligned] -> if aligned <> "1" then mismatch_spec "payload-aligned" "misaligned" else bump_extra "oracle_dyn_alloc_aligned"
       | _ -> ())
    | "dyn", "dealloc" ->
      (match split_colon impl with
       | ["ok"; c] -> if c <> "1" then mismatch_spec "canary-intact" "corrupted" else bump_extra "oracle_canaries_checked"
       | _ -> ())
    | "dyn", "reg" ->
      (match split_colon impl with
       | ["ok"; c] -> if c <> "1" then mismatch_spec "payload-readable-through-view" "corrupted" else bump_extra "oracle_canaries_checked"
       | _ -> if impl <> "P" then mismatch_spec "live-offset-resolves" impl)
    | "dyn", "unreg" ->
      (match split_colon impl with
       | ["ok"; c] -> if c <> "1" then mismatch_spec "payload-readable-until-release" "corrupted" else bump_extra "oracle_canaries_checked"
       | _ -> ())
    | "dyn", "final" -> if impl <> "1" then mismatch_spec "all-live-canaries-intact" impl
    | "pubsub", ("send" | "recv") ->
      if impl <> "ok:1" then mismatch_spec (name ^ "-ok-aligned-intact") impl
      else (cur_nontrivial := true; bump_extra "oracle_pubsub_samples_checked")
    | "pubsub", "held" -> if impl <> "1" then mismatch_spec "held-samples-intact-across-growth" impl else bump_extra "oracle_pubsub_held_checked"
    | "pubsub", "run" -> if impl <> "ok" then mismatch_spec "scenario-completes" impl
    | _, _ -> () in
  (* ------------------------------------------------------------------------------------
     the concrete model replay (the tie) *)
  let model name (a : int -> string) impl =
    match !st, name with
    | _, ("canary" | "guard") -> ()          (* drain-mode observations: oracle only *)
    | SPoolPending [bs; ba; off; size], "new" ->
      let ptr = N.add vbase (ns off) in
      (match pool_new (lay bs ba) ptr (ns size) with
       | Panic -> cmp "P" impl; model_dead := true
       | Val p ->
         cmp ("ok:" ^ sn p.p_nb ^ ":" ^ sn (N.sub p.p_start vbase) ^ ":" ^ sn p.p_bsize) impl;
         st := SPool (p, ptr, N.add ptr (ns size)))
    | SFixedPending [mx; bs; ba; off; size], "new" ->
      let ptr = N.add vbase (ns off) in
      (match fixed_pool_new (ns mx) N0 (lay bs ba) ptr (ns size) with
       | Panic -> cmp "P" impl; model_dead := true
       | Val p -> cmp ("ok:" ^ sn p.p_nb ^ ":" ^ sn p.p_bsize) impl; st := SPool (p, ptr, N.add ptr (ns size)))
    | SPool (p, lo, hi), "alloc" ->
      let (p', r) = pool_allocate p (lay (a 0) (a 1)) in
      cmp (show_ares vbase r) impl; st := SPool (p', lo, hi)
    | SPool (p, lo, hi), "dealloc" ->
      (match pool_deallocate p (N.add vbase (ns (a 0))) with
       | Panic -> cmp "P" impl; model_dead := true
       | Val p' -> cmp "ok" impl; st := SPool (p', lo, hi))
    | SBump (b, lo, hi), "alloc" ->
      let (b', r) = bump_allocate b (lay (a 0) (a 1)) in
      cmp (show_ares vbase r) impl; st := SBump (b', lo, hi)
    | SBump (b, _, _), "used" -> cmp (sn b.b_pos) impl
    | SOne (o, lo, hi), "alloc" ->
      (match oc_allocate o (lay (a 0) (a 1)) with
       | Panic -> cmp "P" impl; model_dead := true
       | Val (o', r) -> cmp (show_ares vbase r) impl; st := SOne (o', lo, hi))
    | SOne (o, lo, hi), "dealloc" ->
      (match oc_deallocate o (N.add vbase (ns (a 0))) with
       | Panic -> cmp "P" impl; model_dead := true
       | Val o' -> cmp "ok" impl; st := SOne (o', lo, hi))
    | SCalPoolPending [bs; ba; off; size; maxmem], "new" ->
      let ptr = N.add vbase (ns off) in
      (match cal_new (ns maxmem) ptr (ns size) (lay bs ba) with
       | Panic -> cmp "P" impl; model_dead := true
       | Val c ->
         cmp ("ok:" ^ sn c.cp_pool.p_nb ^ ":" ^ sn (cal_relative_start c) ^ ":" ^ sn c.cp_pool.p_bsize) impl;
         st := SCalPool (c, ptr, N.add ptr (ns size)))
    | SCalPool (c, _, _), "init" ->
      cmp (if cal_init_ok c then "ok" else "err") impl; if impl <> "ok" then model_dead := true
    | SCalPool (c, lo, hi), "alloc" ->
      let (c', r) = cal_allocate c (lay (a 0) (a 1)) in
      cmp (show_ares N0 r) impl; st := SCalPool (c', lo, hi)
    | SCalPool (c, lo, hi), "dealloc" ->
      (match cal_deallocate c (ns (a 0)) with
       | Panic -> cmp "P" impl; model_dead := true
       | Val c' -> cmp "ok" impl; st := SCalPool (c', lo, hi))
    | SCalPool (c, _, _), "hint" ->
      let (l, cnt) = cal_resize_hint c (lay (a 0) (a 1)) (strat_of (a 2)) in
      cmp (sn l.lsize ^ ":" ^ sn l.lalign ^ ":" ^ sn (setup_payload_size l cnt)) impl
    | SCalBumpPending [off; size], "new" ->
      let ptr = N.add vbase (ns off) in
      cmp ("ok:" ^ size ^ ":0") impl;
      st := SCalBump (cb_new ptr (ns size), ptr, N.add ptr (ns size))
    | SCalBump (c, lo, hi), "alloc" ->
      let (c', r) = cb_allocate c (lay (a 0) (a 1)) in
      cmp (show_ares N0 r) impl; st := SCalBump (c', lo, hi)
    | SCalBump (c, lo, hi), "reset" -> cmp "ok" impl; st := SCalBump (cb_deallocate c, lo, hi)
    | SCalBump (c, _, _), "hint" -> cmp (sn (cb_resize_hint c (lay (a 0) (a 1)) (strat_of (a 2)))) impl
    | SCodec, "make" ->
      let v = po_make (ns (a 0)) (ns (a 1)) in
      cmp (sn v ^ ":" ^ sn (po_offset v) ^ ":" ^ sn (po_segment v)) impl
    | SCodec, "setseg" ->
      let v = po_set_segment (ns (a 0)) (ns (a 1)) in
      cmp (sn v ^ ":" ^ sn (po_offset v) ^ ":" ^ sn (po_segment v)) impl
    | SCodec, "raw" -> let v = ns (a 0) in cmp (sn (po_offset v) ^ ":" ^ sn (po_segment v)) impl
    | SCodec, "new" -> cmp (sn (po_new (ns (a 0)))) impl
    | SMtd m, "hdrlen" -> cmp (sn (all_headers_len m)) impl; cur_nontrivial := true
    | SMtd m, "maxalign" -> cmp (sn (mtd_max_alignment m)) impl
    | SMtd m, "layout" -> let l = chunk_layout m (ns (a 0)) in cmp (sn l.lsize ^ ":" ^ sn l.lalign) impl
    | SMtd m, "uptr" -> cmp (sn (N.sub (user_header_ptr_from_header m (N.add vbase (ns (a 0)))) vbase)) impl
    | SMtd m, "pptr" -> cmp (sn (N.sub (payload_ptr_from_header m (N.add vbase (ns (a 0)))) vbase)) impl
    | SDynPending (strat, hs, ha, nn, bm), "new" ->
      let base = N.add vbase (ns bm) in
      (match dyn_new (n_of_int 4096) base (strat_of strat) (lay hs ha) (ns nn) with
       | Panic -> cmp "P" impl; model_dead := true
       | Val None -> cmp "err" impl; model_dead := true
       | Val (Some d) -> cmp "ok" impl; st := SDyn (d, view_new, true, int_of_string nn))
    | SDyn (d, _, _, nn), "cap0" ->
      (match alookup N0 d.d_segs with
       | Some sg -> cmp (sn (N.min sg.s_cal.cp_pool.p_nb (n_of_int (nn + 2)))) impl
       | None -> mismatch_model "no-seg0" impl)
    | SDyn (d, v, g, nn), "alloc" ->
      (match dyn_allocate d (lay (a 0) (a 1)) with
       | DPanic -> cmp "P" impl; model_dead := true
       | DOutOfFuel -> mismatch_model "OutOfFuel" impl
       | DVal (d', AErr e) -> cmp ("err:" ^ err_name e) impl; st := SDyn (d', v, g, nn)
       | DVal (d', AOk off) ->
         (match split_colon impl with
          | ["ok"; value; _] -> if value <> sn off then mismatch_model ("ok:" ^ sn off) impl
          | _ -> mismatch_model ("ok:" ^ sn off) impl);
         st := SDyn (d', v, g, nn))
    | SDyn (d, v, g, nn), "dealloc" ->
      (match dyn_deallocate d (ns (a 0)) with
       | Panic -> cmp "P" impl; model_dead := true
       | Val d' ->
         (match split_colon impl with ["ok"; _] -> () | _ -> mismatch_model "ok" impl);
         st := SDyn (d', v, g, nn))
    | SDyn (d, v, g, nn), "reg" ->
      let (v', r) = view_register (fun id -> match alookup id d.d_segs with Some _ -> true | None -> false) v (ns (a 0)) in
      (match r with
       | None -> cmp "err" impl
       | Some (id, off) ->
         (* the view resolves to (segment id, offset) of the offset the sender produced *)
         if not (N.eqb id (po_segment (ns (a 0))) && N.eqb off (po_offset (ns (a 0)))) then mismatch_model "resolve" impl;
         (match split_colon impl with ["ok"; _] -> () | _ -> mismatch_model "ok" impl));
      st := SDyn (d, v', g, nn)
    | SDyn (d, v, g, nn), "unreg" ->
      (match split_colon impl with ["ok"; _] -> () | _ -> mismatch_model "ok" impl);
      st := SDyn (d, view_unregister v (ns (a 0)), g, nn)
    | SDyn (d, v, _, _), "nsegs" -> cmp (sn (dyn_nsegs d) ^ ":" ^ sn (view_nsegs v)) impl
    | SDyn _, "final" -> ()
    | SPubSub, _ -> ()
    | _, _ -> mismatch_model "unexpected-op" impl in
  (try
    while true do
      let line = input_line stdin in
      cur_line := line;
      let toks = List.filter (fun s -> s <> "") (String.split_on_char ' ' line) in
      match toks with
      | "C" :: kind :: ps ->
        flush_case (); incr case_no; op_no := 0; model_dead := false; impl_dead := false; live := []; live_vals := [];
        kind_name := kind; params := ps; o_rel := N0;
        Buffer.add_string cur_case (line ^ "|");
        (* the real block [lo, hi) known to the harness, at the virtual base *)
        let set_block off size = o_lo := N.add vbase (ns off); o_hi := N.add !o_lo (ns size) in
        (match kind, ps with
         | "pool", [_; _; off; size] -> set_block off size; st := SPoolPending ps
         | "fixed", [_; _; _; off; size] -> set_block off size; st := SFixedPending ps
         | "bump", [off; size] ->
           set_block off size; st := SBump (bump_new !o_lo (ns size), !o_lo, !o_hi)
         | "onechunk", [off; size] ->
           set_block off size; st := SOne (oc_new !o_lo (ns size), !o_lo, !o_hi)
         | "calpool", [_; _; off; size; _] -> set_block off size; st := SCalPoolPending ps
         | "calbump", [off; size] -> set_block off size; st := SCalBumpPending ps
         | "codec", _ -> st := SCodec
         | "pubsub", _ -> st := SPubSub
         | "mtd", [hs; ha; us; ua; ps'; pa] ->
           st := SMtd { m_header = { td_size = ns hs; td_align = ns ha }; m_uheader = { td_size = ns us; td_align = ns ua };
                        m_payload = { td_size = ns ps'; td_align = ns pa } }
         | "dyn", [_; strat; hs; ha; nn; bm] -> st := SDynPending (strat, hs, ha, nn, bm)
         | _ -> failwith ("unknown case " ^ line))
      | "O" :: name :: rest ->
        incr op_no; incr ops_total;
        let rec split acc = function "=" :: r -> (List.rev acc, r) | x :: r -> split (x :: acc) r | [] -> (List.rev acc, []) in
        let (args, obs) = split [] rest in
        let impl = match obs with o :: _ -> o | [] -> "?" in
        Buffer.add_string cur_case (name ^ " " ^ String.concat " " args ^ ";");
        let k = !kind_name ^ "." ^ name in
        Hashtbl.replace opcount k (1 + try Hashtbl.find opcount k with Not_found -> 0);
        let a i = List.nth args i in
        if not !impl_dead then begin
          (* dyn cap0: the model is replayed first so that the oracle knows whether it agreed *)
          if !kind_name = "dyn" && name = "cap0" then begin
            if not !model_dead then model name a impl;
            oracle name a impl
          end else begin
            oracle name a impl;
            if not !model_dead then model name a impl
          end
        end;
        if impl = "P" then impl_dead := true
      | [] -> ()
      | _ -> failwith ("bad line: " ^ line)
    done
  with End_of_file -> ());
  flush_case ();
  Printf.printf "SUMMARY cases=%d ops=%d mismatches_model=%d mismatches_spec=%d distinct_nontrivial=%d\n"
    !case_no !ops_total !mm_model !mm_spec !distinct_nontrivial;
  Hashtbl.iter (fun k v -> Printf.printf "OPCOUNT %s %d\n" k v) opcount;
  Hashtbl.iter (fun k v -> Printf.printf "EXTRA %s %d\n" k v) extra
