(* Correspondence driver for C19: replays the constructor / mutator / naming-scheme
   operations that the Rust harness ran against the real name types on the extracted Coq
   model (kind=model: the transcription, the tie) and on the extracted reference spec
   (kind=spec: the documented rules, the oracle of the property) and reports every
   difference.  Parsing / printing only; all behaviour comes from Model (extracted).
   At most LIMIT mismatch lines are printed per (kind, type, op, model/spec result,
   impl result) class; all are counted. *)
open Model

let limit = 3

let rec pos_of_int (i : int) : positive =
  if i = 1 then XH else if i land 1 = 0 then XO (pos_of_int (i lsr 1)) else XI (pos_of_int (i lsr 1))
let n_of_int (i : int) : n = if i = 0 then N0 else Npos (pos_of_int i)
let rec int_of_pos = function XH -> 1 | XO p -> 2 * int_of_pos p | XI p -> 2 * int_of_pos p + 1
let int_of_n = function N0 -> 0 | Npos p -> int_of_pos p
let rec nat_of_int (i : int) : nat = if i <= 0 then O else S (nat_of_int (i - 1))
let bytes_tbl = Array.init 256 n_of_int
let nat_tbl = Array.init 600 (fun _ -> O)
let () = for i = 1 to 599 do nat_tbl.(i) <- S nat_tbl.(i - 1) done
let nat_of_int i = if i >= 0 && i < 600 then nat_tbl.(i) else nat_of_int i

let hexval c = match c with '0' .. '9' -> Char.code c - 48 | 'a' .. 'f' -> Char.code c - 87 | _ -> failwith "bad hex"
let unhex (s : string) : str =
  if s = "-" then [] else begin
    let l = String.length s / 2 in
    let rec go i acc = if i < 0 then acc else go (i - 1) (bytes_tbl.(hexval s.[2 * i] * 16 + hexval s.[2 * i + 1]) :: acc) in
    go (l - 1) [] end
let hex (l : str) : string =
  match l with [] -> "-" | _ ->
    let b = Buffer.create 32 in
    List.iter (fun c -> Buffer.add_string b (Printf.sprintf "%02x" (int_of_n c))) l; Buffer.contents b

(* big decimal <-> n (port ids are u128): via string arithmetic on the model's own parser/printer is
   circular, so use a tiny schoolbook conversion here *)
let n_of_decimal (s : string) : n =
  (* acc*10 + d using Model.N operations *)
  let ten = n_of_int 10 in
  let acc = ref N0 in
  String.iter (fun c -> acc := N.add (N.mul !acc ten) (n_of_int (Char.code c - 48))) s; !acc
let decimal_of_n (v : n) : string =
  let ten = n_of_int 10 in
  let rec go v acc = let q = N.div v ten and r = N.modulo v ten in
    let acc = string_of_int (int_of_n r) ^ acc in if q = N0 then acc else go q acc in
  go v ""

let err_s = function InvalidContent -> "eC" | ExceedsMaximumLength -> "eL"
let obs_s = function
  | ObUnit -> "u" | ObOptByte None -> "n" | ObOptByte (Some c) -> "s" ^ string_of_int (int_of_n c)
  | ObBool true -> "b1" | ObBool false -> "b0" | ObErr e -> err_s e
let new_s = function Val (Inl s) -> "ok:" ^ hex s | Val (Inr e) -> err_s e | Panic -> "P"
let apply_s cur = function Val (s, o) -> obs_s o ^ "/" ^ hex s | Panic -> "P/" ^ hex cur
let optstr_s = function Val None -> "n" | Val (Some s) -> "s:" ^ hex s | Panic -> "P"

(* spec agreement: equal, or both are errors with the same value afterwards and the error
   kinds agree in the sense of Model.semerr_agree (spec side first) *)
let err_of = function "eC" -> Some InvalidContent | "eL" -> Some ExceedsMaximumLength | _ -> None
let split_slash s = match String.index_opt s '/' with Some i -> (String.sub s 0 i, String.sub s i (String.length s - i)) | None -> (s, "")
let spec_agrees (spec : string) (impl : string) : bool =
  spec = impl ||
  (let (se, sv) = split_slash spec and (ie, iv) = split_slash impl in
   sv = iv && (match err_of se, err_of ie with Some a, Some b -> semerr_agree a b | _ -> false))

let ty_of = function
  | "fn" -> TFileName | "path" -> TPath | "fpath" -> TFilePath | "b64" -> TBase64Url
  | "user" -> TUserName | "group" -> TGroupName
  | "rfn2" -> TRestricted (nat_of_int 2) | "rfn3" -> TRestricted (nat_of_int 3) | "rfn5" -> TRestricted (nat_of_int 5)
  | t -> failwith ("unknown type " ^ t)

let parse_op name (a : string list) : sop =
  let i k = int_of_string (List.nth a k) in
  match name with
  | "push" -> OpPush bytes_tbl.(i 0)
  | "pushb" -> OpPushBytes (unhex (List.nth a 0))
  | "ins" -> OpInsert (nat_of_int (i 0), bytes_tbl.(i 1))
  | "insb" -> OpInsertBytes (nat_of_int (i 0), unhex (List.nth a 1))
  | "pop" -> OpPop
  | "rem" -> OpRemove (nat_of_int (i 0))
  | "remr" -> OpRemoveRange (nat_of_int (i 0), nat_of_int (i 1))
  | "ret" -> OpRetain (match List.nth a 0 with
      | "eq" -> RpEq bytes_tbl.(i 1) | "lt" -> RpLt bytes_tbl.(i 1) | "ge" -> RpGe bytes_tbl.(i 1)
      | "all" -> RpAll | "none" -> RpNone | p -> failwith ("unknown predicate " ^ p))
  | "stripp" -> OpStripPrefix (unhex (List.nth a 0))
  | "strips" -> OpStripSuffix (unhex (List.nth a 0))
  | "trunc" -> OpTruncate (nat_of_int (i 0))
  | _ -> failwith ("unknown op " ^ name)

let str_spec_new (rules : str -> bool) (cap : int) (b : str) : string =
  if not (utf8_valid b) then "U"
  else if rules b then "ok:" ^ hex b
  else if List.length b > cap then "eL" else "eC"
let str_model_new f b = match f b with None -> "U" | Some r -> new_s r

type case = CNone | CNew of string | CMut of bool * string * ty * str ref | CFun

let () =
  let st = ref CNone in
  let case_no = ref 0 and op_no = ref 0 and ops_total = ref 0 in
  let mm_model = ref 0 and mm_spec = ref 0 in
  let classes : (string, int) Hashtbl.t = Hashtbl.create 256 in
  let seen = Hashtbl.create 100000 in
  let distinct_nontrivial = ref 0 in
  let opcount = Hashtbl.create 64 in
  let extra = Hashtbl.create 16 in
  let bump tbl k = Hashtbl.replace tbl k (1 + try Hashtbl.find tbl k with Not_found -> 0) in
  let report ?(tag="") kind tyname opname line expect impl =
    (if kind = "model" then incr mm_model else incr mm_spec);
    let short s = if String.length s > 12 then String.sub s 0 12 else s in
    let head s = let s = fst (split_slash s) in
      if String.length s > 2 && String.sub s 0 3 = "ok:" then "ok" else if String.length s > 1 && String.sub s 0 2 = "s:" then "some"
      else if opname = "listf" || opname = "pathfor" || opname = "norm" || opname = "entries" || opname = "fname" || opname = "fpath" then (if s = "P" then "P" else "val") else short s in
    let cls = kind ^ "|" ^ tyname ^ "|" ^ opname ^ "|" ^ head expect ^ "|" ^ head impl ^ "|" ^ (if tag = "" then "-" else tag) in
    bump classes cls;
    if Hashtbl.find classes cls <= limit then
      (let cut s = if String.length s > 400 then String.sub s 0 400 ^ "..." else s in
      Printf.printf "MISMATCH case=%d op=%d kind=%s class=%s line=[%s] %s=%s impl=%s\n" !case_no !op_no kind (if tag = "" then "-" else tag) (cut line) kind (cut expect) (cut impl)) in
  (try
    while true do
      let line = input_line stdin in
      let toks = List.filter (fun s -> s <> "") (String.split_on_char ' ' line) in
      match toks with
      | "C" :: kind :: rest ->
        incr case_no; op_no := 0;
        (match kind, rest with
         | "new", [t] -> st := CNew t
         | "mut1", [t; base] -> st := CMut (true, t, ty_of t, ref (unhex base))
         | "mutseq", [t; base] -> st := CMut (false, t, ty_of t, ref (unhex base))
         | "fun", _ | "iso", _ -> st := CFun
         | _ -> failwith ("bad case line: " ^ line))
      | "O" :: name :: rest ->
        incr op_no; incr ops_total;
        let rec split acc = function "=" :: r -> (List.rev acc, r) | x :: r -> split (x :: acc) r | [] -> (List.rev acc, []) in
        let (args, obs) = split [] rest in
        let impl = match obs with o :: _ -> o | [] -> "?" in
        let arg k = unhex (List.nth args k) in
        let check ?(tag=(fun () -> "unclassified")) tyname model spec =
          (match model with Some m when m <> impl -> report "model" tyname name line m impl | _ -> ());
          (match spec with Some s when not (spec_agrees s impl) -> report ~tag:(tag ()) "spec" tyname name line s impl | _ -> ()) in
        (match !st with
         | CNew t ->
           bump opcount (t ^ ".new");
           let b = arg 0 in
           let key = t ^ ":" ^ List.nth args 0 in
           if not (Hashtbl.mem seen key) then begin Hashtbl.add seen key ();
             if String.length impl > 2 && String.sub impl 0 3 = "ok:" then incr distinct_nontrivial end;
           bump extra (if String.length impl > 2 && String.sub impl 0 3 = "ok:" then "accepted" else "rejected");
           (match t with
            | "svc" -> check t (Some (str_model_new service_name_new b)) (Some (str_spec_new service_name_rules 255 b))
            | "node" -> check t (Some (str_model_new node_name_new b)) (Some (str_spec_new node_name_rules 128 b))
            | _ -> let ty = ty_of t in
              check t (Some (new_s (sem_new (sty_of ty) b))) (Some (new_s (spec_new ty b))))
         | CMut (fresh, t, ty, cur) ->
           bump opcount (t ^ "." ^ name);
           let o = parse_op name args in
           let m = apply_s !cur (sem_apply (sty_of ty) !cur o) in
           let s = apply_s !cur (spec_apply ty !cur o) in
           check t (Some m) (Some s);
           let (r, after) = split_slash impl in
           bump extra (match r with "eC" | "eL" -> "mut_rejected" | "P" -> "mut_panicked" | _ -> "mut_accepted");
           let key = t ^ ":" ^ hex !cur ^ ":" ^ name ^ String.concat " " args in
           if not (Hashtbl.mem seen key) then begin Hashtbl.add seen key (); incr distinct_nontrivial end;
           (* sequential cases continue from the value the implementation really holds *)
           if not fresh && String.length after > 1 then cur := unhex (String.sub after 1 (String.length after - 1))
         | CFun ->
           bump opcount ("fun." ^ name);
           let cfg () = { prefix = arg 0; suffix = arg 1; path_hint = arg 2 } in
           (match name with
            | "norm" -> check "path" (Some (hex (path_normalize (arg 0)))) None
            | "entries" -> check "path" (Some (match path_entries (arg 0) with [] -> "[]" | l -> String.concat "," (List.map hex l))) None
            | "isabs" -> check "path" (Some (if path_is_absolute (arg 0) then "b1" else "b0")) None
            | "addentry" ->
              let m = match path_add_path_entry (arg 0) (arg 1) with
                | Val (s, Inl _) -> "u/" ^ hex s | Val (s, Inr e) -> err_s e ^ "/" ^ hex s | Panic -> "P/" ^ hex (arg 0) in
              check "path" (Some m) (Some (apply_s (arg 0) (spec_add_path_entry (arg 0) (arg 1))))
            | "fname" -> check "fpath" (Some (hex (fp_file_name (arg 0)))) (Some (hex (last_component (arg 0))))
            | "fpath" -> check "fpath" (Some (hex (fp_path (arg 0)))) None
            | "frompf" -> check "fpath" (Some (new_s (fp_from_path_and_file (arg 0) (arg 1)))) (Some (new_s (spec_from_path_and_file (arg 0) (arg 1))))
            | "pathfor" -> let c = cfg () in
              let r = function Val s -> hex s | Panic -> "P" in
              check "cfg" (Some (r (nc_path_for c (arg 3)))) (Some (r (spec_path_for c (arg 3))))
            | "extractf" -> let c = cfg () in
              check "cfg" (Some (optstr_s (nc_extract_name_from_file c (arg 3)))) (Some (optstr_s (spec_extract_name_from_file c (arg 3))));
              bump extra (match impl with "n" -> "extract_none" | "P" -> "extract_panic" | _ -> "extract_some")
            | "extractp" -> let c = cfg () in
              check "cfg" (Some (optstr_s (nc_extract_name_from_path c (arg 3)))) (Some (optstr_s (spec_extract_name_from_path c (arg 3))))
            | "conn" ->
              let m = hex (connection_name (n_of_decimal (List.nth args 0)) (n_of_decimal (List.nth args 1))) in
              check "conn" (Some m) None
            | "exs" | "exr" ->
              let f = if name = "exs" then extract_sender_port_id else extract_receiver_port_id in
              let m = match f (arg 0) with None -> "n" | Some v -> "s" ^ decimal_of_n v in
              check "conn" (Some m) None
            | "listf" ->
              let c = cfg () in
              let unlist s = if s = "[]" then [] else List.map unhex (String.split_on_char ',' s) in
              let files = unlist (List.nth args 3) in
              let collect f =
                let rec go acc = function
                  | [] -> let l = List.sort compare (List.map hex acc) in (match l with [] -> "[]" | _ -> String.concat "," l)
                  | x :: r -> (match f c x with Panic -> "P" | Val None -> go acc r | Val (Some n) -> go (n :: acc) r) in
                go [] files in
              (* model: extract_name_from_file over the directory content; spec (isolation): exactly the own names *)
              (* a listing that differs from the own names is the known isolation finding only when the
                 other configuration's prefix and ours are prefixes of one another (Coq: prefix_related) *)
              let others = unlist (List.nth args 5) in
              let own = unlist (List.nth args 4) in
              let join l = match List.sort compare (List.map hex l) with [] -> "[]" | l -> String.concat "," l in
              let model_s = collect nc_extract_name_from_file in
              (* A known-finding tag is given ONLY when the exact preconditions of that finding hold and
                 the whole listing is what the finding's mechanism predicts (and the model explains it):
                 - unchecked-name: some own name is rejected by FileName::new (rules_of TFileName) and the
                   listing is exactly the own names that FileName::new accepts (nothing else missing, no surplus);
                 - isolation-prefix-of-prefix: every own name is valid and listed, the listing is exactly the
                   spec extraction over the directory, and every surplus name comes from a file that starts with
                   the prefix q of another configuration with q <> ours and prefix_related ours q (Coq).
                 Everything else is unclassified, i.e. a fresh violation. *)
              let tag () =
                if impl = "P" || impl <> model_s then "unclassified" else begin
                  let valid_own = List.filter (fun n -> rules_of TFileName n) own in
                  let has_invalid = List.length valid_own <> List.length own in
                  if has_invalid then (if impl = join valid_own then "unchecked-name" else "unclassified")
                  else begin
                    let spec_s = collect spec_extract_name_from_file in
                    let surplus_files = List.filter (fun f -> match spec_extract_name_from_file c f with
                        | Val (Some n) -> not (List.mem n own) | _ -> false) files in
                    let explained f = List.exists (fun q -> q <> c.prefix && prefix_related c.prefix q && starts_with q f) others in
                    let own_listed = List.for_all (fun n -> List.exists (fun f -> spec_extract_name_from_file c f = Val (Some n)) files) own in
                    if impl = spec_s && own_listed && surplus_files <> [] && List.for_all explained surplus_files
                    then "isolation-prefix-of-prefix" else "unclassified"
                  end
                end in
              check ~tag "cfg" (Some (collect nc_extract_name_from_file)) (Some (List.nth args 4))
            | "note" -> ()
            | _ -> failwith ("unknown fun op " ^ name));
           let key = line in
           if not (Hashtbl.mem seen key) then begin Hashtbl.add seen key (); incr distinct_nontrivial end
         | CNone -> failwith "op before case")
      | [] -> ()
      | "ISO" :: _ -> ()
      | _ -> failwith ("bad line: " ^ line)
    done
  with End_of_file -> ());
  Printf.printf "SUMMARY cases=%d ops=%d mismatches_model=%d mismatches_spec=%d distinct_nontrivial=%d\n"
    !case_no !ops_total !mm_model !mm_spec !distinct_nontrivial;
  Hashtbl.iter (fun k v -> Printf.printf "OPCOUNT %s %d\n" k v) opcount;
  Hashtbl.iter (fun k v -> Printf.printf "EXTRA %s %d\n" k v) extra;
  Hashtbl.iter (fun k v -> Printf.printf "EXTRA class:%s %d\n" (String.map (fun c -> if c = ' ' then '_' else c) k) v) classes
