(* Correspondence driver for C16: replays the operation histories that the Rust harness ran
   against the real containers on the extracted Coq models (concrete model = the tie,
   reference spec = the oracle of the property) and reports every difference.
   Parsing / printing only; all behaviour comes from Model (extracted). *)
open Model

let rec pos_of_int (i : int) : positive =
  if i = 1 then XH else if i land 1 = 0 then XO (pos_of_int (i lsr 1)) else XI (pos_of_int (i lsr 1))
let n_of_int (i : int) : n = if i = 0 then N0 else Npos (pos_of_int i)
let rec int_of_pos = function XH -> 1 | XO p -> 2 * int_of_pos p | XI p -> 2 * int_of_pos p + 1
let int_of_n = function N0 -> 0 | Npos p -> int_of_pos p

let show_obs = function
  | OBool true -> "b1" | OBool false -> "b0"
  | OOpt None -> "n" | OOpt (Some v) -> "s" ^ string_of_int (int_of_n v)
  | ONum v -> "u" ^ string_of_int (int_of_n v)
  | OList l -> "l" ^ String.concat "," (List.map (fun v -> string_of_int (int_of_n v)) l)
  | OPanic -> "P"

type st =
  | SNone
  | SQueue of rq * sq

let parse_qop name args =
  let a k = n_of_int (int_of_string (List.nth args k)) in
  match name with
  | "push" -> QPush (a 0) | "pusho" -> QPushOverflow (a 0) | "pop" -> QPop | "peek" -> QPeek
  | "get" -> QGet (a 0) | "clear" | "drop" -> QClear | "len" -> QLen
  | _ -> failwith ("unknown queue op " ^ name)

let () =
  let st = ref SNone in
  let case_no = ref 0 and op_no = ref 0 and ops_total = ref 0 in
  let mm_model = ref 0 and mm_spec = ref 0 in
  let cur_case = Buffer.create 256 and cur_nontrivial = ref false in
  let seen = Hashtbl.create 100000 in
  let distinct_nontrivial = ref 0 in
  let opcount = Hashtbl.create 64 in
  let dead = ref false in
  let flush_case () =
    if Buffer.length cur_case > 0 then begin
      let key = Digest.string (Buffer.contents cur_case) in
      if !cur_nontrivial && not (Hashtbl.mem seen key) then begin
        Hashtbl.add seen key (); incr distinct_nontrivial end;
      Buffer.clear cur_case; cur_nontrivial := false
    end in
  (try
    while true do
      let line = input_line stdin in
      let toks = List.filter (fun s -> s <> "") (String.split_on_char ' ' line) in
      match toks with
      | "C" :: kind :: flavour :: elk :: cap :: _ ->
        flush_case (); incr case_no; op_no := 0; dead := false;
        (* the case key deliberately excludes the storage flavour: distinct = distinct histories *)
        Buffer.add_string cur_case (kind ^ " " ^ cap ^ "|");
        let c = n_of_int (int_of_string cap) in
        (match kind with
         | "queue" -> st := SQueue (rq_new c, sq_new c)
         | _ -> failwith ("unknown container " ^ kind))
      | "O" :: name :: rest ->
        incr op_no; incr ops_total;
        let rec split acc = function "=" :: r -> (List.rev acc, r) | x :: r -> split (x :: acc) r | [] -> (List.rev acc, []) in
        let (args, obs) = split [] rest in
        let impl = match obs with o :: _ -> o | [] -> "?" in
        Buffer.add_string cur_case (name ^ " " ^ String.concat " " args ^ ";");
        let k = (match !st with SQueue _ -> "queue." | SNone -> "?.") ^ name in
        Hashtbl.replace opcount k (1 + try Hashtbl.find opcount k with Not_found -> 0);
        if not !dead then begin
          match !st with
          | SQueue (q, s) ->
            let o = parse_qop name args in
            let (q', om) = rq_step q o in
            let (s', os) = sq_step s o in
            let om = show_obs om and os = show_obs os in
            if om <> impl then begin
              incr mm_model;
              Printf.printf "MISMATCH case=%d op=%d kind=model line=[%s] model=%s impl=%s\n" !case_no !op_no line om impl end;
            if os <> impl then begin
              incr mm_spec;
              Printf.printf "MISMATCH case=%d op=%d kind=spec line=[%s] spec=%s impl=%s\n" !case_no !op_no line os impl end;
            if impl = "b1" || (String.length impl > 1 && impl.[0] = 's') then cur_nontrivial := true;
            if impl = "P" || om <> impl then dead := true;
            st := SQueue (q', s')
          | SNone -> failwith "op before case"
        end
      | [] -> ()
      | _ -> failwith ("bad line: " ^ line)
    done
  with End_of_file -> ());
  flush_case ();
  Printf.printf "SUMMARY cases=%d ops=%d mismatches_model=%d mismatches_spec=%d distinct_nontrivial=%d\n"
    !case_no !ops_total !mm_model !mm_spec !distinct_nontrivial;
  Hashtbl.iter (fun k v -> Printf.printf "OPCOUNT %s %d\n" k v) opcount
