(* Correspondence driver for C16: replays the operation histories that the Rust harness ran
   against the real containers on the extracted Coq models (concrete model = the tie,
   reference spec = the oracle of the property) and reports every difference.
   Parsing / printing only; all behaviour comes from Model (extracted). *)
open Model

let rec pos_of_int (i : int) : positive =
  if i = 1 then XH else if i land 1 = 0 then XO (pos_of_int (i lsr 1)) else XI (pos_of_int (i lsr 1))
let n_of_int (i : int) : n = if i = 0 then N0 else Npos (pos_of_int i)
let rec int_of_pos = function XH -> 1 | XO p -> 2 * int_of_pos p | XI p -> 2 * int_of_pos p + 1
let int_of_n = function N0 -> 0 | Npos p -> int_of_pos p

let show_obs = function
  | OBool true -> "b1" | OBool false -> "b0"
  | OOpt None -> "n" | OOpt (Some v) -> "s" ^ string_of_int (int_of_n v)
  | ONum v -> "u" ^ string_of_int (int_of_n v)
  | OList l -> "l" ^ String.concat "," (List.map (fun v -> string_of_int (int_of_n v)) l)
  | OPanic -> "P"

(* observations of the other containers: "<result>|<drop log>" (the drop log is omitted by the
   harness for calls that cannot drop) *)
let show_list l = "l" ^ String.concat "," (List.map (fun v -> string_of_int (int_of_n v)) l)
let show_err = function
  | EExceedsCapacity -> "eCap" | EOutOfBounds -> "eOob" | EInvalidCharacter -> "eChr"
  | EKeyExists -> "eDup" | EIsFull -> "eFull"
let show_o = function
  | OUnit -> "ok" | OErr e -> show_err e
  | OB true -> "b1" | OB false -> "b0"
  | OO None -> "n" | OO (Some v) -> "s" ^ string_of_int (int_of_n v)
  | ON v -> "u" ^ string_of_int (int_of_n v)
  | OL l -> show_list l
  | OP -> "P"
let show_od impl (o, d) =
  if o = OP then "P" else if String.contains impl '|' then show_o o ^ "|" ^ show_list d else show_o o
let parse_list s =
  if s = "-" || s = "" then [] else List.map (fun x -> n_of_int (int_of_string x)) (String.split_on_char ',' s)

type st =
  | SNone
  | SQueue of rq * sq
  | SVec of vec * svec
  | SStr of str * sstr
  | SMap of slotmap * smap
  | SFlat of slotmap * fmap
  | SOpt of n option * n option

let parse_vop name args =
  let a k = n_of_int (int_of_string (List.nth args k)) in
  match name with
  | "push" -> VPush (a 0) | "pop" -> VPop | "insert" -> VInsert (a 0, a 1) | "remove" -> VRemove (a 0)
  | "clear" | "drop" -> VClear | "truncate" -> VTruncate (a 0) | "resize" -> VResize (a 0, a 1)
  | "extend" -> VExtend (parse_list (List.nth args 0)) | "len" -> VLen | "slice" -> VSlice
  | _ -> failwith ("unknown vec op " ^ name)

let parse_qop name args =
  let a k = n_of_int (int_of_string (List.nth args k)) in
  match name with
  | "push" -> QPush (a 0) | "pusho" -> QPushOverflow (a 0) | "pop" -> QPop | "peek" -> QPeek
  | "get" -> QGet (a 0) | "clear" | "drop" -> QClear | "len" -> QLen
  | _ -> failwith ("unknown queue op " ^ name)

let parse_sop name args =
  let a k = n_of_int (int_of_string (List.nth args k)) in
  let l k = parse_list (List.nth args k) in
  match name with
  | "push" -> SPush (a 0) | "pushb" -> SPushBytes (l 0) | "insert" -> SInsert (a 0, a 1)
  | "insertb" -> SInsertBytes (a 0, l 1) | "pop" -> SPop | "remove" -> SRemove (a 0)
  | "remover" -> SRemoveRange (a 0, a 1) | "retain" -> SRetain (l 0) | "find" -> SFind (l 0)
  | "rfind" -> SRfind (l 0) | "stripp" -> SStripPrefix (l 0) | "strips" -> SStripSuffix (l 0)
  | "truncate" -> STruncate (a 0) | "clear" -> SClear | "bytes" -> SBytes | "nul" -> SNul | "len" -> SLen
  | _ -> failwith ("unknown str op " ^ name)

let parse_mop name args =
  let a k = n_of_int (int_of_string (List.nth args k)) in
  match name with
  | "insert" -> MInsert (a 0) | "insertat" -> MInsertAt (a 0, a 1) | "remove" -> MRemove (a 0)
  | "get" -> MGet (a 0) | "contains" -> MContains (a 0) | "nextfree" -> MNextFree | "iter" -> MIter
  | "len" -> MLen | "drop" -> MDrop
  | _ -> failwith ("unknown slotmap op " ^ name)
let parse_fop name args =
  let a k = n_of_int (int_of_string (List.nth args k)) in
  match name with
  | "insert" -> FInsert (a 0, a 1) | "get" -> FGet (a 0) | "getref" -> FGetRef (a 0) | "remove" -> FRemove (a 0)
  | "contains" -> FContains (a 0) | "keys" -> FKeys | "len" -> FLen | "drop" -> FDrop
  | _ -> failwith ("unknown flatmap op " ^ name)
let parse_oop name args =
  let a k = n_of_int (int_of_string (List.nth args k)) in
  match name with
  | "replace" -> ORReplace (a 0) | "take" -> ORTake | "takeif" -> ORTakeIf (parse_list (List.nth args 0))
  | "issome" -> ORIsSome | "isnone" -> ORIsNone | "get" -> ORGet | "tooption" -> ORToOption
  | "unwrap" -> ORUnwrap | "expect" -> ORExpect | "unwrapor" -> ORUnwrapOr (a 0)
  | "unwraporelse" -> ORUnwrapOrElse (a 0) | "map" -> ORMap (a 0) | "drop" -> ORDrop
  | _ -> failwith ("unknown option op " ^ name)
(* "<res>|l<list>" with the list sorted (by the extracted sortN): order-insensitive comparison *)
let sort_drops s =
  match String.index_opt s '|' with
  | None -> s
  | Some i ->
    let l = String.sub s (i + 2) (String.length s - i - 2) in
    String.sub s 0 i ^ "|" ^ show_list (sortN (parse_list l))

let () =
  let st = ref SNone in
  let case_no = ref 0 and op_no = ref 0 and ops_total = ref 0 in
  let mm_model = ref 0 and mm_spec = ref 0 in
  let cur_case = Buffer.create 256 and cur_nontrivial = ref false in
  let seen = Hashtbl.create 100000 in
  let distinct_nontrivial = ref 0 in
  let opcount = Hashtbl.create 64 in
  let dead = ref false in
  let spec_dead = ref false in
  (* printing only: at most 3 MISMATCH lines per (kind, container, op name, panicked?) signature
     so that a frequent difference cannot crowd a rare one out of the report; all are counted *)
  let printed = Hashtbl.create 64 in
  let prev_name = ref "" in
  (* cls: class tag of a difference whose EXACT preconditions of a known finding were established
     here from the extracted models (never from the mere presence of an operation in the case);
     tagged lines have their own signature and at most 1 is printed per job, so they cannot crowd
     untagged ones out of the report *)
  let cls = ref "" in
  let report kind k impl text =
    let sg = kind ^ k ^ (if impl = "P" then "P" else "") ^ "/" ^ !prev_name ^ "/" ^ !cls in
    let n = try Hashtbl.find printed sg with Not_found -> 0 in
    Hashtbl.replace printed sg (n + 1);
    if n < (if !cls = "" then 3 else 1) then print_string text in
  (* string:retain-inverted: set by a retain call on which "keep where f" and "remove where f"
     give different contents; holds the reference state the inverted predicate gives *)
  let pending_retain : sstr option ref = ref None in
  let flush_case () =
    if Buffer.length cur_case > 0 then begin
      let key = Digest.string (Buffer.contents cur_case) in
      if !cur_nontrivial && not (Hashtbl.mem seen key) then begin
        Hashtbl.add seen key (); incr distinct_nontrivial end;
      Buffer.clear cur_case; cur_nontrivial := false
    end in
  (try
    while true do
      let line = input_line stdin in
      let toks = List.filter (fun s -> s <> "") (String.split_on_char ' ' line) in
      match toks with
      | "C" :: kind :: flavour :: elk :: cap :: _ ->
        flush_case (); incr case_no; op_no := 0; dead := false; spec_dead := false; prev_name := ""; pending_retain := None;
        (* the case key deliberately excludes the storage flavour: distinct = distinct histories *)
        Buffer.add_string cur_case (kind ^ " " ^ cap ^ "|");
        let c = n_of_int (int_of_string cap) in
        (match kind with
         | "queue" -> st := SQueue (rq_new c, sq_new c)
         | "vec" -> st := SVec (vec_new c, svec_new c)
         | "slotmap" -> st := SMap (sm_new c, smap_new c)
         | "flatmap" -> st := SFlat (sm_new c, fmap_new c)
         | "option" -> st := SOpt (None, None)
         | "str" ->
           let fl = (match flavour with "heap" -> FPoly | "fixed" -> FStatic | "reloc" -> FReloc | _ -> failwith "flavour") in
           st := SStr (str_new fl c, sstr_new fl c)
         | _ -> failwith ("unknown container " ^ kind))
      | "O" :: name :: rest ->
        incr op_no; incr ops_total;
        let rec split acc = function "=" :: r -> (List.rev acc, r) | x :: r -> split (x :: acc) r | [] -> (List.rev acc, []) in
        let (args, obs) = split [] rest in
        let impl = match obs with o :: _ -> o | [] -> "?" in
        Buffer.add_string cur_case (name ^ " " ^ String.concat " " args ^ ";");
        let k = (match !st with SQueue _ -> "queue." | SVec _ -> "vec." | SStr _ -> "str." | SMap _ -> "slotmap." | SFlat _ -> "flatmap." | SOpt _ -> "option." | SNone -> "?.") ^ name in
        Hashtbl.replace opcount k (1 + try Hashtbl.find opcount k with Not_found -> 0);
        if not !dead then begin
          match !st with
          | SQueue (q, s) ->
            let o = parse_qop name args in
            let (q', om) = rq_step q o in
            let (s', os) = sq_step s o in
            let om = show_obs om and os = show_obs os in
            if om <> impl then begin
              incr mm_model;
              Printf.printf "MISMATCH case=%d op=%d kind=model line=[%s] model=%s impl=%s\n" !case_no !op_no line om impl end;
            if os <> impl then begin
              incr mm_spec;
              Printf.printf "MISMATCH case=%d op=%d kind=spec line=[%s] spec=%s impl=%s\n" !case_no !op_no line os impl end;
            if impl = "b1" || (String.length impl > 1 && impl.[0] = 's') then cur_nontrivial := true;
            if impl = "P" || om <> impl then dead := true;
            st := SQueue (q', s')
          | SNone -> failwith "op before case"
          | _ ->
            (* generic path: (model observation, spec observation, stored something, next state) *)
            let impl_spec = ref impl in
            let resync = ref false in
            cls := "";
            let (om, os, stored, st') = (match !st with
              | SVec (v, sp) ->
                let o = parse_vop name args in
                let ((v', ob), d) = vec_step v o in
                let ((sp', sob), sd) = svec_step sp o in
                (show_od impl (ob, d), show_od impl (sob, sd),
                 (match o with VPush _ | VInsert _ | VResize _ | VExtend _ -> ob = OUnit | _ -> false),
                 SVec (v', sp'))
              | SStr (m, sp) ->
                let o = parse_sop name args in
                let (m', ob) = str_step m o in
                (* the oracle of the property is the reference without the deviations (dev = false) *)
                let (sp', sob) = sstr_step false sp o in
                (* known finding string:retain-inverted, exact preconditions only: the previous call WAS
                   retain, keep-where-f and remove-where-f differ on the content it was applied to, the
                   content observed right after it differs from the reference AND equals exactly what
                   the inverted predicate gives.  Then (and only then) the line is tagged and the
                   reference continues from that content; anything else is an ordinary difference. *)
                let sp' = (match o, !pending_retain with
                  | SBytes, Some d when !prev_name = "retain" && show_o sob <> impl && show_o (OL (sbytes d)) = impl ->
                    resync := true; cls := "retain-inverted"; d
                  | _ -> sp') in
                (match o with
                 | SRetain _ -> let (d, _) = sstr_step true sp o in
                   pending_retain := (if sbytes d <> sbytes sp' then Some d else None)
                 | _ -> pending_retain := None);
                (show_o ob, show_o sob,
                 (match o with SPush _ | SPushBytes _ | SInsert _ | SInsertBytes _ -> ob = OUnit | _ -> false),
                 SStr (m', sp'))
              | SMap (m, sp) ->
                let o = parse_mop name args in
                let ((m', ob), d) = sm_step m o in
                let ((sp', sob), sd) = smap_step sp o in
                (* the reference does not fix the order in which container drop releases the values *)
                let sd = if o = MDrop then (impl_spec := sort_drops impl; sortN sd) else sd in
                (show_od impl (ob, d), show_od impl (sob, sd),
                 (match o with MInsert _ -> (match ob with OO (Some _) -> true | _ -> false) | MInsertAt _ -> ob = OB true | _ -> false),
                 SMap (m', sp'))
              | SFlat (m, sp) ->
                let o = parse_fop name args in
                let ((m', ob), d) = fm_step m o in
                let ((sp', sob), sd) = fmap_step sp o in
                (* order of list_keys and of the drops at container drop: not fixed by the reference *)
                let (sob, sd) = (match o, sob with
                  | FDrop, _ -> impl_spec := sort_drops impl; (sob, sortN sd)
                  | FKeys, OL l when impl <> "P" ->
                    impl_spec := show_list (sortN (parse_list (String.sub impl 1 (String.length impl - 1)))); (OL (sortN l), sd)
                  | _ -> (sob, sd)) in
                (show_od impl (ob, d), show_od impl (sob, sd),
                 (match o with FInsert _ -> ob = OUnit | _ -> false),
                 SFlat (m', sp'))
              | SOpt (m, sp) ->
                let o = parse_oop name args in
                let ((m', ob), d) = ro_step m o in
                let ((sp', sob), sd) = so_step sp o in
                (show_od impl (ob, d), show_od impl (sob, sd), (match o with ORReplace _ -> true | _ -> false), SOpt (m', sp'))
              | _ -> failwith "unreachable") in
            if om <> impl then begin
              incr mm_model;
              report "model" k impl (Printf.sprintf "MISMATCH case=%d op=%d kind=model prev=%s line=[%s] model=%s impl=%s\n" !case_no !op_no !prev_name line om impl) end;
            (* after the first difference from the reference its state is no longer meaningful for
               this case: report that first difference only *)
            if os <> !impl_spec && not !spec_dead then begin
              incr mm_spec; if not !resync then spec_dead := true;
              report "spec" k impl (Printf.sprintf "MISMATCH case=%d op=%d kind=spec prev=%s%s line=[%s] spec=%s impl=%s\n" !case_no !op_no !prev_name (if !cls = "" then "" else " cls=" ^ !cls) line os impl) end;
            prev_name := name;
            if stored then cur_nontrivial := true;
            if impl = "P" || om <> impl then dead := true;
            st := st'
        end
      | [] -> ()
      | _ -> failwith ("bad line: " ^ line)
    done
  with End_of_file -> ());
  flush_case ();
  Printf.printf "SUMMARY cases=%d ops=%d mismatches_model=%d mismatches_spec=%d distinct_nontrivial=%d\n"
    !case_no !ops_total !mm_model !mm_spec !distinct_nontrivial;
  Hashtbl.iter (fun k v -> Printf.printf "OPCOUNT %s %d\n" k v) opcount
