#!/bin/bash
# Run once after a fresh restore, offline: builds the Coq development (full .vo), the OCaml
# drivers of the extracted models and pre-builds the Rust harnesses against /repo.
set -u
cd "$(dirname "$0")"
export CARGO_NET_OFFLINE=true
mkdir -p build evidence replays
[ -f harness/libgate/build.sh ] && bash harness/libgate/build.sh
python3 - <<'PY'
import sys, os, glob
sys.path.insert(0, "tools")
import vlib
vlib.ensure_makefile()
rc, out = vlib.coq_make(["all"], timeout=3000)
print(out[-3000:])
if rc != 0:
    print("setup: coq build failed (checks will report it)")
for d in sorted(glob.glob(os.path.join(vlib.VERIF, "ocaml", "c*"))):
    pid = os.path.basename(d).upper()
    if os.path.exists(os.path.join(vlib.COQ, "extract", pid + ".v")):
        print("ocaml", pid, vlib.ocaml_driver(pid))
for ws in sorted(os.listdir(os.path.join(vlib.VERIF, "harness"))):
    if os.path.exists(os.path.join(vlib.VERIF, "harness", ws, "Cargo.toml")):
        ok, out, _ = vlib.cargo_build(ws)
        print("cargo", ws, ok, out[-600:] if not ok else "")
PY
exit 0
