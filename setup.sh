#!/bin/bash
# Run once after a fresh restore, offline: builds the Coq development (full .vo), the OCaml
# drivers of the extracted models and pre-builds the Rust harnesses against /repo.
set -u
cd "$(dirname "$0")"
export CARGO_NET_OFFLINE=true
mkdir -p build evidence replays
[ -f harness/libgate/build.sh ] && bash harness/libgate/build.sh
python3 - <<'PY'
import sys, os, glob
sys.path.insert(0, "tools")
import vlib
vlib.ensure_makefile()
rc, out = vlib.coq_make(["all"], timeout=3000)
print(out[-3000:])
if rc != 0:
    print("setup: coq build failed (checks will report it)")
for f in sorted(glob.glob(os.path.join(vlib.COQ, "extract", "*.v"))):
    pid = os.path.basename(f)[:-2]
    if os.path.exists(os.path.join(vlib.VERIF, "ocaml", pid.lower(), "driver.ml")):
        print("ocaml", pid, vlib.ocaml_driver(pid))
# harness workspaces, each with the target directory its checks use
for ws in ("g3", "g2"):
    ok, out, _ = vlib.cargo_build(ws)
    print("cargo", ws, ok, out[-800:] if not ok else "")
ok, out, _ = vlib.g1_build(None)
print("cargo g1 (instrumented drop-in)", ok, out[-800:] if not ok else "")
for ws in ("xlate", "xlate-shm", "xlate-own"):
    wd = os.path.join(vlib.VERIF, "harness", ws)
    if not os.path.exists(os.path.join(wd, "Cargo.lock")):
        vlib.sh("cp %s/Cargo.lock %s/Cargo.lock" % (vlib.REPO, wd))
    rc, out = vlib.sh("cargo build --offline -j%d" % vlib.NPROC, cwd=wd, timeout=3000,
                      env={"CARGO_TARGET_DIR": os.path.join(vlib.BUILD, "target-xlate")})
    print("cargo", ws, rc == 0, out[-800:] if rc != 0 else "")
PY
exit 0
