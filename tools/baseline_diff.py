#!/usr/bin/env python3
"""usage: baseline_diff.py <nextest log>  -- lists stable-pass tests of BASELINE.json that failed or did not run"""
import json,re,sys
b=json.load(open('/root/.vp/BASELINE.json'))
stable=set(b['stable_pass'])
fails=set(); passed=set()
for l in open(sys.argv[1], errors='replace'):
    m=re.match(r'\s+(PASS|FAIL|TIMEOUT|SIGABRT|SIGSEGV|LEAK|FLAKY[^\[]*)\s+\[[^\]]*\]\s+\(\s*\d+/\d+\)\s+(\S+)\s+(.*)$', l)
    if m:
        key=m.group(2)+'::'+m.group(3).strip()
        (passed if m.group(1)=='PASS' else fails).add(key)
bad=sorted(k for k in fails if k in stable and k not in passed)
print(len(passed),'passed,',len(fails),'failed;',len(bad),'stable tests failing;', len(stable-passed-fails),'stable tests not seen')
for k in bad: print('  FAIL',k)
