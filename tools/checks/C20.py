#!/usr/bin/env python3
"""C20 -- WaitSet dispatch is exact: every ready attachment reported, nothing else."""
import os, re, sys
sys.path.insert(0, os.path.dirname(os.path.dirname(os.path.abspath(__file__))))
import vlib
from vlib import VERIF

H = "3600000000000"

# minimised histories that once failed (F10, fixed in /repo by eeeea11 and 359f071); they run first
REGRESSIONS = [
    ("F10b reactor full of descriptors reported AlreadyAttached", ["hist", "selcap2", "012", "0", "an_0", "an_1", "an_2", "an_1"]),
    ("F10a refused attach_deadline left stale map entries", ["hist", "selcap2", "01", "0", "an_0", "ai_" + H, "ad_1_1", "ad_1_1", "dg_1", "an_1", "n_1", "p", "ai_1", "p", "dg_1", "ad_1_1", "p"]),
    ("F10a on the real select reactor (1022 ballast intervals)", ["hist", "select", "01", "2", "an_0", "ai_" + H, "ad_1_1", "dg_1", "an_1", "n_1", "p"]),
]


def classify(line):
    """Key under which a mismatch may be matched against known_findings.json.

    Every C20 finding is FIXED in /repo (eeeea11, 359f071); a fixed entry must suppress
    nothing, so no mismatch is ever keyed: a recurrence of F10 or any new disagreement is a
    VIOLATION.  (If a finding is ever recorded as `known` again, its key must be derived here
    from the finding's exact preconditions -- variant, capacity, the operation prefix and the
    refused operation -- never from the symptom alone.)"""
    return None


def label(line):
    """Human-readable class of a mismatch, for the replay file only (suppresses nothing)."""
    if "refused-attach-leaves-state-unchanged" in line:
        return "a refused attach changed the wait set's state"
    if "spec=nocap" in line and "impl=already" in line:
        return "full wait set reported as AlreadyAttached"
    return "unclassified"


def signature(line):
    """Shape of a MISMATCH line: kind, operation name, expected and observed value with all
    numbers blanked.  Used only to keep examples of EVERY kind of disagreement (vlib.run_pipelines
    keeps the first 200 lines, so a flood of one kind could crowd out a different one)."""
    kind = "spec" if "kind=spec" in line else "model"
    m = re.search(r"line=\[O (\w+)", line)
    opn = m.group(1) if m else "?"
    tail = line.split("] ", 1)[1] if "] " in line else line
    tail = re.sub(r"impl=state-changed-from_\S+", "impl=state-changed", tail)
    tail = re.sub(r"model=cnt=\S+", "model=<state>", tail)
    vals = dict(t.split("=", 1) for t in tail.split() if "=" in t)
    exp, got = vals.get("spec", vals.get("model", "")), vals.get("impl", "")
    if exp.startswith("D:") and got.startswith("D:") and exp.count("/") == 2 and got.count("/") == 2:
        # two deliveries: which of the three parts differ, and how
        how = []
        for name, a, b in zip(("deadline-part", "notification-part", "foreign"), exp[2:].split("/"), got[2:].split("/")):
            if a == b:
                continue
            ga, gb = re.sub(r"[em]", "", a), re.sub(r"[em]", "", b)
            how.append(name + (":count" if a.count(",") != b.count(",") or (a == "") != (b == "") else
                               ":kinds" if ga == gb else ":guards"))
        return "%s %s delivery differs in %s" % (kind, opn, "+".join(how))
    tail = re.sub(r"D:\S*", "D:*", tail)
    return kind + " " + opn + " " + re.sub(r"\d+", "#", tail)


def run_pipelines_by_signature(jobs, driver, per_sig=3, timeout=1500):
    """Like vlib.run_pipelines (same counters), but MISMATCH lines are retained per signature:
    up to `per_sig` examples of every distinct signature, however many lines other signatures
    produce.  res["by_sig"]: signature -> {"count": n, "examples": [(label, cmd, line)]}."""
    import concurrent.futures as cf
    res = {"cases": 0, "ops": 0, "mismatches_model": 0, "mismatches_spec": 0, "distinct_nontrivial": 0,
           "by_sig": {}, "opcount": {}, "failed_jobs": [], "extra": {}}

    def one(job):
        lbl, argv = job
        rc, out = vlib.sh("set -o pipefail; " + " ".join(argv) + " 2>/dev/null | " + driver, timeout=timeout)
        return lbl, argv, rc, out

    with cf.ThreadPoolExecutor(max_workers=vlib.NPROC) as ex:
        for lbl, argv, rc, out in ex.map(one, jobs):
            got_summary = False
            for line in out.split("\n"):
                if line.startswith("MISMATCH"):
                    e = res["by_sig"].setdefault(signature(line), {"count": 0, "examples": []})
                    e["count"] += 1
                    if len(e["examples"]) < per_sig:
                        e["examples"].append((lbl, " ".join(argv), line))
                elif line.startswith("SUMMARY"):
                    got_summary = True
                    for kv in line.split()[1:]:
                        k, v = kv.split("=")
                        res[k] = res.get(k, 0) + int(v)
                elif line.startswith("OPCOUNT"):
                    _, k, v = line.split()
                    res["opcount"][k] = res["opcount"].get(k, 0) + int(v)
                elif line.startswith("EXTRA"):
                    _, k, v = line.split()
                    res["extra"][k] = res["extra"].get(k, 0) + int(v)
            if rc != 0 or not got_summary:
                res["failed_jobs"].append((lbl, " ".join(argv), rc, out[-800:]))
    return res


def cleanup():
    """Remove what dead harness processes left in /dev/shm (private roots and prefixed objects)."""
    try:
        names = os.listdir("/dev/shm")
    except OSError:
        return
    for n in names:
        m = re.match(r"^(?:verif-c20-|c20_)(\d+)", n)
        if not m or os.path.exists("/proc/" + m.group(1)):
            continue
        p = os.path.join("/dev/shm", n)
        vlib.sh(["rm", "-rf", p])


def run(ctx):
    proof_ok = vlib.proof_stage(ctx)
    ok, out = vlib.ocaml_driver("C20")
    if not ok:
        ctx.violation("extracted model / OCaml driver does not build", {"log": out}, no_input=True)
        return
    ok, out, tdir = vlib.cargo_build("g3", bins=["c20"])
    if not ok:
        ctx.violation("harness does not build against /repo", {"log": out}, no_input=True)
        return
    exe = os.path.join(tdir, "c20")
    driver = os.path.join(VERIF, "ocaml", "c20", "driver")
    th = ctx.thorough()
    seed = str(ctx.seed)
    if getattr(ctx, "replay", None):
        # re-run the harness job (or single history) recorded in a replay file and compare again
        import json
        body = json.load(open(ctx.replay))
        cmd = body.get("harness_cmd") or body.get("how_to_rerun", "").split(" | ")[0]
        if not cmd:
            ctx.violation("replay file names no harness command", {"replay": ctx.replay}, no_input=True)
            return
        r = run_pipelines_by_signature([("replay", cmd.split())], driver)
        cleanup()
        ctx.cov.update({"evaluations": r["cases"], "ops_executed": r["ops"], "rule": "replay of " + ctx.replay})
        for sig, e in list(r["by_sig"].items())[:10]:
            lbl, c, line = e["examples"][0]
            ctx.violation("replay still fails: " + line[:300], {"harness_cmd": c, "mismatch": line[:600], "class": label(line),
                                                                 "occurrences": e["count"]}, key=classify(line))
        if not r["by_sig"] and not r["failed_jobs"]:
            ctx.log("replay passes: no mismatch in", r["cases"], "cases")
        for lbl, c, rc, tail in r["failed_jobs"]:
            ctx.violation("replay job failed: " + lbl, {"cmd": c, "rc": rc, "tail": tail}, no_input=True)
        return
    jobs = []
    for what, argv in REGRESSIONS:
        jobs.append(("regression:" + what, [exe] + argv))

    def exh(variant, layout, free, alpha, length, nsh):
        for i in range(nsh):
            jobs.append(("exh:%s:%s:%s:%s:%d:%d" % (variant, layout, free, alpha, length, i),
                         [exe, "exh", variant, layout, str(free), alpha, str(length), str(i), str(nsh), seed]))

    def rnd(variant, layout, free, alpha, maxlen, nsh, ncases):
        for i in range(nsh):
            jobs.append(("rnd:%s:%s:%s:%d:%d" % (variant, layout, free, maxlen, i),
                         [exe, "rnd", variant, layout, str(free), alpha, str(maxlen), str(i), str(nsh), seed, str(ncases)]))

    L = 6 if th else 5          # targeted alphabets (10..12 operations)
    LF = 5 if th else 4         # full alphabet (20 operations with 2 listeners on 2 services)
    nsh = 16 if th else 4
    # dispatch: Epoll (ipc and local service), the real select reactor
    exh("ipc", "01", 0, "disp", L, nsh)
    exh("ipc", "00", 0, "disp", L, nsh)
    exh("local", "00", 0, "disp", L, nsh)
    exh("local", "01", 0, "disp", L, nsh)
    exh("select", "01", 0, "disp", L, nsh)
    # capacity and error paths: select reactor behind the capacity shim, 1..3 slots, 1..3 listeners
    exh("selcap1", "01", 0, "cap", L, nsh)
    exh("selcap2", "01", 0, "cap", L, nsh)
    exh("selcap2", "012", 0, "cap", L, nsh)
    exh("selcap3", "012", 0, "cap", L, nsh)
    exh("selcap1", "0", 0, "cap", L, nsh)
    # everything at once, shorter
    exh("ipc", "01", 0, "full", LF, nsh)
    exh("selcap2", "01", 0, "full", LF, nsh)
    exh("select", "00", 0, "full", LF, nsh)
    # the real select reactor at its real capacity (1024) with 1022 / 1023 ballast intervals
    exh("select", "01", 2, "cap", 4 if th else 3, 2)
    exh("select", "01", 1, "cap", 3, 2)
    # long random histories, 4 listeners on 2 services
    nr = 600 if th else 60
    rnd("ipc", "0011", 0, "full", 200, 8, nr)
    rnd("local", "0011", 0, "full", 200, 4, nr)
    rnd("select", "0011", 0, "full", 200, 4, nr)
    rnd("selcap3", "0011", 0, "full", 200, 8, nr)
    rnd("selcap2", "0011", 0, "full", 200, 4, nr)
    rnd("selcap1", "001", 0, "full", 120, 2, nr)

    # callbacks that take (real) time: period boundaries falling while a callback runs must be reported by the
    # next call (c20_no_expiry_lost); three scripted scenarios, ~1 s each, self-validating against machine load
    timed_jobs = 0
    for variant in ("ipc", "select"):
        for scen in ("tick_deadline", "two_intervals", "own_deadline"):
            jobs.insert(len(REGRESSIONS), ("timed:%s:%s" % (variant, scen), [exe, "timed", variant, scen]))
            timed_jobs += 1

    r = run_pipelines_by_signature(jobs, driver)
    cleanup()
    ctx.cov["timed_scenarios"] = {"jobs": timed_jobs, "process_calls_checked": r["extra"].get("timed_process_calls", 0),
                                  "unestablished": r["extra"].get("timed_unestablished", 0)}
    if r["extra"].get("timed_unestablished", 0) >= timed_jobs:
        ctx.violation("none of the timed scenarios could be established (machine too slow in all attempts): the clause "
                      "'an expiry during the callbacks is reported by the next call' was not tied to the code in this run",
                      {"obligation": "G3 timed tie of model/WaitSet.v (t_call) with deadline_queue.rs", "how_to_rerun": exe + " timed ipc tick_deadline | " + driver},
                      no_input=True)
    elif r["extra"].get("timed_unestablished", 0):
        ctx.notes.append("%d of %d timed scenarios could not be established (machine load); the others ran" % (r["extra"]["timed_unestablished"], timed_jobs))

    # the two probes that need many descriptors
    probes = {}
    for name, argv in (("epoll512", [exe, "epoll512", "520"]), ("selectfull", [exe, "selectfull"])):
        rc, out = vlib.sh(" ".join(argv) + " 2>/dev/null", timeout=300)
        line = [l for l in out.split("\n") if l.startswith("PROBE")]
        probes[name] = line[0] if (rc == 0 and line) else "FAILED rc=%s %s" % (rc, out[-300:])
    cleanup()
    ctx.cov["probes"] = probes
    p1 = probes["epoll512"]
    if "callbacks_first=512" not in p1 or "distinct_after_two=520" not in p1:
        ctx.violation("correspondence model<->implementation broken: the model assumes one Epoll wait returns at most "
                      "512 events (rmaxev) and rotates through the ready descriptors; probe says: " + p1,
                      {"obligation": "rmaxev = Epoll::max_wait_events() = 512", "probe": p1, "how_to_rerun": exe + " epoll512 520"},
                      no_input=True)
    p2 = probes["selectfull"]
    if not p2.startswith("PROBE") or "AlreadyAttached" in p2 or p2.count("Some(InsufficientCapacity)") != 3:
        ctx.violation("real posix_select reactor filled to its capacity (1024 descriptors): attaching a further, never "
                      "attached object must be refused with InsufficientCapacity: " + p2,
                      {"probe": p2, "how_to_rerun": exe + " selectfull", "expected": "three times Some(InsufficientCapacity)"},
                      key=None)

    ctx.cov.update({
        "evaluations": r["cases"], "distinct_nontrivial": r["distinct_nontrivial"],
        "traces_validated_against_impl": r["cases"], "ops_executed": r["ops"],
        "op_distribution": r["opcount"], "outcome_distribution": r["extra"],
        "rule": "every history is executed on the real WaitSet (real listeners/notifiers of 1..2 event services, "
                "zero-timeout processing) and replayed on the extracted model and on the extracted reference spec; "
                "compared per operation: result (guard number / error / set of (guard, event|missed-deadline) pairs per "
                "processing call, deadline-queue part in callback order, unmatched ids) and, after every attach/drop, the "
                "wait set's internal state taken from its Debug output (counter, id_count, deadline queue, both maps, "
                "reactor content). exhaustive: all operation sequences of length %d over the 10-12 operation alphabets "
                "'disp' and 'cap' and of length %d over the full alphabet (20 operations for 2 listeners), on Epoll "
                "(ipc::Service, local::Service), on the real posix_select reactor (custom service variant; also with "
                "1022/1023 ballast intervals so that the real capacity 1024 is hit) and on posix_select behind a "
                "capacity-1/2/3 shim; random: seeded histories up to 200 operations with 4 listeners on 2 services. "
                "distinct = distinct (reactor check order, free capacity, layout, history) ignoring the service variant; "
                "non-trivial = at least one callback was delivered. Periods are 1 ns (always expired) and 1 h (never). "
                "Real time: 3 scripted scenarios x 2 reactors (interval+deadline, two intervals, a deadline expiring during "
                "its own callback; periods 100..400 ms, callbacks that sleep across period boundaries, every clock read at "
                "least 25 ms away from any boundary or the attempt is discarded and repeated) replayed on the extracted timed "
                "deadline-queue model and on its boundary-arithmetic oracle." % (L, LF),
        "exhaustive": False,
    })
    samples = []
    for lbl, argv in jobs[:2] + jobs[-1:]:
        c = vlib.extract_case(argv, driver, 1)
        if c:
            samples.append({"job": lbl, "case": c[:14]})
    ctx.cov["samples"] = samples
    for lbl, cmd, rc, tail in r["failed_jobs"]:
        ctx.violation("correspondence job failed (harness or driver crashed): " + lbl, {"cmd": cmd, "rc": rc, "tail": tail}, no_input=True)
    # One violation per distinct KIND of disagreement (signature), spec mismatches first; nothing is
    # keyed (see classify), nothing is dropped because another kind is more frequent.
    # order: one signature of every (kind, operation) group first, so that no group is pushed out of the report
    groups = {}
    for k in sorted(r["by_sig"]):
        groups.setdefault(tuple(k.split()[:2]), []).append(k)
    order = []
    for rank in range(max([len(v) for v in groups.values()] + [0])):
        for g in sorted(groups, key=lambda g: (0 if g[0] == "spec" else 1, g)):
            if rank < len(groups[g]):
                order.append(groups[g][rank])
    sigs = [(k, r["by_sig"][k]) for k in order]
    ctx.cov["mismatch_signatures"] = {k: v["count"] for k, v in sigs[:50]}
    max_reports = 12
    for n, (sig, e) in enumerate(sigs):
        if n >= max_reports:
            ctx.violation("%d further kinds of disagreement not reported individually" % (len(sigs) - max_reports),
                          {"signatures": {k: v["count"] for k, v in sigs[max_reports:max_reports + 100]}}, no_input=True)
            break
        lbl, cmd, line = e["examples"][0]
        case_no = int(line.split("case=")[1].split()[0])
        op_no = int(line.split("op=")[1].split()[0])
        hist = vlib.extract_case(cmd.split(), driver, case_no)
        body = {"history": [h[:400] for h in hist[:op_no + 2]], "harness_cmd": cmd, "mismatch": line[:600],
                "class": label(line), "signature": sig, "occurrences": e["count"],
                "other_examples": [x[2][:300] for x in e["examples"][1:]],
                "how_to_rerun": cmd + " | " + driver}
        if sig.startswith("spec"):
            # the property fails on this concrete history
            ctx.violation("WaitSet differs from the reference specification: " + line[:300], body, key=classify(line))
        else:
            body["obligation"] = "G3 correspondence of model/WaitSet.v with iceoryx2/src/waitset.rs"
            ctx.violation("correspondence model<->implementation broken (concrete model disagrees with the code): " + line[:300],
                          body, no_input=True)
    if not proof_ok:
        if not ctx.violations:
            ctx.violation("proof obligation no longer checks: %s" % ctx.broken,
                          {"broken": ctx.broken, "searched": "all histories above agree with the reference specification"}, no_input=True)
    ctx.assumptions = [
        "theorems are about the Gallina model coq/model/WaitSet.v; tie = observational + internal-state correspondence (G3) on the histories listed in coverage",
        "untimed part: a deadline/interval is expired at every processing call iff its period is <= 1 ns; timed part (t_call, c20_no_expiry_lost): DeadlineQueue with start_time/previous_iteration and callbacks that take time, tied by 6 real-time scenarios; DeadlineQueue::reset (notified deadline attachment) is not in the timed model",
        "c20_exact assumes at most rmaxev = Epoll::max_wait_events() = 512 descriptors are ready in one call (probe epoll512 confirms the bound is real); no bound for the select reactor",
        "on Linux ipc::Service and local::Service both use Epoll; the posix_select reactor is exercised through a custom service variant; its capacity paths through a capacity shim (harness/g3/c20/src/variants.rs) and through ballast intervals at the real capacity",
        "listeners are level-triggered: a notified listener stays ready until try_wait consumes its events (the harness callbacks consume or not exactly as the model's op says)",
        "extraction: ExtrOcamlBasic only; OCaml driver parses/prints only",
        "signals, callback returning Stop, blocking waits with non-zero timeouts, OS failures of epoll_ctl/select are not modelled",
    ]


if __name__ == "__main__":
    sys.exit(vlib.main(run, "C20"))
