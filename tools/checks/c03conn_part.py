#!/usr/bin/env python3
"""C03, third clause (zero-copy connection: offsets conserved, release never fails for lack of
space): proof stage for props/C03conn.v, then the G1 tie of model/ConnConc.v to the REAL
zero_copy_connection (harness/g1/c03conn), called from tools/checks/C03.py."""
import os, sys
sys.path.insert(0, os.path.dirname(os.path.dirname(os.path.abspath(__file__))))
import vlib
from vlib import VERIF

PID = "C03conn"
# every access site of the model (constructor of ConnConc.cpc that performs an access)
MODEL_SITES = ["10", "11", "12", "13", "20", "21", "22", "23", "24", "25", "26", "27", "28", "29",
               "40", "41", "42", "43", "44", "45", "46", "50", "51", "52", "53"]


def conn_proof_stage(ctx):
    """vlib.proof_stage for props/C03conn.v (hygiene is global and already ran for C03)."""
    r = vlib.coq_props(PID)
    nobl, names = vlib.count_obligations("props/%s.v" % PID)
    info = {"obligations": nobl, "property_theorems": r.get("theorems") or names,
            "checker_cmd": "make -C /verif/coq <cone of props/%s.v> ; coqc props/%s.v (Print Assumptions)" % (PID, PID),
            "cone_files": r.get("cone", [])}
    broken = None
    if r["ok"]:
        info["discharged"] = nobl
        axs = sorted({a for v in r["assumptions"].values() for a in v})
        info["print_assumptions"] = "%d property theorems: %s" % (len(r["assumptions"]), ", ".join(axs) if axs else "Closed under the global context (no axioms)")
    else:
        info["discharged"] = 0
        broken = {"obligation": "coq:" + r.get("failed_stage", "?"), "detail": r.get("failed_at", "?"), "log_tail": r["log"][-1500:]}
        ctx.log("connection proof stage FAILED at", r.get("failed_stage"), r.get("failed_at"))
    return info, broken


def extract_cases(argv, case_nos, timeout=900):
    """Re-run a harness job once and cut out the text of the given cases (1-based numbers)."""
    rc, out = vlib.sh(" ".join(argv) + " 2>/dev/null", timeout=timeout)
    res = {}
    n = 0
    cur = None
    for line in out.split("\n"):
        if line.startswith("C "):
            n += 1
            cur = [line] if n in case_nos else None
            if cur is not None:
                res[n] = cur
        elif cur is not None and line:
            cur.append(line)
    return res


def run_conn(ctx, proof_only=False):
    cov = {}
    ctx.cov["connection"] = cov
    info, broken = conn_proof_stage(ctx)
    cov["proof"] = info
    # the totals of the evidence file cover both props files
    ctx.cov["obligations"] = ctx.cov.get("obligations", 0) + info["obligations"]
    ctx.cov["discharged"] = ctx.cov.get("discharged", 0) + info["discharged"]
    ctx.cov["property_theorems"] = list(ctx.cov.get("property_theorems", [])) + list(info["property_theorems"])
    nviol0 = len(ctx.violations)

    def proof_verdict():
        if broken and len(ctx.violations) == nviol0:
            ctx.violation("proof obligation no longer checks (connection clause): %s" % broken, {"broken": broken}, no_input=True)

    if proof_only:
        proof_verdict()
        return
    ok, out = vlib.ocaml_driver(PID)
    if not ok:
        ctx.violation("extracted connection model / OCaml driver does not build", {"log": out}, no_input=True)
        return
    ok, out, tdir = vlib.g1_build(["c03conn"])
    if not ok:
        ctx.violation("G1 connection harness does not build against /repo with the instrumented atomics drop-in", {"log": out[-3000:]}, no_input=True)
        return
    exe = os.path.join(tdir, "c03conn")
    driver = os.path.join(VERIF, "ocaml", "c03conn", "driver")
    bound = 3 if ctx.thorough() else 2
    nsh = 16
    jobs = []
    for i in range(nsh):
        jobs.append(("exh:conn:%d" % i, [exe, "exh", str(bound), str(i), str(nsh), str(ctx.seed), "400000"]))
    nr = 6000 if ctx.thorough() else 800
    for i in range(nsh):
        jobs.append(("rnd:conn:%d" % i, [exe, "rnd", str(nr), str(i), str(nsh), str(ctx.seed)]))
    r = vlib.run_pipelines(jobs, driver)
    sites = {k: sorted(v) for k, v in r.get("sites", {}).get("conn", {}).items()}
    cov.update({
        "evaluations": r["cases"], "distinct_nontrivial": r["distinct_nontrivial"],
        "traces_validated_against_impl": r["cases"], "accesses_seen": r["ops"],
        "model_sites_exercised": {k: [list(x) for x in v] for k, v in sorted(sites.items(), key=lambda kv: int(kv[0]))},
        "counters": dict(sorted(r["extra"].items())),
        "rule": "sender thread || receiver thread on one REAL zero_copy_connection (process_local) under the baton scheduler: every schedule with "
                "<= %d preemptions (scheduling points = every access to a cursor of the submission / completion queue) of programs of 1..3 send "
                "macro-ops (reclaim until empty; try_send) against 1..4 receive/release operations, cold and after a sequential warm-up that fills "
                "the connection (buffer_size queued + max_borrowed borrowed), buffer_size and max_borrowed in 1..2, safe overflow off and on, "
                "plenty and too few chunks; plus seeded random schedules of longer random programs (buffer_size, max_borrowed 1..3). Every cursor "
                "access, used-chunk-list swap and borrow-counter access is compared (site, location bijection, kind, both orderings, values, CAS "
                "outcome) with the step of model/ConnConc.v, every return value and the drained final content too. Oracle on the implementation's "
                "own return values: no release error, every offset in exactly one place, receive order = send order, reclaim order = release "
                "order. distinct = distinct event traces; non-trivial = at least one store/successful CAS" % bound,
        "exhaustive": False,
    })
    smp = vlib.extract_case(jobs[0][1], driver, 3)
    cov["samples"] = [{"job": jobs[0][0], "execution": smp[:60]}]
    ctx.cov["evaluations"] = ctx.cov.get("evaluations", 0) + r["cases"]
    ctx.cov["distinct_nontrivial"] = ctx.cov.get("distinct_nontrivial", 0) + r["distinct_nontrivial"]
    for lbl, cmd, rc, tail in r["failed_jobs"]:
        ctx.violation("connection correspondence job failed (harness or driver crashed): " + lbl, {"cmd": cmd, "rc": rc, "tail": tail}, no_input=True)
    spec_mm = [m for m in r["mismatch_lines"] if "kind=spec" in m[2]]
    model_mm = [m for m in r["mismatch_lines"] if "kind=model" in m[2]]
    # one violation per distinct spec message (the schedule with the fewest accesses of each)
    seen_msgs = {}
    for lbl, cmd, line in spec_mm:
        msg = line.split("]", 1)[1].strip() if "]" in line else line
        if "max_borrowed=" in msg and ": " in msg:
            msg = msg.split(": ", 1)[1]      # the verdict without the configuration numbers
        seen_msgs.setdefault(msg, []).append((lbl, cmd, line))
    for msg, lst in list(seen_msgs.items())[:2]:
        # re-run at most two harness jobs, cut out the candidate executions, keep the shortest
        best = None
        by_cmd = {}
        for lbl, cmd, line in lst:
            by_cmd.setdefault(cmd, []).append(line)
        for cmd, lines in list(by_cmd.items())[:2]:
            wanted = {int(l.split("case=")[1].split()[0]): l for l in lines[:40]}
            for case_no, hist in extract_cases(cmd.split(), set(wanted)).items():
                if best is None or len(hist) < len(best[0]):
                    best = (hist, cmd, wanted[case_no])
        if best is None:
            best = ([], lst[0][1], lst[0][2])
        hist, cmd, line = best
        hdr = hist[0].split() if hist else []
        sched = next((l[2:] for l in hist if l.startswith("S ")), "")
        rerun = ""
        if len(hdr) >= 8:
            rerun = "%s one %s %s %s %s '%s' '%s' %s | %s" % (exe, hdr[1], hdr[2], hdr[3], hdr[4], hdr[6], hdr[7], sched, driver)
        ctx.violation("zero-copy connection violates the property under a concrete schedule of the sender and receiver threads: " + line,
                      {"header(B M overflow chunks completion_queue_capacity prologue program)": " ".join(hdr[1:8]),
                       "schedule": sched, "execution": hist, "harness_cmd": cmd, "how_to_rerun": rerun,
                       "executions_with_this_verdict": len(lst),
                       "theorem": "c03_conn_release_never_full needs completion queue capacity >= buffer_size + max_borrowed + 1; c03_conn_needs_plus_one: with one slot less this schedule shape makes release fail"})
    ordering_only_with_witness = bool(getattr(ctx, "ra_witness", None)) and all("(ordering:" in m[2] for m in model_mm)
    if model_mm and not spec_mm and not ordering_only_with_witness:
        lbl, cmd, line = model_mm[0]
        case_no = int(line.split("case=")[1].split()[0])
        hist = vlib.extract_case(cmd.split(), driver, case_no)
        ctx.violation("trace correspondence connection model<->implementation broken (first diverging access below); "
                      "no schedule violating the property found among those explored: " + line,
                      {"obligation": "G1 trace equality between model/ConnConc.v (theorems c03_conn_*) and zero_copy_connection/common.rs",
                       "first_divergence": line, "execution": hist, "harness_cmd": cmd, "other_divergences": [m[2] for m in model_mm[1:6]]}, no_input=True)
    if not model_mm and not spec_mm and not r["failed_jobs"]:
        missing = [s for s in MODEL_SITES if s not in sites]
        if missing:
            ctx.violation("connection tie: model access sites never exercised by any explored execution: %s" % missing,
                          {"missing_sites": missing, "exercised": sorted(sites)}, no_input=True)
    proof_verdict()
    cov["assumptions"] = [
        "connection clause: queue slots are abstracted to lists (justified by the queue theorems of props/C03.v); sequentially consistent interleaving at cursor-access granularity",
        "connection clause: the sender reclaims until empty before every try_send (OSend macro-op, as the ports do); one channel, one segment",
    ]
