#!/usr/bin/env python3
"""C05 -- events: no lost wake-up, no phantom event."""
import os, re, sys
sys.path.insert(0, os.path.dirname(os.path.dirname(os.path.abspath(__file__))))
import vlib
from vlib import VERIF

FIXED_KEY = "event:lost-wakeup-notified-empty-trigger"   # fixed by /repo c0b284e: an occurrence is a plain VIOLATION now
CRASH_KEY = "event:crash-between-cas-and-post-after-stale-promotion"
# model pc tags (EAcc site numbers of model/Event.v): a site never exercised means the tie says nothing about it
MODEL_SITES = {"5": "activate: data_ptr load", "10": "bit_set set_bit load", "11": "bit_set set_bit CAS", "20": "counting fetch_add",
               "30": "CAS Idle->Pending", "40": "trigger post", "50": "CAS Pending->Notified", "60": "CAS Notified->Idle",
               "61": "trigger try_wait", "62": "trigger timed_wait", "63": "trigger blocking_wait", "64": "store Idle",
               "65": "trigger empty_buffer", "66": "second store Idle (after empty_buffer)", "69": "drain: data_ptr load", "70": "bit_set swap", "71": "counting swap"}


def build_explorer():
    """ocaml/c05/explore.ml (BFS over all schedules of the extracted model) -> build/c05explore/explore"""
    d = os.path.join(VERIF, "ocaml", "c05")
    bd = os.path.join(vlib.BUILD, "c05explore")
    os.makedirs(bd, exist_ok=True)
    exe = os.path.join(bd, "explore")
    srcs = [os.path.join(d, x) for x in ("model.mli", "model.ml", "explore.ml")]
    if os.path.exists(exe) and all(os.path.getmtime(exe) >= os.path.getmtime(s) for s in srcs):
        return True, exe
    rc, out = vlib.sh("cp %s %s/ && cd %s && ocamlfind ocamlopt -w -a -package str model.mli model.ml explore.ml -linkpkg -o explore" % (" ".join(srcs), bd, bd), timeout=600)
    return rc == 0, exe if rc == 0 else out[-2000:]


def run(ctx):
    proof_ok = vlib.proof_stage(ctx)
    ok, out = vlib.ocaml_driver("C05")
    if not ok:
        ctx.violation("extracted model / OCaml driver does not build", {"log": out}, no_input=True)
        return
    ok, out, tdir = vlib.g1_build(["c05"])
    if not ok:
        ctx.violation("G1 harness does not build against /repo with the instrumented atomics drop-in", {"log": out[-3000:]}, no_input=True)
        return
    exe = os.path.join(tdir, "c05")
    driver = os.path.join(VERIF, "ocaml", "c05", "driver")
    bound = 3 if ctx.thorough() else 2
    maxex = 600 if ctx.thorough() else 100
    nsh = 32
    jobs = [("wit", [exe, "wit"])]
    for i in range(nsh):
        jobs.append(("exh:%d" % i, [exe, "exh", str(bound), str(i), str(nsh), str(ctx.seed), str(maxex)]))
    nr = 12000 if ctx.thorough() else 1200
    for i in range(nsh):
        jobs.append(("rnd:%d" % i, [exe, "rnd", str(nr), str(i), str(nsh), str(ctx.seed)]))
    r = vlib.run_pipelines(jobs, driver, timeout=2400)
    ctx.cov.update({
        "evaluations": r["cases"], "distinct_nontrivial": r["distinct_nontrivial"],
        "traces_validated_against_impl": r["cases"], "accesses_compared": r["ops"],
        "notified_empty_trigger_executions": r["extra"].get("notified_empty_trigger_executions", 0),
        "blocked_forever_benign": r["extra"].get("blocked_forever_benign", 0),
        "rule": "notifier/listener programs (1..3 notifiers x 1..2 notifies over ids in two words, listener 1..3 waits try/timed/blocking, BitSet and "
                "CountingBitSet, trigger capacity unbounded and 1 with/without fail_when_buffer_is_full): schedules with <= %d preemptions (first %d per "
                "program, depth-first from the non-preempting schedule) + seeded random schedules of random programs (ids {0,1,65} / {0,1,5}, capacity inf/1/2) "
                "+ the schedules of the fixed lost wake-up (regression: must deliver); for every program ALL schedules with <= 1 preemption are run first; each execution of the REAL event::common over a model trigger under the baton scheduler is compared access by "
                "access (location bijection, kind, both orderings, values, CAS outcome, every callback and return value, final state incl. blocked-forever verdict) "
                "with the Coq step model on the same schedule; the oracle (kind=spec) is evaluated on the implementation's own observations" % (bound, maxex),
        "exhaustive": False,
    })
    smp = vlib.extract_case(jobs[0][1], driver, 1)
    ctx.cov["samples"] = [{"job": "wit (schedule of the fixed finding %s on the current code: delivers)" % FIXED_KEY, "execution": smp[:40]}]
    for lbl, cmd, rc, tail in r["failed_jobs"]:
        ctx.violation("correspondence job failed (harness or driver crashed): " + lbl, {"cmd": cmd, "rc": rc, "tail": tail}, no_input=True)
    spec_mm = [m for m in r["mismatch_lines"] if "kind=spec" in m[2]]
    model_mm = [m for m in r["mismatch_lines"] if "kind=model" in m[2]]
    reported = set()
    for lbl, cmd, line in spec_mm:
        sig = re.sub(r"\d+", "", line.split("] ", 1)[-1])
        if sig in reported:
            continue
        reported.add(sig)
        if len(reported) > 6:
            break
        case_no = int(line.split("case=")[1].split()[0])
        hist = vlib.extract_case(cmd.split(), driver, case_no)
        hdr = hist[0].split()[1:] if hist else []
        sline = [h for h in hist if h.startswith("S ")]
        replay = "%s one %s %s" % (exe, " ".join(hdr[:6]), sline[0][2:] if sline else "")
        ctx.violation("event property violated by the implementation under a concrete schedule: " + line,
                      {"execution": hist, "harness_cmd": cmd, "how_to_rerun": replay})
    unkeyed_spec = spec_mm
    found = None
    if model_mm and not unkeyed_spec:
        # SEARCH phase: the tie broke and no explored execution violated the property outside the known class:
        # explore the implementation ALONE (no model) on the slow-path / polling shapes to preemption bound 3
        sj = [[exe, "search", "3", str(i), "16", "4000"] for i in range(16)]
        import concurrent.futures as cf
        with cf.ThreadPoolExecutor(max_workers=vlib.NPROC) as ex:
            outs = list(ex.map(lambda a: vlib.sh(" ".join(a) + " 2>/dev/null", timeout=1500), sj))
        searched = 0
        for a, (rc, out) in zip(sj, outs):
            for l in out.split("\n"):
                if l.startswith("SEARCHED"):
                    searched += int(l.split()[1])
                if l.startswith("SEARCH-FOUND") and found is None:
                    found = (a, l)
        ctx.cov["search_phase_executions"] = searched
        if found:
            a, l = found
            parts = [x.strip() for x in l.split("|")]
            hdr = parts[1].split()[1:7]
            sched = parts[2][2:].strip()
            replay = "%s one %s %s" % (exe, " ".join(hdr), sched)
            rc, hist = vlib.sh(replay + " 2>/dev/null", timeout=120)
            ctx.violation("event property violated by the implementation under a concrete schedule (found by the search phase on the implementation alone, "
                          "after the trace correspondence broke): " + l,
                          {"execution": hist.split("\n")[:80], "how_to_rerun": replay, "first_divergence_of_the_tie": model_mm[0][2]})
    if model_mm and not unkeyed_spec and not found:
        lbl, cmd, line = model_mm[0]
        case_no = int(line.split("case=")[1].split()[0])
        hist = vlib.extract_case(cmd.split(), driver, case_no)
        ctx.violation("trace correspondence model<->implementation broken (first diverging access below); "
                      "no schedule violating the event property (outside the known class) found among those explored: " + line,
                      {"obligation": "G1 trace equality between model/Event.v (theorems c05_*) and iceoryx2-cal event::common + bit_set / counting_bit_set",
                       "first_divergence": line, "execution": hist, "harness_cmd": cmd, "other_divergences": [m[2] for m in model_mm[1:6]]}, no_input=True)
    # ---- port level (G3): histories over listener / notifier ports of one event service, local and ipc ----
    okp, outp, t3 = vlib.cargo_build("g3", bins=["c05"])
    if not okp:
        ctx.violation("G3 port-level harness does not build against /repo", {"log": outp[-3000:]}, no_input=True)
    else:
        pexe = os.path.join(t3, "c05")
        pj = []
        for svc in ("local", "ipc"):
            pj.append(("port:%s:holes" % svc, [pexe, svc, "holes"]))
            plen = 4 if (ctx.thorough() or svc == "local") else 3
            for i in range(8):
                pj.append(("port:%s:exh:%d" % (svc, i), [pexe, svc, "exh", str(plen), str(i), "8"]))
            for i in range(4):
                pj.append(("port:%s:rnd:%d" % (svc, i), [pexe, svc, "rnd", str(4000 if ctx.thorough() else 600), str(i), "4", str(ctx.seed)]))
        pr = vlib.run_pipelines(pj, driver + " port", timeout=900)
        ctx.cov["port_level"] = {
            "histories": pr["cases"], "operations_compared": pr["ops"], "distinct_history_prefixes": pr["distinct_nontrivial"], "opcount": pr["opcount"],
            "rule": "prologue (notifier + 3 listeners) ; every sequence of length 3 (ipc quick) / 4 over {create/drop listener 0..2, notify, try_wait on listener 0..2} ; "
                    "epilogue notify + every listener drains; plus the hole shapes (drop the lower-slot listener and keep the higher ones, re-fill the hole, drop the highest, "
                    "notifier created after the hole) and seeded random histories incl. notifier drop/create, default id, out-of-bounds ids, a 4th listener; real "
                    "iceoryx2::port::{notifier,listener}, local and ipc; every return value AND every delivery compared with model/EventPort.v",
        }
        for lbl, cmd, rc, tail in pr["failed_jobs"]:
            ctx.violation("port-level job failed (harness or driver crashed): " + lbl, {"cmd": cmd, "rc": rc, "tail": tail}, no_input=True)
        seenp = set()
        for lbl, cmd, line in pr["mismatch_lines"]:
            sig = re.sub(r"\d+", "", line.split("line=[")[1].split(" history-so-far")[0]) if "line=[" in line else line
            if sig in seenp or len(seenp) >= 3:
                continue
            seenp.add(sig)
            case_no = int(line.split("case=")[1].split()[0])
            hist = vlib.extract_case(cmd.split(), driver, case_no)
            opsline = " ".join(h.split()[1] for h in hist if h.startswith("O "))
            ctx.violation("port level: a notify that returned success did not reach every attached listener / wrong return or delivery under a concrete history: " + line,
                          {"history": hist, "harness_cmd": cmd, "how_to_rerun": "%s %s hist '%s'" % (pexe, cmd.split()[1], opsline)})
    # coverage of the model's access sites by the compared traces (counted by the driver), source lines from the witness job
    sites = {}
    rc, out = vlib.sh("(" + " ".join(jobs[0][1]) + "; VERIF_NO_XLINE=1 " + exe + " one bitset 10 inf bdt 0,9 0 0,1,1,1,1,1,1) 2>/dev/null | " + driver + " | grep ^SITE", timeout=600)
    for l in out.split("\n"):
        p = l.split()
        if len(p) == 6 and p[0] == "SITE":
            sites[p[1]] = {"source": p[2], "ord": p[3], "ord_fail": p[4]}
    ctx.cov["model_sites"] = {k: dict(sites.get(k, {}), what=MODEL_SITES[k], accesses=r["extra"].get("site_" + k, 0))
                              for k in sorted(MODEL_SITES, key=int)}
    missing = [k for k in MODEL_SITES if r["extra"].get("site_" + k, 0) == 0]
    if missing and not ctx.violations:
        ctx.violation("model access sites never exercised by the compared traces (the tie says nothing about them): %s" % missing, {"missing": missing}, no_input=True)
    # the three REAL triggers against the abstract trigger, sequentially
    rc, out = vlib.sh(exe + " trig 2>/dev/null", timeout=300)
    trig = [l for l in out.split("\n") if l.startswith("T ")]
    ctx.cov["real_triggers_sequential"] = trig
    bad = [l for l in trig if " FAIL" in l]
    if rc != 0 or not trig:
        ctx.violation("sequential check of the real triggers did not run", {"rc": rc, "out": out[-1500:]}, no_input=True)
    for l in bad[:3]:
        ctx.violation("a real trigger does not refine the abstract trigger sequentially: " + l, {"line": l, "how_to_rerun": exe + " trig"})
    for l in [l for l in out.split("\n") if l.startswith("NOTE ")]:
        ctx.notes.append(l[5:])
    # the schedule of the fixed finding on the REAL semaphore trigger (libc semaphore inside the real event::common): a timed_wait
    # that runs into its timeout although a notify returned Ok right after it began would be the lost wake-up again
    rc, out = vlib.sh(exe + " sem 300 2>/dev/null", timeout=120)
    sem = [l for l in out.split("\n") if l.startswith("SEM")]
    ctx.cov["real_semaphore_trigger_replay"] = sem
    if any("lost_wakeup_on_real_semaphore=true" in l for l in sem):
        ctx.violation("lost wake-up on the real semaphore trigger (schedule of the finding fixed by c0b284e): " + " | ".join(sem), {"lines": sem, "how_to_rerun": exe + " sem 300"})
    elif not any("control_immediate_wakeup=true" in l for l in sem):
        ctx.notes.append("real-semaphore replay inconclusive (timing): " + " | ".join(sem))
    # residual window (known finding, needs a notifier crash = fault model of C04): replayed on the real code with the
    # dying notifier parked for ever at its trigger post
    rc, out = vlib.sh(exe + " crash 2>/dev/null", timeout=120)
    cr = [l for l in out.split("\n") if l.startswith("CRASH-REPLAY")]
    ctx.cov["crash_residual_window_replay"] = cr
    for l in cr:
        if "lost=true" in l:
            ctx.violation("lost wake-up after a notifier crash between its state CAS and its trigger post (stale Pending->Notified promotion): " + l,
                          {"line": l, "how_to_rerun": exe + " crash"}, key=CRASH_KEY)
    if not cr:
        ctx.notes.append("crash replay did not run")
    # the model-side search: the lost-wake-up configurations of the model are exactly the known class
    ok, xp = build_explorer()
    if ok:
        tot = {"STATES": 0, "LOST_TERMINAL": 0, "LOST_NOT_BAD": 0, "INVFAIL": 0}
        insts = ["counting 1 inf tb 0,0", "bitset 10 inf bb 0|9,9", "counting 3 inf tbb 0,2|2,0", "bitset 10 1 btb 0,9|9,0 failfull"]
        if ctx.thorough():
            insts += ["bitset 10 inf tbb 0,9|9|0", "counting 2 2 dbb 0,1|1|0,0", "bitset 10 inf bbbb 1,9,1|9,1"]
        for pol in (["model", "all", "one"] if ctx.thorough() else ["model", "one"]):
            for a in insts:
                rc, out = vlib.sh("EXPLORE_POL=%s EXPLORE_MAX=6000000 %s %s" % (pol, xp, " ".join("'%s'" % x for x in a.split())), timeout=1200)
                for l in out.split("\n"):
                    p = l.split()
                    if p and p[0] in ("STATES", "LOST_TERMINAL", "LOST_NOT_BAD"):
                        tot[p[0]] += int(p[1])
                    if p and p[0] == "INVFAIL":
                        tot["INVFAIL"] += 1
        # sanity of the search itself: on the protocol before the repair it finds the old witness
        rc, out = vlib.sh("EXPLORE_REPAIRED=0 %s counting 1 inf tb 0,0" % xp, timeout=300)
        old_found = "WITNESS lost-terminal" in out
        ctx.cov["model_exploration_all_schedules"] = dict(tot, instances=insts, old_protocol_witness_found=old_found)
        if tot["LOST_TERMINAL"] or tot["LOST_NOT_BAD"] or tot["INVFAIL"] or not old_found:
            ctx.violation("exhaustive exploration of the step model: a terminal lost wake-up, a state violating a proved invariant, or the search no longer finds the old protocol's witness", dict(tot, old_found=old_found), no_input=True)
    else:
        ctx.notes.append("model explorer did not build: " + str(xp)[-300:])
    if not proof_ok and not ctx.violations:
        ctx.violation("proof obligation no longer checks: %s" % ctx.broken, {"broken": ctx.broken}, no_input=True)
    ctx.assumptions = [
        "sequentially consistent interleaving at access granularity (weak-memory behaviours are not exhibited by the model; the memory ordering of every access site is pinned by the trace comparison)",
        "the trigger is abstract (token counter with capacity; how many tokens a wait / empty_buffer leave is a parameter of the theorems); the three real triggers are only checked sequentially against it; kernel wake-up latency is not covered",
        "no thread crashes (a notifier dying between its state CAS and its trigger post after a stale promotion still loses a wake-up: known finding event:crash-between-cas-and-post-after-stale-promotion, replayed by the check); trigger capacity > 0",
        "one listener (thread 0) per event, any number of notifier threads; u64 sum of the counts returned by one drain not wrapped (unbounded N)",
        "tie = trace equality on the explored schedules; the gate (cargo paths override of iceoryx2-pal-concurrency-sync) is generated from /repo's current source",
    ]


if __name__ == "__main__":
    sys.exit(vlib.main(run, "C05"))
