#!/usr/bin/env python3
"""C17 -- orderly shutdown in any order leaves nothing behind.

translator (ownership graph from /repo's current sources) -> diff against the accepted table ->
proof stage (graph acyclic by computation; any-order / survivor theorems by induction) ->
harness: the real API, every drop order of object graphs of 4..8 objects per messaging pattern and
service variant, listing of the isolated domain after each drop (compared with the model's
finalisers) and a smoke operation on every survivor, leftovers and name reuse at the end.

What persists per domain after an orderly shutdown (everything else is a leftover):
  <root>/nodes/ and <root>/services/ (directories of the domain) and the global management
  segment /dev/shm/<prefix>.._node.<version>.global_mgmt (node/global_management_segment.rs:
  PersistentDynamicStorage, has_ownership(false); only testing::remove_global_mgmt_segment removes it).
"""
import difflib, json, os, re, shutil, sys, time
sys.path.insert(0, os.path.dirname(os.path.dirname(os.path.abspath(__file__))))
import vlib
from vlib import VERIF, REPO

GEN = os.path.join(VERIF, "coq", "gen", "OwnGraph.v")
WORK = os.path.join(vlib.BUILD, "c17")
VARIANTS = ["ipc", "local", "ipc_threadsafe", "local_threadsafe"]
NSLOTS = {("pubsub", 1): 6, ("pubsub", 2): 8, ("event", 1): 4, ("event", 2): 6, ("reqres", 1): 7, ("reqres", 2): 8,
          ("blackboard", 1): 6, ("blackboard", 2): 8, ("reqres2", 1): 9, ("rrovf", 1): 8, ("ps2", 1): 7, ("openfail", 1): 4}

# Candidate defects of /repo found by this check and reported to the lead, who decides between a
# fix: commit in /repo and an entry in known_findings.json (matched by the same key).  Until then
# the check prints CANDIDATE-DEFECT for them (with a replay file) instead of VIOLATION.  Remove a
# key here as soon as it is adjudicated; anything not listed (and not a known finding) is a VIOLATION.
PENDING_CANDIDATES = {}   # all candidates adjudicated: see known_findings.json


def classify(pattern, detail):
    """Stable key of a failing drop order: used to match known findings / pending candidates."""
    d = detail
    # the two known findings are keyed ONLY when the driver has verified their preconditions on the drop order
    # (markers below); the same symptom under any other order gets a generic key and is a VIOLATION
    if pattern == "pubsub" and d.startswith("survivor:sample:canary:") and ":its-subscriber-dropped-and-publisher-loaned-afterwards" in d:
        return "pubsub:sample-outlives-subscriber-chunk-reused"
    if pattern == "reqres2" and re.match(r"^survivor:pending_[ab]:received-\[\]-sent-", d) and "while-response_b-is-held" not in d:
        return "reqres:delivered-response-lost-when-sibling-polls-expired-connection"
    if re.match(r"^leftover:node_dirx\d+:last-holder-of-each-left-node-is-a-port-side-object:", d):
        return "node:details-dir-left-when-port-outlives-node"
    # anything else: a key that names what failed, without the history
    parts = [p for p in d.split(":") if not p.startswith("after=") and not p.startswith("order=")]
    return pattern + ":" + ":".join(parts)[:80]


def cleanup():
    """Remove what dead harness processes left in /dev/shm (private roots and prefixed objects)."""
    try:
        names = os.listdir("/dev/shm")
    except OSError:
        return
    for n in names:
        m = re.match(r"^(?:verif-c17-|c17_)(\d+)[-_]", n)
        if not m or os.path.exists("/proc/" + m.group(1)):
            continue
        vlib.sh(["rm", "-rf", os.path.join("/dev/shm", n)])


def run_pipes(jobs, driver, timeout=1500):
    """vlib.run_pipelines without the cap on kept MISMATCH lines (the driver already prints one line per failure class and job)."""
    import concurrent.futures as cf
    res = {"cases": 0, "ops": 0, "mismatches_model": 0, "mismatches_spec": 0, "distinct_nontrivial": 0,
           "mismatch_lines": [], "opcount": {}, "samples": [], "failed_jobs": [], "extra": {}}

    def one(job):
        label, argv = job
        cmd = " ".join(argv) + " 2>/dev/null | " + driver
        rc, out = vlib.sh("set -o pipefail; " + cmd, timeout=timeout)
        return label, argv, rc, out

    with cf.ThreadPoolExecutor(max_workers=vlib.NPROC) as ex:
        for label, argv, rc, out in ex.map(one, jobs):
            got_summary = False
            for line in out.split("\n"):
                if line.startswith("MISMATCH"):
                    res["mismatch_lines"].append((label, " ".join(argv), line))
                elif line.startswith("SUMMARY"):
                    got_summary = True
                    for kv in line.split()[1:]:
                        k, v = kv.split("=")
                        res[k] = res.get(k, 0) + int(v)
                elif line.startswith("OPCOUNT") or line.startswith("EXTRA"):
                    t, k, v = line.split()
                    d = res["opcount"] if t == "OPCOUNT" else res["extra"]
                    d[k] = d.get(k, 0) + int(v)
            if rc != 0 or not got_summary:
                res["failed_jobs"].append((label, " ".join(argv), rc, out[-800:]))
    return res


def table_rows(path):
    """Rows of a generated OwnGraph.v by NAME (independent of the numbering): types, edges with their
    position among the source's fields (declaration order), resource rows, policies."""
    sect = None
    names, rows, pos = {}, [], {}
    pending = []
    for line in open(path, errors="replace"):
        m = re.match(r"^Definition (own_\w+)", line)
        if m:
            sect = m.group(1)
            continue
        if sect == "own_types":
            m = re.match(r'^\s*\((\d+), "([^"]+)", (true|false), (true|false)\)', line)
            if m:
                names[m.group(1)] = m.group(2)
                rows.append("type %s has_drop=%s user_visible=%s" % (m.group(2), m.group(3), m.group(4)))
        elif sect == "own_edges":
            m = re.match(r'^\s*\((\d+), (\d+), (\w+), "([^"]+)"\)', line)
            if m:
                pending.append(m.groups())
        elif sect == "own_res":
            m = re.match(r'^\s*\((\d+), "([^"]+)", "(.*)"\);?\s', line)
            if m:
                rows.append("resource %s.%s : %s" % (names.get(m.group(1), "?" + m.group(1)), m.group(2), m.group(3)))
        elif sect == "own_decisions":
            m = re.match(r'^\s*\("([^"]+)", "(.*)"\);?\s*$', line)
            if m:
                rows.append("decision %s : %s" % m.groups())
        elif sect == "own_policies":
            m = re.match(r'^\s*\("(\w+)", "(\w+)", "(\w+)"\)', line)
            if m:
                rows.append("policy %s : %s (%s)" % m.groups())
    for src, dst, kind, field in pending:
        k = pos.get(src, 0)
        pos[src] = k + 1
        rows.append("edge %s -%s-> %s [field %s, #%d]" % (names.get(src, "?" + src), kind, names.get(dst, "?" + dst), field, k))
    return rows


def translate(ctx):
    """Regenerate the ownership table from /repo; returns (ok, fresh_path, diff_rows)."""
    wd = os.path.join(VERIF, "harness", "xlate-own")
    os.makedirs(WORK, exist_ok=True)
    vlib.sh("cp %s/Cargo.lock %s/Cargo.lock" % (REPO, wd))
    env = {"CARGO_TARGET_DIR": os.path.join(vlib.BUILD, "target-xlate"), "CARGO_NET_OFFLINE": "true"}
    rc, out = vlib.sh("timeout 1500 cargo build --offline -j%d" % vlib.NPROC, cwd=wd, env=env, timeout=1600)
    if rc != 0:
        return False, None, ["translator does not build: " + out[-1500:]]
    exe = os.path.join(env["CARGO_TARGET_DIR"], "debug", "xlate-own")
    fresh = os.path.join(WORK, "OwnGraph.v")
    rc, out = vlib.sh("timeout 120 %s %s %s %s" % (exe, REPO, fresh, os.path.join(WORK, "OwnGraph.json")), timeout=150)
    if rc != 0:
        return False, None, ["translator failed (rc %d): %s" % (rc, out[-1500:])]
    a = table_rows(GEN) if os.path.exists(GEN) else []
    b = table_rows(fresh)
    rows = ["- " + r for r in a if r not in set(b)] + ["+ " + r for r in b if r not in set(a)]
    if not rows and open(GEN).read() != open(fresh).read():
        rows = ["~ same rows, different text/numbering (regenerated file differs from the accepted copy)"]
    return True, fresh, rows


def jobs_for(ctx, exe):
    th = ctx.thorough()
    seed = str(ctx.seed)
    jobs = []

    def exh(v, p, nn, nsh):
        for i in range(nsh):
            jobs.append(("exh:%s:%s:%d:%d" % (v, p, nn, i), [exe, "exh", v, p, str(nn), str(i), str(nsh)]))

    def rnd(v, p, nn, nsh, count):
        for i in range(nsh):
            jobs.append(("rnd:%s:%s:%d:%d" % (v, p, nn, i), [exe, "rnd", v, p, str(nn), str(i), str(nsh), seed, str(count)]))

    def fam(v, nsh, count, p="reqres2"):
        for i in range(nsh):
            jobs.append(("fam:%s:%s:%d" % (v, p, i), [exe, "fam", v, p, "1", str(i), str(nsh), seed, str(count)]))

    plan = {"exhaustive": [], "sampled": [], "regressions": []}
    # minimal orders of the findings so far run on every tier
    for v in ("ipc", "local"):
        for p, nn, order in (("ps2", 1, "2,3,0,1,4,5,6"), ("rrovf", 1, "3,4,0,1,2,5,6,7"), ("reqres2", 1, "6,3,8,7,0,1,2,4,5"), ("reqres2", 1, "3,8,7,0,1,2,4,5,6"), ("pubsub", 1, "3,0,1,2,4,5"), ("event", 1, "0,1,2,3")):
            jobs.append(("perm:%s:%s:%s" % (v, p, order), [exe, "perm", v, p, str(nn), order]))
            plan["regressions"].append("%s %s %s" % (v, p, order))
    # a REJECTED open (service created with max_nodes(1), a second node's open() refused): all 24 orders of
    # node_a, svc, node_b, publisher; nothing of the failed open may stay (no service tag, node_b's directory removable)
    for v in (VARIANTS if th else ("ipc", "local")):
        exh(v, "openfail", 1, 1)
        plan["exhaustive"].append("%s openfail (24)" % v)
    # request-response with two requests of one client in flight: the server side (server, active_a, active_b) is dropped
    # first in each of its 6 orders, followed by client-side orders; plus unrestricted random orders of the 9 slots
    if not th:
        for v in VARIANTS:
            n = 6 if v in ("ipc", "local") else 2
            fam(v, 1, n)
            rnd(v, "reqres2", 1, 1, 15)
            plan["sampled"] += ["%s reqres2 server-side-first: 6 x %d of 720 client-side orders" % (v, n), "%s reqres2: 15 of 9!" % v]
            # one client, two servers, expired-connection buffer 1: both orders of the servers first, then client-side orders
            fam(v, 1, 4, "rrovf")
            rnd(v, "rrovf", 1, 1, 8)
            plan["sampled"] += ["%s rrovf servers-first: 2 x 4 of 720, 8 of 8!" % v]
            # two publishers, a Sample of each held, subscriber_expired_connection_buffer = 1 < max borrowed samples: publishers first
            fam(v, 1, 4 if v in ("ipc", "local") else 2, "ps2")
            rnd(v, "ps2", 1, 1, 6)
            plan["sampled"] += ["%s ps2 publishers-first: 2 x %d of 120, 6 of 7!" % (v, 4 if v in ("ipc", "local") else 2)]
    else:
        for v in VARIANTS:
            # (sized so that the tier ends within about half an hour in this sandbox: the complete enumerations run on
            # local::Service, the file-system backed variants are sampled)
            if v == "local":
                fam(v, 16, 0)
                plan["exhaustive"].append("%s reqres2 server-side-first: 6 x 720" % v)
            else:
                fam(v, 4, 60)
                plan["sampled"].append("%s reqres2 server-side-first: 6 x 60" % v)
            rnd(v, "reqres2", 1, 8, 100)
            plan["sampled"].append("%s reqres2: 800 of 9!" % v)
            fam(v, 8, 0 if v == "local" else 60, "rrovf")
            rnd(v, "rrovf", 1, 4, 100)
            fam(v, 4, 0, "ps2")
            rnd(v, "ps2", 1, 4, 100)
            plan["exhaustive"].append("%s ps2 publishers-first: 2 x 120; 400 of 7!" % v)
            plan["exhaustive" if v == "local" else "sampled"].append("%s rrovf servers-first: 2 x %s; 400 of 8!" % (v, "720" if v == "local" else "60"))
    if not th:
        for v in ("ipc", "local"):
            exh(v, "pubsub", 1, 6)
            exh(v, "event", 1, 1)
            plan["exhaustive"] += ["%s pubsub 1 node (720)" % v, "%s event 1 node (24)" % v]
        for v in VARIANTS:
            for p, nn in (("pubsub", 2), ("event", 2), ("reqres", 1), ("reqres", 2), ("blackboard", 1), ("blackboard", 2)):
                rnd(v, p, nn, 1, 15)
                plan["sampled"].append("%s %s %d node(s): 15 of %d!" % (v, p, nn, NSLOTS[(p, nn)]))
        for v in ("ipc_threadsafe", "local_threadsafe"):
            for p in ("pubsub", "event"):
                rnd(v, p, 1, 1, 24 if p == "event" else 30)
                plan["sampled"].append("%s %s 1 node" % (v, p))
    else:
        for v in VARIANTS:
            for p in ("pubsub", "event", "reqres", "blackboard"):
                exh(v, p, 1, 8 if NSLOTS[(p, 1)] > 4 else 1)
                plan["exhaustive"].append("%s %s 1 node (%d!)" % (v, p, NSLOTS[(p, 1)]))
            exh(v, "event", 2, 4)
            plan["exhaustive"].append("%s event 2 nodes (720)" % v)
        for p in ("pubsub", "reqres", "blackboard"):
            for v in VARIANTS:
                rnd(v, p, 2, 8, 120)
                plan["sampled"].append("%s %s 2 nodes: 960 of 40320" % (v, p))
    return jobs, plan


def run(ctx):
    os.makedirs(WORK, exist_ok=True)
    t0 = time.time()
    ok, fresh, rows = translate(ctx)
    ctx.cov["translator"] = {"tool": "harness/xlate-own (syn 2)", "wall_s": round(time.time() - t0, 1), "rows_changed": rows[:40]}
    table_changed = bool(rows)
    accepted_backup = None
    if not ok:
        ctx.violation("ownership-graph translator failed on /repo's current sources", {"log": rows}, no_input=True)
        return
    if table_changed:
        # the proofs are re-run against the table of the CURRENT sources; the accepted copy is put back afterwards
        ctx.log("generated ownership table differs from the accepted copy:", rows[:10])
        accepted_backup = os.path.join(WORK, "OwnGraph.accepted.v")
        shutil.copyfile(GEN, accepted_backup)
        shutil.copyfile(fresh, GEN)
    try:
        proof_ok = vlib.proof_stage(ctx)
        ok, out = vlib.ocaml_driver("C17")
    finally:
        if accepted_backup:
            shutil.copyfile(accepted_backup, GEN)
            os.utime(GEN, None)
    if not ok:
        ctx.violation("extracted model / OCaml driver does not build", {"log": out}, no_input=True)
        return
    ok, out, tdir = vlib.cargo_build("g3", bins=["c17"])
    if not ok:
        ctx.violation("harness does not build against /repo", {"log": out}, no_input=True)
        return
    exe = os.path.join(tdir, "c17")
    driver = os.path.join(VERIF, "ocaml", "c17", "driver")
    try:
        graph = json.load(open(os.path.join(WORK, "OwnGraph.json")))
        ctx.cov["generated_graph"] = {"types": len(graph["types"]), "edges": graph["edges"], "resources": graph["resources"], "decisions": graph.get("decisions"),
                                      "policies": graph["policies"], "leaves_not_modelled": graph["leaves"]}
    except Exception as ex:
        ctx.cov["generated_graph"] = "unreadable: %r" % (ex,)

    if getattr(ctx, "replay", None):
        body = json.load(open(ctx.replay))
        cmd = body.get("harness_cmd")
        if not cmd:
            ctx.violation("replay file names no harness command", {"replay": ctx.replay}, no_input=True)
            return
        r = run_pipes([("replay", cmd.split())], driver, timeout=300)
        cleanup()
        ctx.cov.update({"evaluations": r["cases"], "ops_executed": r["ops"], "rule": "replay of " + ctx.replay})
        report(ctx, r, exe, driver, replaying=True)
        if not r["mismatch_lines"] and not r["failed_jobs"]:
            ctx.log("replay passes: no mismatch in", r["cases"], "cases")
        return

    jobs, plan = jobs_for(ctx, exe)
    t1 = time.time()
    r = run_pipes(jobs, driver, timeout=3000 if ctx.thorough() else 900)
    cleanup()
    per = {}
    for k, v in r["opcount"].items():
        if k.startswith("cases_"):
            _, p, var = k.split("_", 2)
            per.setdefault(p, {})[var] = v
    ctx.cov.update({
        "evaluations": r["cases"], "distinct_nontrivial": r["distinct_nontrivial"],
        "traces_validated_against_impl": r["cases"], "ops_executed": r["ops"],
        "op_distribution": {k: v for k, v in r["opcount"].items() if not k.startswith("cases_")},
        "drop_orders_per_pattern_and_variant": per, "outcome_distribution": r["extra"], "plan": plan,
        "harness_wall_s": round(time.time() - t1, 1),
        "rule": "every drop order (a permutation of the slots) is executed on the REAL API in a fresh private root "
                "/dev/shm/verif-c17-<pid>-<n> with its own prefix, batches in child processes; after EACH drop the domain's files are "
                "listed and counted per resource kind and compared with the extracted model's state after the same drop (kind=model), and "
                "a smoke operation runs on every survivor (publisher: 1+3 simultaneous loans, send; subscriber: receive; loan and received "
                "sample: canary compare; notifier: notify; listener: try_wait; client: 1+3 requests; server: receive+respond; pending "
                "response: receive + request canary; active request: canary + 1+3 responses; response: canary; family reqres2 (two requests of one "
                "client in flight, one borrowed Response): every pending response must receive EXACTLY the responses sent to it and not yet "
                "received (each live active request sends one per round, after the pending responses drained), zero-copy payloads are first read "
                "in a forked child so that an unmapped segment is reported as payload-unreadable-signal-11; family rrovf (one client, two servers, "
                "client_expired_connection_buffer = 1, the second server's connection holds a borrowed Response: the borrowed Response must stay "
                "readable when both servers are gone; no model instance, property-side checks only); family ps2 (two publishers, the subscriber "
                "holds a Sample of each, subscriber_expired_connection_buffer = 1 < max borrowed samples 3, publishers dropped first: the subscriber "
                "must keep receiving and both samples must stay readable; no model instance); the two known findings are keyed only when the driver "
                "has verified their preconditions on the drop order (F2: the probed Sample's own subscriber was dropped and its publisher was probed "
                "at or after that drop and the new value is one the publisher's probe writes; node directory: the number of left directories equals "
                "the number of nodes whose last-dropped holder is a port-side object), the same symptom otherwise is an unkeyed VIOLATION; writer/reader: fresh entry "
                "handle on another key / same key; entry handles: update / read-back; node: Node::list; service handle: nodes() + dynamic "
                "config), panics caught per drop/smoke; at the end leftovers (anything but nodes/, services/, *.global_mgmt), Node::list / "
                "Service::list must be empty and node + service are re-created under the same names with different settings and used once. "
                "exhaustive = all k! orders; sampled = seeded Fisher-Yates. distinct = distinct (pattern, nodes, order) ignoring the variant",
        "exhaustive": False,
        "excluded_from_orders": "objects whose type carries a lifetime tied to another object cannot be dropped after it (the compiler "
                                "rejects the program): WaitSetGuard<'waitset,'attachment> (borrows the WaitSet and the attached object; generated "
                                "table: Borrow edge WaitSetGuard -> WaitSet), the port builders PortFactoryPublisher/Subscriber/Client/Server/"
                                "Notifier/Listener/Writer/Reader<'factory>, Monofier<'a>, ArcSyncPolicy::LockGuard<'parent>. Not held in flight "
                                "by the harness: SampleMutUninit, RequestMut(Uninit), ResponseMut(Uninit), EntryValueUninit (same keeps edges as "
                                "their initialised forms, see the generated table); multi-threaded drops; more than one port per kind.",
        "persists_per_domain": ["<root>/nodes/", "<root>/services/", "/dev/shm/<prefix>*_node.<version>.global_mgmt"],
    })
    samples = []
    for lbl, argv in jobs[:1] + jobs[-1:]:
        c = vlib.extract_case(argv, driver, 1)
        if c:
            samples.append({"job": lbl, "case": [x[:300] for x in c[:12]]})
    ctx.cov["samples"] = samples
    report(ctx, r, exe, driver)
    if table_changed:
        ctx.violation("generated ownership table differs from the accepted copy coq/gen/OwnGraph.v (the proofs and the harness above ran "
                      "against the regenerated table); rows: " + " | ".join(rows[:6]),
                      {"obligation": "translator tie: gen/OwnGraph.v = xlate-own(/repo)", "rows": rows[:200],
                       "how_to_accept": "cp build/c17/OwnGraph.v coq/gen/OwnGraph.v after review"}, no_input=True)
    if not proof_ok and not ctx.violations:
        ctx.violation("proof obligation no longer checks: %s" % ctx.broken,
                      {"broken": ctx.broken, "searched": "all drop orders above agree with the model and the property"}, no_input=True)
    ctx.level = "proof"
    ctx.assumptions = [
        "theorems are about the Gallina model coq/model/Own.v: reference counting over a finite object graph; an owned field is a counted reference with count 1; finalisers are lists of created/removed named resources",
        "the type-level keeps graph is generated from /repo by harness/xlate-own (trusted for what it extracts: struct/enum fields of the scanned files, Arc/Rc/Service::ArcThreadSafetyPolicy = Counted, by-value = Owned, &'a = Borrow, &'static = StaticRef); two OS-level sharing edges are added by hand (ServiceState -> os::Service via the node registry in the dynamic config, Sender/Receiver -> os::Connection) and are not derived from the source",
        "instances (coq/model/Own.v scenario) are hand-written transcriptions of the constructors; they are tied to the implementation only by the per-drop resource counts of the ipc variants (connections: implementation <= model, because a port also releases its end when it notices the peer is gone; node directories: implementation >= model because of the pending candidate defect) and by Node::list/Service::list counts for the local variants",
        "dependencies of a survivor that are not keeps edges (the chunk a Sample reads, registry entries in shared memory) are outside c17_survivor_keeps_deps; the harness checks them behaviourally (canaries)",
        "Rust lifetimes (Borrow edges) are enforced by the compiler and not modelled; single-threaded drops only; no crash (C04) and no concurrent create/open (C06)",
        "extraction: ExtrOcamlBasic only; OCaml driver parses/prints and caches the instance per scenario",
    ]


def report(ctx, r, exe, driver, replaying=False):
    for lbl, cmd, rc, tail in r["failed_jobs"]:
        # a child that aborts or hangs ends its pipeline with a non-zero code; the driver names the unfinished case
        if not any("case-did-not-finish" in m[2] or "harness-process-ended-early" in m[2] for m in r["mismatch_lines"] if m[0] == lbl):
            ctx.violation("correspondence job failed (harness or driver crashed): " + lbl, {"cmd": cmd, "rc": rc, "tail": tail}, no_input=True)
    spec_mm = [m for m in r["mismatch_lines"] if "kind=spec" in m[2]]
    model_mm = [m for m in r["mismatch_lines"] if "kind=model" in m[2]]
    known_keys = {k.get("key") for k in ctx.known if k.get("status", "known") == "known"}
    # per key: the occurrence that fails earliest
    best = {}
    for lbl, cmd, line in spec_mm:
        hdr = line.split(" hdr=")[1].split()[0] if " hdr=" in line else "?/?/?/?"
        variant, pattern, nn, order = (hdr.split("/") + ["?"] * 4)[:4]
        detail = line.split(" detail=")[1].split(" model=")[0]
        op = int(line.split(" op=")[1].split()[0])
        cnt = int(line.split(" count=")[1].split()[0]) if " count=" in line else 1
        key = classify(pattern, detail)
        cur = best.get(key)
        rank = (op, len(order), variant != "ipc", order)
        if cur is None or rank < cur["rank"]:
            best[key] = {"rank": rank, "line": line, "variant": variant, "pattern": pattern, "nn": nn, "order": order,
                         "detail": detail, "count": (cur["count"] if cur else 0) + cnt}
        else:
            cur["count"] += cnt
    candidates = {}
    nviol = 0
    for key, b in sorted(best.items()):
        cmd = "%s perm %s %s %s %s" % (exe, b["variant"], b["pattern"], b["nn"], b["order"])
        names_rc, hist = vlib.sh(cmd + " 2>/dev/null", timeout=120)
        body = {"drop_order_slots": b["order"], "variant": b["variant"], "pattern": b["pattern"], "nodes": b["nn"],
                "history": [l[:400] for l in hist.split("\n") if l[:2] in ("C ", "S ", "O ")][:14], "mismatch": b["line"][:900],
                "occurrences_in_this_run": b["count"], "harness_cmd": cmd, "how_to_rerun": cmd + " | " + driver}
        cleanup()
        if key in PENDING_CANDIDATES and key not in known_keys:
            d = os.path.join(getattr(vlib, "OUT", VERIF), "replays", "C17")
            os.makedirs(d, exist_ok=True)
            path = os.path.join(d, "candidate-" + key.replace(":", "-") + ".json")
            body.update({"property": "C17", "key": key, "what": PENDING_CANDIDATES[key], "status": "candidate, reported to the lead, not adjudicated"})
            open(path, "w").write(json.dumps(body, indent=1, sort_keys=True))
            print("CANDIDATE-DEFECT: property=C17 key=%s replay=%s %s" % (key, path, PENDING_CANDIDATES[key]), flush=True)
            candidates[key] = {"what": PENDING_CANDIDATES[key], "replay": path, "occurrences": b["count"], "minimal_order": b["order"],
                               "variant": b["variant"], "pattern": b["pattern"], "nodes": b["nn"]}
            continue
        if nviol < 8:
            what = ("replay still fails: " if replaying else "drop order violates the property: ") + b["detail"][:200] + \
                   " [%s %s, %s node(s), order %s]" % (b["variant"], b["pattern"], b["nn"], b["order"])
            if ctx.violation(what, body, key=key):
                nviol += 1
    ctx.cov["candidate_defects_pending"] = candidates
    ctx.cov["failing_classes"] = {k: {"occurrences": b["count"], "minimal_order": b["order"], "variant": b["variant"], "pattern": b["pattern"], "nodes": b["nn"]}
                                  for k, b in best.items()}
    if model_mm:
        seen = set()
        for lbl, cmd, line in model_mm:
            cls = line.split(" class=")[1].split()[0] if " class=" in line else line[:80]
            if cls in seen or len(seen) >= 3:
                continue
            seen.add(cls)
            hdr = line.split(" hdr=")[1].split()[0] if " hdr=" in line else "?/?/?/?"
            variant, pattern, nn, order = (hdr.split("/") + ["?"] * 4)[:4]
            rc = "%s perm %s %s %s %s" % (exe, variant, pattern, nn, order)
            ctx.violation("correspondence model<->implementation broken (resource counts after a drop differ from coq/model/Own.v): " + line[:400],
                          {"obligation": "G3 correspondence of coq/model/Own.v (finalisers, scenario) with the implementation", "mismatch": line[:900],
                           "harness_cmd": rc, "how_to_rerun": rc + " | " + driver}, no_input=True)


if __name__ == "__main__":
    sys.exit(vlib.main(run, "C17"))
