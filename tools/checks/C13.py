#!/usr/bin/env python3
"""C13 -- connection lifecycle: one sender, one receiver, removed once by the last."""
import os, sys
sys.path.insert(0, os.path.dirname(os.path.dirname(os.path.abspath(__file__))))
import vlib
from vlib import VERIF

# model pc sites (EAcc site numbers of model/ConnState.v) that the tie must exercise
MODEL_SITES = {"1": "open_or_create", "2": "open (remove_port)", "3": "remove_cfg", "10": "reserve_port load",
               "11": "reserve_port CAS", "12": "has_ownership (create)", "13": "release_ownership (creator attached)",
               "14": "release_ownership (reserve_port failed)", "20": "remove_state load", "21": "remove_state CAS",
               "22": "acquire_ownership", "23": "has_ownership (Storage::drop)", "30": "is_connected load"}

KEY_FORCED = "conn:forced-removal-after-mark-second-owner"

# schedules that run first.  (program, harness schedule, what they are)
REGRESSIONS = [
    ("cs0|cs0", "0,1,1,1,0,0,0",
     "two concurrent create_sender: the creator loses reserve_port to the opener (was: the losing creator, still owner, removed the storage the winner is attached to; repaired by 7ef8623)"),
    ("cs0,cs0|cr0,d0", "0,1,1,1,1,1,1,1,0,0,0,0,0,0,0,0,0,1,1",
     "DESIGN F14: creator fails with IsBeingCleanedUp while the last detacher owns; retry re-creates; the detacher's drop must not remove the new incarnation (repaired by 7ef8623)"),
]
# witness of c13_unlink_once_refuted (props/C13.v w_progs / w_sched without the silent leak step)
KNOWN_WITNESS = ("cs0,l0,fs,cs0|fs", "0,0,0,0,0,0,0,0,0,0,1,0,0,0,0,1,1,1,1,0,0")


def has_forced(line):
    """does the program of a MISMATCH/header line contain a forced removal?"""
    if "header=[" not in line:
        return False
    toks = line.split("header=[")[1].split("]")[0].split()
    prog = toks[1] if len(toks) > 1 else ""
    ops = [o for t in prog.split("|") for o in t.split(",")]
    return "fs" in ops or "fr" in ops


def run_pipes(jobs, driver, timeout=1500, keep=40):
    """like vlib.run_pipelines, but keeps kind=spec and kind=model lines separately (a flood of one kind must not
    crowd out the other) and never waits longer than `timeout` per job"""
    import concurrent.futures as cf
    res = {"cases": 0, "ops": 0, "mismatches_model": 0, "mismatches_spec": 0, "distinct_nontrivial": 0,
           "spec": [], "model": [], "failed_jobs": []}
    perclass = {}

    def one(job):
        label, argv = job
        rc, out = vlib.sh("set -o pipefail; " + " ".join(argv) + " 2>/dev/null | " + driver, timeout=timeout)
        return label, argv, rc, out

    with cf.ThreadPoolExecutor(max_workers=vlib.NPROC) as ex:
        for label, argv, rc, out in ex.map(one, jobs):
            got = False
            for line in out.split("\n"):
                if line.startswith("MISMATCH"):
                    if "kind=spec" in line:
                        cls = line.rsplit("class=", 1)[1] if "class=" in line else "?"
                        perclass[cls] = perclass.get(cls, 0) + 1
                        if perclass[cls] <= keep:
                            res["spec"].append((label, " ".join(argv), line))
                    elif len(res["model"]) < keep:
                        res["model"].append((label, " ".join(argv), line))
                elif line.startswith("SUMMARY"):
                    got = True
                    for kv in line.split()[1:]:
                        k, v = kv.split("=")
                        res[k] = res.get(k, 0) + int(v)
            if rc != 0 or not got:
                res["failed_jobs"].append((label, " ".join(argv), rc, out[-800:]))
    return res


def run_one(exe, driver, prog, sched):
    rc, out = vlib.sh("%s one '%s' %s 2>/dev/null" % (exe, prog, sched), timeout=120)
    rc2, res = vlib.sh(driver, inp=out, timeout=120)
    mm = [l for l in res.split("\n") if l.startswith("MISMATCH")]
    summ = [l for l in res.split("\n") if l.startswith("SUMMARY")]
    return out.split("\n"), mm, (summ[0] if summ else ""), rc, rc2


def run(ctx):
    proof_ok = vlib.proof_stage(ctx)
    ok, out = vlib.ocaml_driver("C13")
    if not ok:
        ctx.violation("extracted model / OCaml driver does not build", {"log": out}, no_input=True)
        return
    ok, out, tdir = vlib.g1_build(["c13"])
    if not ok:
        ctx.violation("G1 harness does not build against /repo with the instrumented atomics drop-in", {"log": out[-3000:]}, no_input=True)
        return
    exe = os.path.join(tdir, "c13")
    driver = os.path.join(VERIF, "ocaml", "c13", "driver")

    # ---- 1. regression schedules (repaired defect F14), then the witness of the recorded finding ----
    reg = []
    for prog, sched, what in REGRESSIONS:
        trace, mm, summ, rc, rc2 = run_one(exe, driver, prog, sched)
        reg.append({"program": prog, "schedule": sched, "what": what, "summary": summ, "mismatches": mm})
        if rc != 0 or rc2 != 0 or not summ:
            ctx.violation("regression replay crashed: %s %s" % (prog, sched), {"rc": [rc, rc2], "trace": trace[-30:]}, no_input=True)
        for m in mm:
            if "kind=spec" in m:
                ctx.violation("double-owner unlink WITHOUT forced removal (regression schedule of F14 fails again): " + m,
                              {"execution": trace, "how_to_rerun": "%s one '%s' %s | %s" % (exe, prog, sched, driver), "what": what})
            else:
                ctx.violation("trace correspondence broken on a regression schedule: " + m,
                              {"execution": trace, "how_to_rerun": "%s one '%s' %s | %s" % (exe, prog, sched, driver)}, no_input=True)
    ctx.cov["regression_schedules"] = reg
    ctx.cov["samples"] = [{"job": "regression %s %s" % (REGRESSIONS[0][0], REGRESSIONS[0][1]), "execution": run_one(exe, driver, REGRESSIONS[0][0], REGRESSIONS[0][1])[0][:30]}]
    prog, sched = KNOWN_WITNESS
    trace, mm, summ, rc, rc2 = run_one(exe, driver, prog, sched)
    spec = [m for m in mm if "kind=spec" in m]
    model = [m for m in mm if "kind=model" in m]
    ctx.cov["refuted_witness_replay"] = {"program": prog, "schedule": sched, "summary": summ, "spec_mismatch": spec[:1]}
    if model:
        ctx.violation("witness of c13_unlink_once_refuted: implementation trace differs from the model: " + model[0],
                      {"execution": trace, "how_to_rerun": "%s one '%s' %s | %s" % (exe, prog, sched, driver)}, no_input=True)
    elif spec and "class=second-owner-after-mark" not in spec[0]:
        ctx.violation("witness schedule of c13_unlink_once_refuted violates the property in a way the model does not explain: " + spec[0],
                      {"execution": trace, "how_to_rerun": "%s one '%s' %s | %s" % (exe, prog, sched, driver)})
    elif spec:
        ctx.violation("forced removal that finds the byte already MarkedForDestruction becomes a second storage owner; its drop removes a "
                      "re-created connection while the new sender is attached (witness of c13_unlink_once_refuted replayed on the implementation): " + spec[0],
                      {"execution": trace, "how_to_rerun": "%s one '%s' %s | %s" % (exe, prog, sched, driver),
                       "posix_shared_memory": "%s posix '%s' 0,0,0,0,0,0,0,0,0,0,1,0,0,0,0,0,1,1,1,1,1" % (exe, prog)}, key=KEY_FORCED)
    else:
        ctx.notes.append("the witness schedule of c13_unlink_once_refuted no longer violates the property on the implementation "
                         "(remove_state / remove_port changed?) -- the model still has it: the tie below decides")

    # ---- 2. model exploration (search component): no bad unlink without forced removal ----
    ex_cmd = "explore 2 3 plain" if ctx.thorough() else "explore 2 2 plain"
    rc, ex_out = vlib.sh("%s %s" % (driver, ex_cmd), timeout=900)
    goals = {l.split()[1]: l for l in ex_out.split("\n") if l.startswith("GOAL")}
    explored = [l for l in ex_out.split("\n") if l.startswith("EXPLORED")]
    ctx.cov["model_exploration"] = {"cmd": "driver " + ex_cmd, "result": explored[:1], "goals": goals}
    if rc != 0 or not explored:
        ctx.violation("model explorer failed", {"rc": rc, "out": ex_out[-1500:]}, no_input=True)
    elif "none" not in goals.get("full", ""):
        ctx.violation("the extracted model has a bad unlink WITHOUT forced removal (contradicts c13_unlink_once_no_forced_removal?): " + goals.get("full", ""),
                      {"explorer": ex_out[-3000:]})

    # ---- 3. correspondence pipelines ----
    bound = 3 if ctx.thorough() else 2
    cap = 2500 if ctx.thorough() else 100
    nsh = 16
    jobs = []
    for i in range(nsh):
        jobs.append(("exh:%d" % i, [exe, "exh", str(bound), str(i), str(nsh), str(ctx.seed), str(cap)]))
    nr = 10000 if ctx.thorough() else 1000
    for i in range(nsh):
        jobs.append(("rnd:%d" % i, [exe, "rnd", str(nr), str(i), str(nsh), str(ctx.seed)]))
    for i in range(nsh):
        jobs.append(("seq:%d" % i, [exe, "seq", "5", str(i), str(nsh)]))
    r = run_pipes(jobs, driver, timeout=2400)
    # posix_shared_memory storage: sequential histories, oracle on the observations only
    plen = 5 if ctx.thorough() else 4
    pjobs = [("posixseq:%d" % i, [exe, "posixseq", str(plen), str(i), "8"]) for i in range(8)]
    rp = run_pipes(pjobs, driver + " oracle", timeout=1200)

    # site coverage + ordering table from one small direct run
    rc, res = vlib.sh("set -o pipefail; (%s rnd 300 0 1 %d; %s seq 3 0 1) 2>/dev/null | %s" % (exe, ctx.seed, exe, driver), timeout=900)
    sites = {}
    for l in res.split("\n"):
        if l.startswith("SITE"):
            _, ms, src, o, of, n = l.split()
            sites[ms] = {"source": src, "ord": o, "ord_fail": of, "count": int(n), "what": MODEL_SITES.get(ms, "?")}
    ctx.cov["sites"] = sites
    missing = [s for s in MODEL_SITES if s not in sites]
    if missing:
        ctx.violation("model access sites never exercised by the tie (the correspondence says nothing about them): %s" % missing,
                      {"sites": sites}, no_input=True)

    ctx.cov.update({
        "evaluations": r["cases"] + rp["cases"], "distinct_nontrivial": r["distinct_nontrivial"],
        "traces_validated_against_impl": r["cases"], "accesses_compared": r["ops"],
        "posix_shared_memory_histories": rp["cases"],
        "rule": "every schedule with <= %d preemptions (capped at %d executions per program) of 2- and 3-thread programs of create_sender / create_receiver "
                "(matching and all mismatching parameter kinds) / drop / leak / forced remove_sender|remove_receiver (of attached, dead and NOT attached roles, one and two "
                "cleaners) / is_connected on one connection name over process_local storage; seeded random programs and schedules; ALL sequential histories up to length 5 of "
                "the same operations; each execution of the REAL code under the baton scheduler is compared with the Coq step model on the same schedule: every access to the "
                "state byte and to the ownership flag (site, location = incarnation / handle, kind, both orderings, value read / written, CAS outcome), every storage-level "
                "operation (hit / miss / create / remove), every return value incl. does_exist after each operation, final does_exist; plus all sequential histories up to "
                "length %d on posix_shared_memory storage (observations only). Oracle (kind=spec) on the implementation's own observations, independent of the model: second "
                "attach refused, no two attached ports of a role, does_exist while a port is attached, is_connected while both sides are attached, a removed connection "
                "reappears only through a create, nothing left when all ports are gone" % (bound, cap, plen),
        "exhaustive": False,
    })
    for lbl, cmd, rc, tail in r["failed_jobs"] + rp["failed_jobs"]:
        ctx.violation("correspondence job failed (harness or driver crashed): " + lbl, {"cmd": cmd, "rc": rc, "tail": tail}, no_input=True)

    def rerun(line):
        """the execution of a MISMATCH line, re-run from the program and the schedule in its header"""
        toks = line.split("header=[")[1].split("]")[0].split() if "header=[" in line else []
        if len(toks) < 2:
            return [], ""
        sched = ""
        for t in toks:
            if t.startswith("s="):
                sched = t[2:]
        cmdline = "%s one '%s' '%s'" % (exe, toks[1], sched)
        rc, out = vlib.sh(cmdline + " 2>/dev/null", timeout=120)
        return out.split("\n")[:80], cmdline + " | " + driver

    spec_all = r["spec"] + rp["spec"]
    known = [m for m in spec_all if "class=second-owner-after-mark" in m[2]]
    misuse = [m for m in spec_all if "class=forced-removal-of-live-port" in m[2]]
    unexplained = [m for m in spec_all if m not in known and m not in misuse]
    ctx.cov["spec_mismatches"] = {"total": r["mismatches_spec"] + rp["mismatches_spec"], "second_owner_after_mark(lines kept)": len(known),
                                  "forced_removal_of_a_live_port_excluded(lines kept)": len(misuse), "unexplained(lines kept)": len(unexplained)}
    if misuse:
        ctx.notes.append("%d kept executions violate the oracle only because a remove_sender/remove_receiver cleared the bit of a LIVE port that attached while the "
                         "removal was in flight (model agrees on the whole trace, ghost `stolen` non-empty, saw_marked false): outside the contract of the unsafe fn, not reported" % len(misuse))
    unexplained = ([m for m in unexplained if not m[0].startswith("posixseq")][:2] + [m for m in unexplained if m[0].startswith("posixseq")][:1]) or unexplained
    for lbl, cmd, line in unexplained[:3]:
        if lbl.startswith("posixseq"):
            ctx.violation("connection lifecycle violated by the implementation on posix_shared_memory storage (sequential history): " + line,
                          {"history": line.split("header=[")[1].split("]")[0] if "header=[" in line else line, "harness_cmd": cmd + " | " + driver + " oracle",
                           "how_to_read": "header = threads, program, timeline b:<thread>:<op> / e:<thread>:<op>:<2*result+does_exist> / l = port died"})
        else:
            hist, how = rerun(line)
            ctx.violation("connection lifecycle violated by the implementation (not explained by the model: the trace differs from it, or no forced removal found a marked byte): " + line,
                          {"execution": hist, "harness_cmd": cmd, "how_to_rerun": how})
    for lbl, cmd, line in known[:1]:
        hist, how = rerun(line)
        ctx.violation("forced removal that finds the byte already MarkedForDestruction becomes a second storage owner (found by the schedule exploration): " + line,
                      {"execution": hist, "harness_cmd": cmd, "how_to_rerun": how}, key=KEY_FORCED)
    model_mm = r["model"]
    if model_mm and not unexplained and not any(not v["no_input"] for v in ctx.violations):
        # SEARCH phase (bounded: <= 4 programs x 1500 executions, 100 s): the tie broke and no explored execution
        # violated the property: explore the diverging program shapes one preemption deeper with the oracle
        progs = []
        for lbl, cmd, line in model_mm:
            toks = line.split("header=[")[1].split("]")[0].split() if "header=[" in line else []
            if len(toks) > 1 and toks[1] not in progs:
                progs.append(toks[1])
        sjobs = [("search:%s" % p, [exe, "exhp", str(bound + 1), "1500", "'%s'" % p]) for p in progs[:4]]
        sr = run_pipes(sjobs, driver, timeout=100)
        ctx.cov["search_phase"] = {"programs": progs[:4], "executions": sr["cases"], "spec_mismatches": sr["mismatches_spec"]}
        found = [m for m in sr["spec"] if "class=second-owner-after-mark" not in m[2] and "class=forced-removal-of-live-port" not in m[2]]
        for lbl, cmd, line in found[:2]:
            hist, how = rerun(line)
            ctx.violation("connection lifecycle violated by the implementation (found by the search phase after the tie broke): " + line,
                          {"execution": hist, "harness_cmd": cmd, "how_to_rerun": how})
    if model_mm:
        lbl, cmd, line = model_mm[0]
        hist, how = rerun(line)
        ctx.violation("trace correspondence model<->implementation broken (first diverging access below): " + line,
                      {"obligation": "G1 trace equality between model/ConnState.v (theorems c13_*) and zero_copy_connection/common.rs + dynamic_storage/process_local.rs",
                       "first_divergence": line, "execution": hist, "harness_cmd": cmd, "how_to_rerun": how, "other_divergences": [m[2] for m in model_mm[1:6]]},
                      no_input=not any(not v["no_input"] for v in ctx.violations))
    if not proof_ok and not ctx.violations:
        ctx.violation("proof obligation no longer checks: %s" % ctx.broken, {"broken": ctx.broken}, no_input=True)
    ctx.assumptions = [
        "sequentially consistent interleaving at access granularity (all accesses of this protocol are Relaxed CAS/loads on ONE byte plus a handle-local flag; the orderings are pinned by the trace comparison)",
        "one connection name; a storage-level operation (open_or_create / open / remove_cfg of process_local: a mutex-protected map operation) is one atomic step, scheduled at the `handle.get()` that precedes pthread_mutex_lock",
        "tie on process_local storage; posix_shared_memory follows the same protocol (shm_open O_EXCL / shm_unlink by name / SharedMemory::has_ownership) and is exercised by the replay mode `c13 posix` only",
        "initialisation-not-finalised / version-mismatch paths of the dynamic storage are not part of the model (process_local creates and initialises inside one critical section)",
    ]


if __name__ == "__main__":
    sys.exit(vlib.main(run, "C13"))
