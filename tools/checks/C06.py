#!/usr/bin/env python3
"""C06 -- service creation is atomic and its lifetime follows its users.

Ties of coq/model/Service.v to /repo:
  G3  harness/g3/c06: every create/open/open_or_create/drop history (length bound, 1..3 nodes, one
      name) and the creator-settings x opener-requirements matrix of the four messaging patterns,
      through the public API (ipc and local service types), replayed op by op on the extracted step
      model (run to completion per op) and on the sequential reference specification.
  G2  harness/g2/c06 under harness/libgate: REAL processes (one node each) performing one service
      operation per command, stopped at every libc call that touches the private root / the shm
      prefix; scripted and enumerated (preemption-bounded) interleavings; the model is stepped with
      the same schedule and must emit the same call with the same result at every step, the same
      return values and the same final directory listing / Service::does_exist.
Usage for experiments:  python3 tools/checks/C06.py g2 <scenario> [bound]
"""
import json
import os
import re
import shutil
import subprocess
import sys
import time

sys.path.insert(0, os.path.dirname(os.path.dirname(os.path.abspath(__file__))))
import vlib
from vlib import VERIF
import gatectl

DRIVER = os.path.join(VERIF, "ocaml", "c06", "driver")
BASE = "/var/tmp/verif-c06-%d" % os.getpid()
LOCAL_CALLS = {"close", "mmap", "munmap", "opendir", "closedir", "readdir"}
T_INF = 3600000       # creation_timeout (ms) standing for "never expires during a run"; model: T=2000 ticks
DEFAULTS = {"ps": "2,8,2,0,2,1,20", "ev": "16,16,255,36,0,0,0,0", "rr": "1,1,1,4,2,2,2,2,8,20", "bb": "8,20"}
TYCODE = {"0": "0:1:8:8", "1": "0:2:8:8", "2": "0:3:4:4", "3": "0:1:8:16", "4": "1:1:8:8"}


def types_token(pat, req):
    """the `T=` token of a command: the type details the builder with this `ty=` code asks for (svc.rs ty_text)"""
    m = re.search(r"ty=(\d)(?:/(\d))?", req)
    a, b = (m.group(1), m.group(2) or "0") if m else ("0", "0")
    if pat == "ev":
        return "T="
    if pat == "rr":
        return "T=%s/%s" % (TYCODE[a], TYCODE[b])
    return "T=" + TYCODE[a]


def cleanup():
    """remove private roots and prefixed shm objects of dead check / harness processes (and our own)"""
    for d, pat in (("/var/tmp", r"^verif-c06-(\d+)$"), ("/dev/shm", r"^c06g[23]_(\d+)_")):
        try:
            names = os.listdir(d)
        except OSError:
            continue
        for n in names:
            m = re.match(pat, n)
            if not m:
                continue
            pid = int(m.group(1))
            if pid != os.getpid() and os.path.exists("/proc/%d" % pid):
                continue
            p = os.path.join(d, n)
            if os.path.isdir(p):
                shutil.rmtree(p, ignore_errors=True)
            else:
                try:
                    os.unlink(p)
                except OSError:
                    pass


# ------------------------------------------------------------------------------------------------
# G2
# ------------------------------------------------------------------------------------------------
class Canon:
    """real gated call -> the text the model prints for the same step (None = process-local call)"""

    def __init__(self, root, prefix):
        self.root, self.prefix = root, prefix
        self.dyn = {}
        self.mapped = {}      # (proc, path) -> mmap'ed since the last shm_open

    def obj(self, path):
        if path == self.root + "/services":
            return "svcdir"
        if path.startswith(self.root + "/services/") and path.endswith(".service"):
            return "static"
        if path.startswith(self.root + "/nodes/"):
            if path.endswith(".service_tag"):
                return "tag"
            if re.match(r"^\d+$", path[len(self.root) + 7:]):
                return "nodedir"
        if path.startswith("/dev/shm/" + self.prefix):
            for suf, kind in ((".dynamic", "dyn"), (".blackboard_mgmt", "res"), (".blackboard_data", "resd")):
                if path.endswith(suf):
                    m = re.search(r"_(\d+)" + re.escape(suf) + "$", path)
                    key = m.group(1) if m else path
                    if key not in self.dyn:
                        self.dyn[key] = len(self.dyn)
                    return "%s%d" % (kind, self.dyn[key])
        return None

    def line(self, proc, c):
        if c.call in LOCAL_CALLS:
            if c.call == "mmap":
                self.mapped[(proc, c.path)] = True
            return None
        o = self.obj(c.path)
        if o is None:
            return "?%s %s" % (c.call, c.path)
        failed = str(c.result).startswith("-1")
        err = c.errno if failed else None
        a = c.args
        if c.call == "access":
            return "access %s %s" % (o, err or "ok")
        if c.call == "open":
            if "O_CREAT" in a.get("flags", ""):
                return "creat %s %s" % (o, err or "ok")
            return "open %s %s" % (o, err or "ok")
        if c.call == "shm_open":
            self.mapped[(proc, c.path)] = False
            if "O_CREAT" in a.get("flags", ""):
                return "shm_creat %s %s" % (o, err or "ok")
            return "shm_open %s %s" % (o, err or "ok")
        if c.call in ("fstat", "stat"):
            if c.call == "stat":
                return "stat %s %s" % (o, err or "ok")
            out = str(c.result).split(":", 1)[1] if ":" in str(c.result) else ""
            kv = dict(x.split("=") for x in out.split(",") if "=" in x)
            mode = int(kv.get("mode", "0"), 8) & 0o777
            if o == "static":
                return "fstat static %s" % ("init" if mode == 0o600 else "final")
            if self.mapped.get((proc, c.path)):
                return "fstat %s %s" % (o, "final" if mode & 0o400 else "init")
            return "fstat %s %s" % (o, "zero" if kv.get("size") == "0" else "ok")
        if c.call == "fchmod":
            mode = int(a.get("mode", "0"), 8)
            if o in ("static", "tag"):
                return "fchmod %s %s" % (o, "init" if mode == 0o600 else "final")
            return "fchmod %s %s" % (o, "final" if mode & 0o400 else "init")
        if c.call in ("write", "read", "ftruncate", "remove", "shm_unlink", "unlink"):
            name = "remove" if c.call == "unlink" else c.call
            return "%s %s %s" % (name, o, err or "ok")
        return "?%s %s" % (c.call, o)

    def is_spin(self, text):
        """the call result makes the caller sleep and retry: it cannot progress until somebody else moves"""
        return text in ("fstat static init",) or bool(re.match(r"(fstat dyn\d+ (zero|init)|shm_open dyn\d+ ENOENT)$", text))


class Scenario:
    """procs: list of command lists, e.g. [["create -"], ["open -", "drop 0"]]"""

    def __init__(self, name, pat, timeout_ms, procs, trace=True, fault=None):
        self.name, self.pat, self.timeout_ms, self.procs, self.trace, self.fault = name, pat, timeout_ms, procs, trace, fault


_run_ctr = [0]


def g2_run(sc, chooser, exe, max_calls=600, stall=None, yield_spins=True):
    """one fresh execution of scenario `sc`; returns dict(lines=[driver input], results=..., stalled=proc or None)"""
    _run_ctr[0] += 1
    tag = "%d_%d" % (os.getpid(), _run_ctr[0])
    base = os.path.join(BASE, "g2-%d" % _run_ctr[0])
    root = os.path.join(base, "root")
    os.makedirs(os.path.join(root, "services"), mode=0o750)
    os.chmod(os.path.join(root, "services"), 0o750)
    prefix = "c06g2_%s_" % tag
    canon = Canon(root, prefix)
    ticks = 0 if sc.timeout_ms == 0 else 2000
    lines = ["C g2 pat=%s T=%d def=%s%s" % (sc.pat, ticks, DEFAULTS[sc.pat], " fault=dyn" if sc.fault else "")]
    results = {}
    stalled = None
    names = ["p%d" % i for i in range(len(sc.procs))]
    try:
        with gatectl.Controller(root=root, shm_prefix=prefix, timeout=30) as ctl:
            for n in names:
                ctl.spawn(n, [exe, root, prefix, str(sc.timeout_ms), sc.pat, "svc"], expect=1)
            for n in names:
                ctl.run_to_idle(n, gatectl.r_idle)
            nxt = {n: 0 for n in names}
            seen_r = {n: len(ctl.procs[n].results()) for n in names}
            spun = set()          # processes that must wait for somebody else's step
            ncalls = {n: 0 for n in names}
            last = None

            def feed():
                """collect answers, send the next command to every idle process"""
                for i, n in enumerate(names):
                    p = ctl.procs[n]
                    rs = p.results()
                    while seen_r[n] < len(rs):
                        txt = rs[seen_r[n]][2:]
                        seen_r[n] += 1
                        body = txt.split(" ", 1)[1] if " " in txt else txt
                        if txt.startswith("drop"):
                            body = "ok" if body == "ok" else "none"
                        lines.append("R %d %s" % (i, body))
                        results.setdefault(n, []).append(txt)
                    if p.exited is None and p.outstanding == 0 and nxt[n] < len(sc.procs[i]):
                        cmd = sc.procs[i][nxt[n]]
                        nxt[n] += 1
                        parts = cmd.split()
                        if parts[0] == "drop":
                            lines.append("S %d drop %s" % (i, parts[1]))
                        else:
                            lines.append("S %d %s %s %s" % (i, parts[0], parts[1] if len(parts) > 1 else "-", types_token(sc.pat, parts[1] if len(parts) > 1 else "-")))
                        p.send(cmd)

            total = 0
            while True:
                ctl.settle(names, gatectl.r_idle)
                feed()
                ctl.settle(names, gatectl.r_idle)
                pend = ctl.pending()
                if not pend:
                    if all(nxt[n] >= len(sc.procs[i]) and ctl.procs[n].outstanding == 0 for i, n in enumerate(names)):
                        break
                    continue
                # process-local calls are not scheduling points
                loc = [n for n in sorted(pend) if pend[n].call in LOCAL_CALLS]
                if loc:
                    c, r, e = ctl.step(loc[0])
                    canon.line(loc[0], c)
                    continue
                enabled = sorted(n for n in pend if n not in spun)
                if not enabled:
                    spun.clear()
                    enabled = sorted(pend)
                pick = chooser(enabled, last if last in enabled else None)
                pc_ = pend[pick]
                if sc.fault and pc_.call == "shm_open" and "O_CREAT" in pc_.args.get("flags", "") and pc_.path.endswith(".dynamic"):
                    c, r, e = ctl.fail(pick, sc.fault)       # fault injection: the creation of the dynamic config fails
                    injected = True
                else:
                    c, r, e = ctl.step(pick)
                    injected = False
                total += 1
                ncalls[pick] += 1
                text = canon.line(pick, c)
                if injected:
                    text = " ".join(text.split(" ")[:2] + ["fail"])
                lines.append("X %d %s" % (names.index(pick), text))
                if canon.is_spin(text) and yield_spins:
                    spun.add(pick)
                else:
                    spun.discard(pick)
                for o in list(spun):
                    if o != pick:
                        spun.discard(o)
                last = pick
                if stall is not None and ncalls[pick] >= stall:
                    stalled = pick
                    break
                if total > max_calls:
                    stalled = pick
                    break
            if stalled is None:
                # final observation while the handles are still held, by an ungated process
                lines.append("F ex=%s ls=%s" % observe(exe, root, prefix, sc.pat))
                for n in names:
                    ctl.procs[n].send("quit")
                for n in names:
                    try:
                        ctl.run_to_idle(n, lambda p: False)
                    except gatectl.GateError:
                        pass
    finally:
        shutil.rmtree(base, ignore_errors=True)
        for f in os.listdir("/dev/shm"):
            if f.startswith(prefix):
                try:
                    os.unlink("/dev/shm/" + f)
                except OSError:
                    pass
    return {"lines": lines, "results": results, "stalled": stalled}


def observe(exe, root, prefix, pat):
    """final observation by an ungated process: Service::does_exist and the directory listing"""
    p = subprocess.run(["timeout", "30", exe, root, prefix, "0", pat, "svc", "exists"], stdin=subprocess.DEVNULL,
                       stdout=subprocess.PIPE, stderr=subprocess.DEVNULL, text=True)
    ex = "?"
    for l in p.stdout.split("\n"):
        if l.startswith("R exists"):
            ex = l.split()[2]
    st = len([f for f in os.listdir(os.path.join(root, "services")) if f.endswith(".service")]) if os.path.isdir(os.path.join(root, "services")) else 0
    dy = len([f for f in os.listdir("/dev/shm") if f.startswith(prefix) and f.endswith(".dynamic")])
    tg = 0
    for dp, dn, fn in os.walk(os.path.join(root, "nodes")):
        tg += len([f for f in fn if f.endswith(".service_tag")])
    return ex, "%d,%d,%d" % (st, dy, tg)


def drive(lines):
    p = subprocess.run(["timeout", "120", DRIVER], input="\n".join(lines) + "\n", stdout=subprocess.PIPE, stderr=subprocess.STDOUT, text=True)
    mism = [l for l in p.stdout.split("\n") if l.startswith("MISMATCH")]
    ok = p.returncode == 0 and any(l.startswith("SUMMARY") for l in p.stdout.split("\n"))
    return ok, mism, p.stdout


def g2_explore(sc, bound, exe, max_execs):
    """all schedules of the scenario with <= bound preemptions; returns (execs, calls, mismatching records, outcome histogram)"""
    bad = []
    outcomes = {}
    n = 0
    calls = 0

    def run_one(chooser):
        return g2_run(sc, chooser, exe)

    for rec, choices in gatectl.explore(run_one, bound, max_execs):
        n += 1
        calls += sum(1 for l in rec["lines"] if l.startswith("X "))
        key = " | ".join("%s:%s" % (k, ";".join(v)) for k, v in sorted(rec["results"].items()))
        outcomes[key] = outcomes.get(key, 0) + 1
        if sc.trace:
            ok, mism, out = drive(rec["lines"])
            if not ok or mism:
                bad.append({"scenario": sc.name, "schedule": choices, "mismatch": mism[:3], "lines": rec["lines"][:400], "driver_ok": ok})
                if len(bad) >= 3:
                    break
    return n, calls, bad, outcomes


def first_enabled(enabled, last):
    return last if last in enabled else enabled[0]


def scenarios(th):
    s = []
    A = "v=1,-,-,-,-,-,2"        # max_publishers 1, max_nodes 2
    B = "v=2,-,-,-,-,-,1"        # max_publishers 2, max_nodes 1
    # trace equality per operation (sequential scripts; every branch of the step lists)
    s.append(("seq", Scenario("seq-basic", "ps", T_INF, [["open -", "create " + A, "create " + A, "open " + A, "ooc -", "drop 0", "drop 0", "drop 0", "ooc " + B, "drop 0"]])))
    s.append(("seq", Scenario("seq-two", "ps", T_INF, [["create " + B, "drop 0", "create " + A], ["open -", "ooc -", "open " + B, "create -"]])))
    s.append(("seq", Scenario("seq-three", "ps", T_INF, [["create " + A], ["open -"], ["open -", "ooc -", "create -"]])))
    s.append(("seq", Scenario("seq-event", "ev", T_INF, [["ooc v=2,-,-,2,-,-,-,-", "drop 0"], ["ooc -", "open v=3,-,-,-,-,-,-,-", "drop 0"]])))
    s.append(("seq", Scenario("seq-timeout0", "ps", 0, [["ooc " + A, "open -", "drop 1", "drop 0"], ["open -", "ooc " + B]])))
    s.append(("seq", Scenario("seq-dyn-fault", "ps", T_INF, [["create " + A], ["open -"]], fault="ENFILE")))
    s.append(("seq", Scenario("seq-slice-zero", "ps", T_INF, [["create ty=4;v=-,-,-,-,-,-,0", "open ty=4", "create ty=4"]])))
    # races
    s.append(("race", Scenario("create-create", "ps", T_INF, [["create " + A], ["create " + B]])))
    s.append(("race", Scenario("create-open", "ps", T_INF, [["create " + A], ["open -"]])))
    s.append(("race", Scenario("create-open-t0", "ps", 0, [["create " + A], ["open -"]])))
    s.append(("race", Scenario("ooc-ooc", "ps", T_INF, [["ooc " + A], ["ooc " + B]])))
    s.append(("race", Scenario("ooc-ooc-t0", "ps", 0, [["ooc " + A], ["ooc " + B]])))
    s.append(("race", Scenario("drop-open", "ps", T_INF, [["create " + A, "drop 0"], ["open -"]])))
    s.append(("race", Scenario("drop-ooc", "ps", T_INF, [["create " + A, "drop 0"], ["ooc " + B]])))
    s.append(("race", Scenario("drop-create", "ps", 0, [["create " + A, "drop 0"], ["create " + B]])))
    if th:
        s.append(("race", Scenario("three-ooc", "ev", T_INF, [["ooc -", "drop 0"], ["ooc -", "drop 0"], ["ooc -"]])))
        s.append(("race", Scenario("drop-drop-open", "ps", T_INF, [["create " + A, "drop 0"], ["open -", "drop 0"], ["ooc " + B]])))
    return s


# ---- witnesses of the refuted clauses, replayed on the real code ----
def witness_zero_size_spin(exe):
    """creator stopped between shm_open(O_CREAT|O_EXCL) and ftruncate of the dynamic config; an opener with
    creation_timeout = 0 must come back with HangsInCreation; it spins instead"""
    sc = Scenario("w-zero-size", "ps", 0, [["create -"], ["open -"]])
    state = {"phase": 0}

    def chooser(enabled, last):
        # run the creator up to and including its shm_creat (15 scheduling points), then only the opener
        if state["phase"] < 15 and "p0" in enabled:
            state["phase"] += 1
            return "p0"
        return "p1" if "p1" in enabled else enabled[0]

    # the services directory exists: creator calls = access, stat, creat tag, fchmod, write, fchmod, stat, creat static, fchmod, write, fchmod, shm_creat
    state["phase"] = 3
    rec = g2_run(sc, chooser, exe, stall=80, yield_spins=False)
    spins = sum(1 for l in rec["lines"] if re.match(r"X 1 fstat dyn\d+ zero", l))
    return rec, spins


def witness_blackboard(exe):
    """blackboard creator stopped after unlocking the static config (resources not yet created): open must wait
    (or report HangsInCreation), it reports ServiceInCorruptedState"""
    sc = Scenario("w-blackboard", "bb", 1000, [["create -"], ["open -"]], trace=False)
    state = {"n": 0}

    def chooser(enabled, last):
        if state["n"] < 11 and "p0" in enabled:
            state["n"] += 1
            return "p0"
        if "p1" in enabled:
            return "p1"
        return enabled[0]

    rec = g2_run(sc, chooser, exe)
    return rec


def g2_stage(ctx, exe):
    th = ctx.thorough()
    stats = {"executions": 0, "calls": 0, "scenarios": {}, "outcomes": {}}
    t0 = time.time()
    budget = 900 if th else 60
    for kind, sc in scenarios(th):
        if time.time() - t0 > budget:
            ctx.notes.append("G2: time budget reached before scenario " + sc.name)
            break
        if kind == "seq":
            rec = g2_run(sc, first_enabled, exe)
            ok, mism, out = drive(rec["lines"])
            stats["executions"] += 1
            stats["calls"] += sum(1 for l in rec["lines"] if l.startswith("X "))
            stats["scenarios"][sc.name] = {"executions": 1, "results": rec["results"]}
            if not ok or mism:
                ctx.violation("G2 trace equality broken (sequential script %s): %s" % (sc.name, (mism or [out[-300:]])[0][:300]),
                              {"obligation": "libc-call trace of each real operation = step list of model/Service.v", "scenario": sc.name,
                               "lines": rec["lines"][:300], "how_to_rerun": "python3 tools/checks/C06.py g2 " + sc.name}, no_input=True)
        else:
            bound = (2 if sc.name in ("create-open", "ooc-ooc", "drop-ooc") else 1) + 1 if th else 1
            left = max(3, int((budget - (time.time() - t0)) / 4))
            # quick: the first schedules of every race (default schedule and the earliest preemptions); the full enumeration is thorough
            n, calls, bad, outcomes = g2_explore(sc, bound, exe, 4000 if th else min(8, left))
            stats["executions"] += n
            stats["calls"] += calls
            stats["scenarios"][sc.name] = {"executions": n, "preemption_bound": bound, "outcomes": outcomes}
            for b in bad[:1]:
                ctx.violation("G2 correspondence broken under an enumerated interleaving (%s): %s" % (sc.name, (b["mismatch"] or ["driver failed"])[0][:300]),
                              dict(b, obligation="model run on the same schedule emits the same calls/results",
                                   how_to_rerun="python3 tools/checks/C06.py g2 %s %d" % (sc.name, bound)), no_input=True)
            # the property's oracle on the real outcomes
            for key in outcomes:
                oks = len(re.findall(r"create ok", key))
                if sc.name == "create-create" and oks > 1:
                    ctx.violation("two concurrent create calls both succeeded: " + key, {"scenario": sc.name, "outcome": key}, key="create:two-creators")
                if "panic" in key or "ServiceInCorruptedState" in key or "InternalFailure" in key:
                    kf = "open:blackboard-open-during-creation-reports-corrupted" if (sc.pat == "bb" and "open err o:ServiceInCorruptedState" in key and "panic" not in key) else None
                    ctx.violation("a racing call ended with an undocumented failure (%s): %s" % (sc.name, key), {"scenario": sc.name, "outcome": key}, key=kf)
    ctx.cov["g2"] = stats
    return stats


def g1_stage(ctx):
    """registry sub-protocol on the REAL StaticRobustUniqueIndexSet under the baton scheduler (harness/g1/c06):
    'last user leaves || late opener registers'.  Oracle of C06: nobody keeps a registration in a set whose
    release(LockIfLastIndex) returned Locked (= a handle of a removed service); tie: the outcomes of every explored
    schedule are outcomes of the model's registry steps (OReg/RIncr/DDereg/DSnap/DCas) for the same program."""
    t0 = time.time()
    ok, out, tdir = vlib.g1_build(["c06g1"])
    if not ok:
        ctx.violation("G1 harness (c06g1) does not build against /repo with the instrumented atomics drop-in", {"log": out[-3000:]}, no_input=True)
        return
    exe = os.path.join(tdir, "c06g1")
    bound = 3 if ctx.thorough() else 2
    progs = [] if ctx.thorough() else ["acq,lrel|acq", "acq,lrel|acq,lrel"]
    rc, out = vlib.sh([exe, "exh", str(bound), "200000"] + progs, timeout=600)
    lines = [l for l in out.split("\n") if l.startswith("X ")]
    if rc != 0 or not lines:
        ctx.violation("G1 registry exploration failed", {"rc": rc, "tail": out[-800:]}, no_input=True)
        return
    impl = {}
    first = {}
    for l in lines:
        kv = dict(x.split("=", 1) for x in l.split()[1:] if "=" in x)
        key = (kv["cap"], kv["prog"])
        norm = "|".join(",".join(re.sub(r"^ok\d+$", "ok", r) for r in t.split(",")) if t else "" for t in kv["r"].split("|"))
        impl.setdefault(key, {}).setdefault(norm, 0)
        impl[key][norm] += 1
        first.setdefault((key, norm), kv["sched"])
        if "DEADLOCK" in l:
            ctx.violation("registry protocol deadlocked under the scheduler: " + l[:300], {"line": l}, no_input=False)
    # the model's outcome sets
    inp = "".join("G cap=%s prog=%s\n" % k for k in sorted(impl))
    p = subprocess.run(["timeout", "120", DRIVER], input=inp, stdout=subprocess.PIPE, stderr=subprocess.STDOUT, text=True)
    model = {}
    for l in p.stdout.split("\n"):
        if l.startswith("GM "):
            kv = dict(x.split("=", 1) for x in l.split()[1:])
            model[(kv["cap"], kv["prog"])] = set(kv["outcomes"].split(";"))
    nviol = 0
    both_locked = 0
    for key, outs in sorted(impl.items()):
        prog_threads = key[1].split("|")
        for norm, cnt in sorted(outs.items()):
            res = [t.split(",") if t else [] for t in norm.split("|")]
            locked = any("L" in r for r in res)
            # a thread is a holder at the end if its last acquire succeeded and was not released afterwards
            holders = []
            for ti, r in enumerate(res):
                held = 0
                for op, v in zip(prog_threads[ti].split(","), r):
                    if op == "acq" and v == "ok":
                        held += 1
                    if op == "lrel" and v in ("L", "U"):
                        held -= 1
                if held > 0:
                    holders.append(ti)
            sched = first[(key, norm)]
            how = "%s one %s '%s' %s" % (exe, key[0], key[1], sched)
            if locked and holders:
                nviol += 1
                if nviol <= 2:
                    ctx.violation("a node registers successfully in a node registry that release(LockIfLastIndex) has locked: thread(s) %s hold an index "
                                  "after Locked was returned -- at service level a late opener obtains a port factory of a service the last user has "
                                  "just removed (cap=%s prog=%s results=%s, %d schedules)" % (holders, key[0], key[1], norm, cnt),
                                  {"schedule": sched, "program": key[1], "capacity": key[0], "results": norm, "how_to_rerun": how,
                                   "theorem": "c06_locked_no_holder / c06_holder_resources_exist need the re-check of the LOCK indicator in acquire() "
                                              "(p_recheck); without it: c06_recheck_refuted"})
            elif key in model and norm not in model[key]:
                nviol += 1
                if nviol <= 2:
                    ctx.violation("G1 tie broken: the real index set produced an outcome the model's registry steps cannot produce: cap=%s prog=%s results=%s" % (key[0], key[1], norm),
                                  {"schedule": sched, "model_outcomes": sorted(model[key]), "how_to_rerun": how}, no_input=True)
            if sum(1 for r in res if "L" in r) >= 2 and not (locked and holders) and (key not in model or norm in model[key]):
                both_locked += cnt
    missing = {("%s %s" % k): sorted(model[k] - set(impl[k])) for k in model if k in impl and model[k] - set(impl[k])}
    ctx.cov["g1_registry"] = {"executions": len(lines), "preemption_bound": bound, "programs": ["cap=%s %s" % k for k in sorted(impl)],
                              "outcomes": {("cap=%s %s" % k): v for k, v in sorted(impl.items())},
                              "model_outcomes_not_observed": missing,
                              "schedules_where_two_releases_returned_Locked": both_locked, "wall_s": round(time.time() - t0, 1)}
    if both_locked:
        k2 = next(((key, norm) for key, outs in sorted(impl.items()) for norm in sorted(outs)
                   if sum(1 for t in norm.split("|") if "L" in t.split(",")) >= 2), None)
        sched = first[k2] if k2 else ""
        ctx.violation("release(LockIfLastIndex) returned Locked to TWO releasers of one index set in %d explored schedules (lock(): `if self.is_locked() "
                      "{ return Locked }`): both droppers of a service get NoMoreOwners" % both_locked,
                      {"program": k2[0][1] if k2 else "", "capacity": k2[0][0] if k2 else "", "results": k2[1] if k2 else "", "schedule": sched,
                       "how_to_rerun": "%s one %s '%s' %s" % (exe, k2[0][0], k2[0][1], sched) if k2 else "",
                       "theorem": "c06_single_last_refuted, c06_live_is_linked_refuted"},
                      key="registry:two-last-releasers-both-locked")


def witness_stage(ctx, exe, g3exe):
    w = {}
    # regression (fixed by c6a737e): slice payload builders adjust zero capacities; no panic, nothing left behind
    reg = [["one", "ipc", "ps", "lib", "1", "create_0_ty=4;v=0,-,-,-,-,-,-"], ["one", "ipc", "ps", "lib", "1", "create_0_ty=4;v=-,0,-,-,-,-,0"],
           ["one", "ipc", "ps", "lib", "1", "ooc_0_ty=4;v=0,-,-,-,-,-,0"], ["one", "ipc", "rr", "lib", "1", "create_0_ty=4/0;v=-,-,-,-,-,-,-,0,0,0"]]
    w["slice_zero_regressions"] = []
    for argv in reg:
        rc, out = vlib.sh(" ".join("'%s'" % a for a in [g3exe] + argv) + " 2>/dev/null | " + DRIVER, timeout=180)
        rc2, raw = vlib.sh([g3exe] + argv, timeout=180)
        lines = [l for l in raw.split("\n") if l.startswith("O ")]
        w["slice_zero_regressions"].append(lines[:2])
        endl = [l for l in lines if l.startswith("O end")]
        bad = any("= panic" in l for l in lines) or not endl or "ls=0,0,0" not in endl[0] or "MISMATCH" in out or "SUMMARY" not in out
        if bad:
            ctx.violation("regression: create of a slice-payload service with a zero capacity must be adjusted to 1 (no panic, no leaked dynamic config, model agrees): "
                          + " / ".join(lines[:1] + endl)[:300], {"history": lines, "driver": out[-600:], "how_to_rerun": " ".join([g3exe] + argv) + " | " + DRIVER})
    try:
        # regression (fixed by 868edb1): creator stopped between shm_open(O_CREAT|O_EXCL) and ftruncate, opener with
        # creation_timeout = 0 must come back with HangsInCreation; the model agrees call by call
        rec, spins = witness_zero_size_spin(exe)
        w["zero_size_regression"] = {"opener_fstat_zero": spins, "stalled": rec["stalled"], "opener_result": rec["results"].get("p1")}
        tail = [l for l in rec["lines"] if l.startswith("X 1 ")][-20:]
        only_retry = all(re.match(r"X 1 (shm_open dyn\d+ ok|fstat dyn\d+ zero)$", l) for l in tail)
        if rec["stalled"] == "p1" and not rec["results"].get("p1") and spins >= 10 and only_retry:
            ctx.violation("open() with creation_timeout = 0 never returns while the creator stands between shm_open(O_CREAT|O_EXCL) and ftruncate of the "
                          "dynamic config: posix_shared_memory open_impl retries MappingSizeIsZero without a timeout check (%d retries observed, then stopped)" % spins,
                          {"schedule": "creator: 12 gated calls up to shm_open(O_CREAT|O_EXCL); then only the opener", "trace_tail": rec["lines"][-12:],
                           "how_to_rerun": "python3 tools/checks/C06.py witness zero-size"},
                          key="open:zero-size-dynamic-config-spins-without-timeout")
        elif rec["results"].get("p1") != ["open err o:HangsInCreation"]:
            ctx.violation("regression: opener with creation_timeout = 0 facing a zero-sized dynamic config must return HangsInCreation, got %r" % (rec["results"].get("p1"),),
                          {"trace_tail": rec["lines"][-15:], "how_to_rerun": "python3 tools/checks/C06.py witness zero-size"})
        else:
            okd, mism, outd = drive([l for l in rec["lines"]])
            if not okd or mism:
                ctx.violation("G2 trace equality broken on the zero-size regression schedule: " + (mism or [outd[-200:]])[0][:300],
                              {"lines": rec["lines"][-40:], "how_to_rerun": "python3 tools/checks/C06.py witness zero-size"}, no_input=True)
    except (gatectl.GateError, gatectl.GateTimeout) as ex:
        ctx.notes.append("witness zero-size could not be replayed: %r" % (ex,))
    try:
        rec = witness_blackboard(exe)
        w["blackboard"] = rec["results"]
        if rec["results"].get("p1") == ["open err o:ServiceInCorruptedState"] and rec["results"].get("p0", [""])[0].startswith("create ok"):
            ctx.violation("blackboard open() racing with a healthy, still running create() returns ServiceInCorruptedState: the opener opens the "
                          "blackboard resources (created AFTER the static config is unlocked) before the dynamic config and does not wait for them",
                          {"results": rec["results"], "schedule": "creator stopped after fchmod(static config, 0400); opener runs to completion",
                           "how_to_rerun": "python3 tools/checks/C06.py witness blackboard",
                           "theorem": "c06_no_spurious_corruption_full is refuted (c06_no_spurious_corruption_refuted); _partial: patterns without resources"},
                          key="open:blackboard-open-during-creation-reports-corrupted")
    except (gatectl.GateError, gatectl.GateTimeout) as ex:
        ctx.notes.append("witness blackboard could not be replayed: %r" % (ex,))
    ctx.cov["witnesses"] = w


def run(ctx):
    cleanup()
    os.makedirs(BASE, exist_ok=True)
    os.environ["VERIF_C06_ROOT"] = BASE
    try:
        run_inner(ctx)
    finally:
        cleanup()


def stage(ctx, name, t0):
    dt = round(time.time() - t0, 1)
    ctx.cov.setdefault("stage_wall_s", {})[name] = dt
    ctx.log("stage %-22s %6.1f s" % (name, dt))
    return time.time()


def run_inner(ctx):
    ts = time.time()
    proof_ok = vlib.proof_stage(ctx)
    ts = stage(ctx, "proof", ts)
    ok, out = vlib.ocaml_driver("C06")
    if not ok:
        ctx.violation("extracted model / OCaml driver does not build", {"log": out}, no_input=True)
        return
    ok, out, tdir = vlib.cargo_build("g3", bins=["c06"])
    if not ok:
        ctx.violation("G3 harness does not build against /repo", {"log": out}, no_input=True)
        return
    g3exe = os.path.join(tdir, "c06")
    ok, out, tdir2 = vlib.cargo_build("g2", bins=["c06sh"], extra="-p c06g2")
    if not ok:
        ctx.violation("G2 harness does not build against /repo", {"log": out}, no_input=True)
        return
    g2exe = os.path.join(tdir2, "c06sh")
    gatectl.build()
    th = ctx.thorough()
    seed = str(ctx.seed)
    ts = stage(ctx, "build (ocaml, cargo g3/g2, libgate)", ts)

    # ---- G3 ----
    jobs = []
    nr = 400 if th else 30
    # regressions first: a create that fails after the static config was written leaves nothing behind (seed C06b:
    # ownership of the static config released too early), through the public API, ipc and local
    for svc in ("ipc", "local"):
        jobs.append(("regression:failing-create:ps:" + svc, [g3exe, "one", svc, "ps", "lib", "3", "create_0_ty=5", "open_1_-", "ooc_2_ty=5",
                     "create_0_v=2,-,-,-,-,-,-", "open_1_-", "open_2_v=2,-,-,-,-,-,-", "drop_0", "drop_0", "drop_0", "open_1_-"]))
        jobs.append(("regression:failing-create:bb:" + svc, [g3exe, "one", svc, "bb", "lib", "3", "create_0_dk", "open_1_-", "create_2_dk",
                     "create_0_v=3,-", "open_1_-", "open_2_v=3,-", "drop_0", "drop_0", "drop_0", "open_1_-"]))

    def hist(svc, pat, nn, ln, nsh):
        for i in range(nsh):
            jobs.append(("hist:%s:%s:%d:%d:%d" % (svc, pat, nn, ln, i), [g3exe, "hist", svc, pat, str(nn), str(ln), str(i), str(nsh)]))

    for pat in ("ps", "ev", "rr", "bb"):
        if th:
            for dm in ("lib", "small1"):
                nsh = 4 if pat in ("ps", "rr") else 2
                for i in range(nsh):
                    jobs.append(("matrix:%s:%s:ipc:%d" % (pat, dm, i), [g3exe, "matrix", "ipc", pat, dm, str(i), str(nsh), seed, str(nr)]))
                jobs.append(("matrix:%s:%s:local" % (pat, dm), [g3exe, "matrix", "local", pat, dm, "0", "1", seed, str(nr)]))
            hist("ipc", pat, 1, 5, 1)
            hist("ipc", pat, 2, 4, 4)
            hist("ipc", pat, 3, 4, 4)
            hist("local", pat, 3, 5, 8)
        else:
            # quick: the whole matrix on the local service type (no file system traffic), every 4th case on ipc
            for dm in ("lib", "small1"):
                for i in range(2):
                    jobs.append(("matrix:%s:%s:local:%d" % (pat, dm, i), [g3exe, "matrix", "local", pat, dm, str(i), "2", seed, str(nr if dm == "lib" else 0)]))
            jobs.append(("matrix:%s:lib:ipc:0of4" % pat, [g3exe, "matrix", "ipc", pat, "lib", "0", "4", seed, str(nr)]))
            hist("local", pat, 3, 4 if pat in ("ps", "ev") else 3, 2)
            hist("ipc", pat, 2, 3, 1)
    if not th:
        hist("ipc", "ps", 3, 3, 2)
    r = vlib.run_pipelines(jobs, DRIVER, timeout=2400)
    ts = stage(ctx, "G3 (%d jobs)" % len(jobs), ts)
    cleanup()
    os.makedirs(BASE, exist_ok=True)
    ctx.cov.update({
        "evaluations": r["cases"], "distinct_nontrivial": r["distinct_nontrivial"], "traces_validated_against_impl": r["cases"],
        "ops_executed": r["ops"], "op_distribution": r["opcount"], "outcome_distribution": r["extra"],
        "rule": "G3: every operation of every history is executed through the public API (NodeBuilder / service_builder / create / open / "
                "open_or_create, drop of the port factory) on ipc::Service and local::Service and replayed on the extracted step model (thread = node, "
                "run to completion) and on the sequential reference specification; compared per operation: Ok / error kind, the static_config() of the "
                "obtained handle (all QoS fields, payload type details, attributes), Service::does_exist, and (ipc) the number of static config files, "
                "dynamic config segments and service tags. histories: all canonical sequences (nodes numbered by first use) of create/open/open_or_create "
                "with two settings each and drop of the k-th live handle, %s. matrix: per pattern and per QoS field creator value x opener requirement over "
                "{unset,0,1,2} ({unset,false,true} for flags) for fixed-size and slice payload builders, every pair of fields over {unset,1,2} against a "
                "creator with 1/1 (error priority), all payload/key type x type pairs (name, size, alignment 8/16, slice) also combined with a failing field, "
                "attribute define x require x require_key sets, creation-time validity (safe_overflow x buffer x history; blackboard without entries), and "
                "seeded random full settings; each with the library defaults and with all numeric defaults = 1. distinct = distinct (pattern, defaults, history)" %
                ("length 5 with 1 node and length 4 with 2..3 nodes (ipc), length 5 with 3 nodes (local; the ipc runs of length 5 with 2 or 3 nodes took more than an hour in this sandbox)" if th else "quick tier: length 3-4 with 3 nodes (local), length 3 with 2 nodes (ipc), the matrix on local::Service and every 4th case on ipc::Service; the thorough tier runs length 5 (ipc: 1 node, local: 3 nodes), length 4 with 2..3 nodes on ipc, and the full matrix on both"),
        "exhaustive": False,
    })
    samples = []
    for lbl, argv in jobs[:1] + jobs[-1:]:
        c = vlib.extract_case(argv, DRIVER, 3)
        if c:
            samples.append({"job": lbl, "case": c[:12]})
    ctx.cov["samples"] = samples
    for lbl, cmd, rc, tail in r["failed_jobs"]:
        ctx.violation("correspondence job failed (harness or driver crashed): " + lbl, {"cmd": cmd, "rc": rc, "tail": tail}, no_input=True)
    spec_mm = [m for m in r["mismatch_lines"] if "kind=spec" in m[2]]
    model_mm = [m for m in r["mismatch_lines"] if "kind=model" in m[2]]
    for lbl, cmd, line in spec_mm[:3]:
        case_no = int(line.split("case=")[1].split()[0])
        hist_l = vlib.extract_case(cmd.split(), DRIVER, case_no)
        ctx.violation("service behaviour differs from the reference specification: " + line[:300],
                      {"history": hist_l[:20], "harness_cmd": cmd, "mismatch": line[:600], "how_to_rerun": cmd + " | " + DRIVER})
    if model_mm and not spec_mm:
        lbl, cmd, line = model_mm[0]
        case_no = int(line.split("case=")[1].split()[0])
        hist_l = vlib.extract_case(cmd.split(), DRIVER, case_no)
        ctx.violation("correspondence model<->implementation broken (step model disagrees, reference agrees): " + line[:300],
                      {"obligation": "G3 correspondence of model/Service.v with iceoryx2/src/service/builder", "history": hist_l[:20],
                       "harness_cmd": cmd, "mismatches": len(model_mm)}, no_input=True)

    # ---- witnesses of refuted clauses on the real code, then G2 ----
    witness_stage(ctx, g2exe, g3exe)
    ts = stage(ctx, "witnesses/regressions (G2)", ts)
    g1_stage(ctx)
    ts = stage(ctx, "G1 registry", ts)
    g2_stage(ctx, g2exe)
    ts = stage(ctx, "G2 scripts + races", ts)

    if not proof_ok and not ctx.violations:
        ctx.violation("proof obligation no longer checks: %s" % ctx.broken, {"broken": ctx.broken}, no_input=True)
    ctx.assumptions = [
        "theorems are about the Gallina model coq/model/Service.v; ties: G3 (observational, per operation) and G2 (libc-call trace equality under the same schedule) on the histories / interleavings listed in coverage",
        "one node per process / model thread; two threads sharing one node are not modelled",
        "time is an abstract tick budget: G2 runs use creation_timeout = 0 (T = 0) or one hour (never expires); intermediate timeouts are not tied",
        "registry operations (register_node_id / deregister_node_id with LockIfLastIndex) are atomic steps; in G2 runs they execute together with the preceding libc call (the gate cannot stop between them); their lock-free implementation is C09's subject",
        "process-local calls (close, mmap, munmap, opendir, closedir) are not steps; the services and node directories exist before the run",
        "cleanup_dead_nodes_on_open is switched off in G2 runs (the dead-node scan belongs to C04/C07); it is on (library default) in G3 runs",
        "not modelled: permission failures, EINTR, corrupted or foreign files, version mismatch, flatbuffer type-definition resources, user headers (always ()); blackboard resources are one abstract object (G2 trace equality covers publish-subscribe and event)",
        "extraction: ExtrOcamlBasic only; OCaml driver parses/prints only",
    ]


def main_cli():
    """experiments: g2 <scenario> [bound] | witness zero-size|blackboard"""
    os.makedirs(BASE, exist_ok=True)
    exe = os.path.join(vlib.BUILD, "target-g2", "debug", "c06sh")
    gatectl.build()
    try:
        if sys.argv[1] == "witness":
            if sys.argv[2] == "zero-size":
                rec, spins = witness_zero_size_spin(exe)
                print("\n".join(rec["lines"][-30:]))
                print("opener fstat(size 0) retries:", spins, "stalled:", rec["stalled"], "results:", rec["results"])
            else:
                rec = witness_blackboard(exe)
                print("\n".join(rec["lines"]))
                print(rec["results"])
            return 0
        name = sys.argv[2]
        sc = [s for k, s in scenarios(True) if s.name == name][0]
        if len(sys.argv) > 3:
            n, calls, bad, outcomes = g2_explore(sc, int(sys.argv[3]), exe, 100000)
            print("executions", n, "calls", calls, "bad", len(bad))
            for k, v in sorted(outcomes.items()):
                print("%6d  %s" % (v, k))
            for b in bad:
                print(json.dumps(b, indent=1)[:6000])
        else:
            rec = g2_run(sc, first_enabled, exe)
            print("\n".join(rec["lines"]))
            ok, mism, out = drive(rec["lines"])
            print(out)
        return 0
    finally:
        cleanup()


if __name__ == "__main__":
    if len(sys.argv) > 2 and sys.argv[1] in ("g2", "witness"):
        sys.exit(main_cli())
    sys.exit(vlib.main(run, "C06"))
