#!/usr/bin/env python3
"""C19 -- names are validated and domains are isolated."""
import os, sys, re
sys.path.insert(0, os.path.dirname(os.path.dirname(os.path.abspath(__file__))))
import vlib
from vlib import VERIF

SEM_TYPES = ["fn", "path", "fpath", "b64", "user", "group", "rfn2", "rfn3", "rfn5"]
STR_TYPES = ["svc", "node"]

# class tag printed by the driver (computed with extracted Coq predicates) -> key of the finding.
# Only listings whose surplus is explained by a prefix-of-prefix pair of configurations map to the
# known finding F4; everything else that disagrees with the spec is a fresh violation.
KEYS = {
    "isolation-prefix-of-prefix": "cfg:isolation-prefix-of-prefix",
    "unchecked-name": "filename:unchecked-conversion-yields-invalid-filename",
}
WHAT = {
    "isolation-prefix-of-prefix": "F4: a configuration whose prefix is a proper prefix of another one's lists the other domain's resources in a shared directory (extract_name_from_file strips the shorter prefix)",
    "unchecked-name": "a FileName produced by FilePath::file_name() / Path::entries() (FileName::new_unchecked) that FileName::new rejects flows into the creation API: the resource is created inside the root but list() never returns it (extract_name_from_file answers None): names do not round-trip",
}
# the six classes repaired in /repo; their former witnesses are replayed by the harness mode `reg`
FIXED = ["47ad8e2", "8cf1846", "c6cc798", "19ab506", "a263455", "e2099f0"]


def classify(line):
    """Key of a failing (spec-mismatching) operation: used to match known findings."""
    m = re.search(r"class=(\S+)", line)
    tag = m.group(1) if m else None
    return KEYS.get(tag)


def run_pipes(jobs, driver, timeout=1700, per_class=4):
    """like vlib.run_pipelines, but keeps up to `per_class` mismatch lines per (kind, class tag)"""
    import concurrent.futures as cf
    res = {"cases": 0, "ops": 0, "mismatches_model": 0, "mismatches_spec": 0, "distinct_nontrivial": 0,
           "mm": {}, "opcount": {}, "failed_jobs": [], "extra": {}}

    def one(job):
        label, argv = job
        cmd = " ".join(argv) + " 2>/dev/null | " + driver
        rc, out = vlib.sh("set -o pipefail; " + cmd, timeout=timeout)
        return label, argv, rc, out

    with cf.ThreadPoolExecutor(max_workers=vlib.NPROC) as ex:
        for label, argv, rc, out in ex.map(one, jobs):
            got = False
            for line in out.split("\n"):
                if line.startswith("MISMATCH"):
                    kind = re.search(r"kind=(\S+)", line).group(1)
                    tag = re.search(r"class=(\S+)", line).group(1)
                    lst = res["mm"].setdefault((kind, tag), [])
                    lst.append((label, " ".join(argv), line))
                    lst.sort(key=lambda x: (len(x[2]), x[0]))   # keep the shortest (most readable) witnesses
                    del lst[per_class:]
                elif line.startswith("SUMMARY"):
                    got = True
                    for kv in line.split()[1:]:
                        k, v = kv.split("=")
                        res[k] = res.get(k, 0) + int(v)
                elif line.startswith("OPCOUNT"):
                    _, k, v = line.split()
                    res["opcount"][k] = res["opcount"].get(k, 0) + int(v)
                elif line.startswith("EXTRA"):
                    _, k, v = line.split()
                    res["extra"][k] = res["extra"].get(k, 0) + int(v)
            if rc != 0 or not got:
                res["failed_jobs"].append((label, " ".join(argv), rc, out[-800:]))
    return res


def history_of(cmd, line):
    """case header + the operation (all operations up to it for sequential cases) of a mismatch"""
    case_no = int(re.search(r"case=(\d+)", line).group(1))
    op_no = int(re.search(r"op=(\d+)", line).group(1))
    rc, out = vlib.sh(cmd + " 2>/dev/null", timeout=900)
    n = 0
    k = 0
    hist = []
    for l in out.split("\n"):
        if l.startswith("C "):
            n += 1
            k = 0
            if n > case_no:
                break
            if n == case_no:
                hist = [l]
        elif n == case_no and l.startswith("O "):
            k += 1
            if k > op_no:
                break
            if hist and hist[0].startswith("C mutseq"):
                hist.append(l)
            elif k == op_no:
                hist.append(l)
    return [h[:2000] for h in hist]


def run(ctx):
    proof_ok = vlib.proof_stage(ctx)
    ok, out = vlib.ocaml_driver("C19")
    if not ok:
        ctx.violation("extracted model / OCaml driver does not build", {"log": out}, no_input=True)
        return
    ok, out, tdir = vlib.cargo_build("g3", bins=["c19"])
    if not ok:
        ctx.violation("harness does not build against /repo", {"log": out}, no_input=True)
        return
    exe = os.path.join(tdir, "c19")
    driver = os.path.join(VERIF, "ocaml", "c19", "driver")
    th = ctx.thorough()
    seed = str(ctx.seed)
    jobs = []
    maxlen = 3 if th else 2
    nsh_new = 16 if th else 2
    for t in SEM_TYPES + STR_TYPES:
        for sh_i in range(nsh_new):
            jobs.append(("exh-new:%s:%d" % (t, sh_i), [exe, "exh-new", t, str(maxlen), str(sh_i), str(nsh_new), seed]))
    nsh_mut = 16 if th else 4
    for t in SEM_TYPES:
        for sh_i in range(nsh_mut):
            jobs.append(("exh-mut:%s:%d" % (t, sh_i), [exe, "exh-mut", t, str(maxlen), str(sh_i), str(nsh_mut), seed]))
    nsh_rnd = 4 if th else 2
    for t in SEM_TYPES + STR_TYPES:
        for sh_i in range(nsh_rnd):
            jobs.append(("rnd:%s:%d" % (t, sh_i), [exe, "rnd", t, "16" if th else "8", str(sh_i), str(nsh_rnd), seed, "20000" if th else "2500"]))
    nsh_fun = 8 if th else 4
    for sh_i in range(nsh_fun):
        jobs.append(("fun:%d" % sh_i, [exe, "fun", "-", str(maxlen), str(sh_i), str(nsh_fun), seed, "4000" if th else "400"]))
    jobs.append(("iso", [exe, "iso", "-", "0", "0", "1", seed]))
    jobs.insert(0, ("reg", [exe, "reg", "-", "0", "0", "1", seed]))   # corpus of repaired defects first
    # big jobs first
    r = run_pipes(jobs, driver)
    classes = {k[6:]: v for k, v in r["extra"].items() if k.startswith("class:")}
    ctx.cov.update({
        "evaluations": r["ops"], "cases": r["cases"], "distinct_nontrivial": r["distinct_nontrivial"],
        "traces_validated_against_impl": r["ops"], "ops_executed": r["ops"],
        "op_distribution": r["opcount"],
        "outcomes": {k: v for k, v in r["extra"].items() if not k.startswith("class:")},
        "spec_mismatch_classes": classes,
        "mismatches_model": r["mismatches_model"], "mismatches_spec": r["mismatches_spec"],
        "rule": "constructors: every byte string of length <= %d over all 256 byte values for FileName, Path, FilePath, Base64Url, UserName, "
                "GroupName, RestrictedFileName<2|3|5>, ServiceName, NodeName, plus seeded structured random strings up to capacity+3 "
                "(dangerous fragments: / .. . NUL 0x80+ // /. trailing separators, multi-byte and malformed UTF-8); mutators: every valid base of "
                "length <= %d over {a . / _ 0 -} plus bases of length 123/124/125/capacity-1/capacity, each with push/insert of all 256 bytes at every "
                "index (incl. out of range), push_bytes/insert_bytes of all 2-byte strings over 12 critical bytes (all 65536 on two bases per type), "
                "pop, remove, remove_range (all index/length pairs), retain (10 predicates), strip_prefix/suffix (all strings <= 3 over {a . / _} and every "
                "prefix/suffix of the base), truncate; random op sequences on evolving values; stateless: normalize/entries/is_absolute/file_name/path on all "
                "strings <= %d over {/ . a}, add_path_entry/from_path_and_file tables incl. the 252..257 length boundary, path_for/extract round trips and "
                "cross extraction for random and prefix-related configurations, extraction table 6 prefixes x 5 suffixes x all files <= 4 over {a b . s}; "
                "connection_name / extract_{sender,receiver}_port_id on 14x14 boundary ids, random ids of every bit width and all candidate names <= %d over {0 1 9 _ + - space a}; "
                "file-system scenarios with two static_storage configurations in one directory; two iceoryx2 Configs in one root (Node::list, Service::list, does_exist). "
                "distinct = distinct (type, value, operation)" % (maxlen, maxlen, 8 if th else 6, 6 if th else 5),
        "exhaustive": False,
    })
    for lbl, cmd, rc, tail in r["failed_jobs"]:
        ctx.violation("correspondence job failed (harness or driver crashed): " + lbl, {"cmd": cmd, "rc": rc, "tail": tail}, no_input=True)
    # ---- spec mismatches: the property fails on that concrete operation (replay = the history)
    samples = []
    spec_jobs_ops = set()
    for (kind, tag), lst in sorted(r["mm"].items()):
        if kind != "spec":
            continue
        key = KEYS.get(tag)
        if key is None:   # a model mismatch is only considered covered by a spec mismatch that is itself reported as a VIOLATION
            for lbl, cmd, line in lst:
                spec_jobs_ops.add((cmd, re.search(r"case=(\d+) op=(\d+)", line).group(0)))
        lbl, cmd, line = lst[0]
        hist = history_of(cmd, line)
        n = sum(v for k, v in classes.items() if k.startswith("spec|") and k.endswith("|" + tag))
        what = WHAT.get(tag, "implementation differs from the documented rules (unclassified)")
        ctx.violation("%s [%d operations in this run] e.g. %s" % (what, n, line[:300]),
                      {"history": hist, "harness_cmd": cmd, "mismatch": line[:1200], "class": tag,
                       "more_examples": [l[2][:400] for l in lst[1:]],
                       "how_to_rerun": cmd + " | " + driver}, key=key)
        samples.append({"job": lbl, "case": hist[:6]})
    # ---- model mismatches that are not spec mismatches: the tie is broken
    for (kind, tag), lst in sorted(r["mm"].items()):
        if kind != "model":
            continue
        for lbl, cmd, line in lst:
            if (cmd, re.search(r"case=(\d+) op=(\d+)", line).group(0)) in spec_jobs_ops:
                continue
            hist = history_of(cmd, line)
            ctx.violation("correspondence model<->implementation broken (the transcription in coq/model/Names.v disagrees with the code, the reference spec agrees): " + line[:300],
                          {"obligation": "G3 correspondence of model/Names.v with the implementation", "history": hist, "harness_cmd": cmd,
                           "mismatch": line[:1200]}, no_input=True)
            break
        if len(ctx.violations) >= 12:
            break
    # ---- API level (two iceoryx2 Configs sharing one root): every domain must list exactly its own node and service
    rc, out = vlib.sh(" ".join([exe, "iso", "-", "1", "0", "1", seed]) + " 2>/dev/null", timeout=600)
    api = [l for l in out.split("\n") if l.startswith("ISO ")]
    ctx.cov["api_scenarios"] = api[:60]
    if rc != 0 or not api:
        ctx.violation("API-level isolation scenario did not run", {"rc": rc, "tail": out[-800:]}, no_input=True)
    bad = []        # exactly the known finding F4 (see below)
    bad_other = []  # anything else: a fresh violation, never keyed
    node_files = {}
    for l in api:
        m = re.match(r"ISO (\S+) files (.*)", l)
        if m:
            node_files[m.group(1)] = [f[len("nodes/"):-len(".node_monitor")] for f in m.group(2).split() if f.startswith("nodes/") and f.endswith(".node_monitor")]
    for l in api:
        m = re.match(r"ISO (\S+) (nodes|services)-listed-by-(\d) prefix=(\S+) other=(\S+) -> (\S+) \[(.*)\]", l)
        if m:
            scen, what, who, prefix, other, okv, listed = m.groups()
            own = {"nodes": {"1": "alive:node-one", "2": "alive:node-two"}, "services": {"1": "svc-one", "2": "svc-two"}}[what][who]
            if okv != "true" or listed != own:
                # F4 at API level = ALL of: the two prefixes are prefixes of one another; Node::list succeeded; the own
                # node is listed with its details; every surplus entry is a detail-less alive ghost; and there are exactly
                # as many ghosts as node files of the OTHER domain that our prefix/u128 parser accepts
                # (file = other_prefix + id, file starts with our prefix, remainder is a decimal u128).
                entries = listed.split(",") if listed else []
                related = prefix != other and (prefix.startswith(other) or other.startswith(prefix))
                files = node_files.get(scen, [])      # the node monitor files of BOTH domains (one node each)
                def accepted(f, pfx):                 # what Node::list under prefix pfx takes for one of its nodes
                    rest = f[len(pfx):]
                    return f.startswith(pfx) and rest.isdigit() and int(rest) < 2 ** 128
                mine = [f for f in files if accepted(f, prefix)]
                exact = (related and what == "nodes" and okv == "true"
                         and len(files) == 2 and all(accepted(f, prefix) or accepted(f, other) for f in files)
                         and entries.count(own) == 1
                         and all(e == "alive:?" for e in entries if e != own)
                         and len(entries) == len(mine) and len(entries) >= 2)
                (bad if exact else bad_other).append(l)
        m = re.match(r"ISO (\S+) does-exist-by-(\d) (\S+) -> (.*)", l)
        if m:
            scen, who, svc, resv = m.groups()
            exp = "Some(Some(true))" if (who, svc) in (("1", "svc-one"), ("2", "svc-two")) else "Some(Some(false))"
            if resv.strip() != exp:
                bad_other.append(l)
        if "scenario-panicked" in l:
            bad_other.append(l)
    if bad:
        ctx.violation("F4 at API level: with two Configs in one root whose prefixes are prefixes of one another (\"a_\" vs \"a_1\") Node::list reports a node of the other domain "
                      "(as an alive node with a wrong id and no details): " + bad[0],
                      {"history": bad, "how_to_rerun": " ".join([exe, "iso", "-", "1", "0", "1", seed]),
                       "scenario": "Config A: root R, prefix a_ ; Config B: root R, prefix a_1 ; each creates one node and one publish-subscribe service; "
                                   "then Node::list / Service::list / does_exist under each config"}, key=KEYS["isolation-prefix-of-prefix"])
    if bad_other:
        ctx.violation("API-level isolation scenario: a domain does not list exactly its own node/service and the deviation is NOT the known prefix-of-prefix ghost-node symptom: " + bad_other[0],
                      {"history": bad_other, "how_to_rerun": " ".join([exe, "iso", "-", "1", "0", "1", seed])}, key=None)
    # ---- executable whose file name FilePath accepts and FileName rejects (NodeDetails::new uses file_name())
    import shutil, tempfile
    d = tempfile.mkdtemp(prefix="verif_c19_exe_")
    try:
        exe2 = os.path.join(d, "x\\y")
        shutil.copy(exe, exe2)
        rc, out = vlib.sh("'%s' iso - 1 0 1 %d 2>/dev/null" % (exe2, int(seed) + 1), timeout=600)
        l = [x for x in out.split("\n") if x.startswith("ISO api-disjoint nodes-listed-by-1")]
        ctx.cov["api_backslash_executable"] = l[:1]
        scen = ("NodeDetails::new stores Process::from_self().executable()?.file_name() (FileName::new_unchecked over the last FilePath component); "
                "FilePath allows '\\', FileName does not, so deserialising the node details (FileName::new) fails in every process")
        hist = ["cp <harness> '<dir>/x\\y'", "'<dir>/x\\y' iso - 1 0 1 <seed>"] + l
        if len(l) == 1 and l[0].endswith("-> true [alive:node-one]"):
            pass   # the name round-trips: nothing to report
        elif (len(l) == 1 and l[0].endswith("-> true [alive:?]") and "\\" in os.path.basename(exe2)
              and not any(x in bad + bad_other for x in api if x.startswith("ISO api-disjoint nodes-listed-by-1"))):
            # exactly the known finding: the executable's file name is one FileName::new rejects (backslash), the own node
            # is listed alive WITHOUT details and nothing else, and the same scenario under the normal executable name lists
            # it WITH details (control run above) -- so the loss is due to the unchecked file_name() conversion
            ctx.violation(WHAT["unchecked-name"] + "; API level: a process whose executable file name contains a backslash creates a node whose details cannot be read back: Node::list -> " + l[0],
                          {"history": hist, "scenario": scen}, key=KEYS["unchecked-name"])
        else:
            ctx.violation("scenario with an executable named x\\y: unexpected Node::list result (not the known unchecked-name symptom): " + (l[0] if l else "scenario did not run, rc=%s" % rc),
                          {"history": hist, "scenario": scen, "tail": out[-600:]}, key=None, no_input=not l)
    finally:
        shutil.rmtree(d, ignore_errors=True)
    ctx.cov["samples"] = samples[:8]
    ctx.cov["repaired_in_repo"] = FIXED
    if not proof_ok:
        if not ctx.violations:
            ctx.violation("proof obligation no longer checks: %s" % ctx.broken,
                          {"broken": ctx.broken, "searched": "all operations above agree with the reference spec"}, no_input=True)
        else:
            ctx.notes.append("proof stage broken: %s" % ctx.broken)
    ctx.assumptions = [
        "theorems are about the Gallina model coq/model/Names.v (Linux build: no ':' rule; usize overflow of idx+len not modelled); tie = observational correspondence (G3) on the operations listed in coverage",
        "extraction: ExtrOcamlBasic only; OCaml driver parses/prints only; class tags on mismatches are computed with the extracted Coq predicates",
        "connection_name/extract_*_port_id are pub(crate): the harness executes a slice of the current naming_scheme.rs source text cut out by its build.rs",
        "Service::list / Node::list are exercised on the real file system only in the scenarios listed; their protection by hash/u128 parsing is observed, not modelled",
    ]


if __name__ == "__main__":
    sys.exit(vlib.main(run, "C19"))
