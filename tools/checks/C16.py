#!/usr/bin/env python3
"""C16 -- fixed-capacity containers match reference models, drop elements once."""
import json, os, sys, time
sys.path.insert(0, os.path.dirname(os.path.dirname(os.path.abspath(__file__))))
import vlib
from vlib import VERIF

CONTAINERS = ["queue", "vec", "str", "strz", "slotmap", "flatmap", "option"]
# exhaustive history length per container: (quick, thorough); bounded by the alphabet size
MAXLEN = {"queue": (5, 6), "vec": (4, 5), "str": (3, 4), "strz": (4, 5), "slotmap": (4, 5), "flatmap": (4, 5), "option": (4, 5)}
# random histories per container: (cases quick, cases thorough, max ops quick, max ops thorough)
RANDOM = {"queue": (400, 4000, 2000, 10000), "vec": (400, 4000, 2000, 10000), "str": (400, 4000, 2000, 10000),
          "strz": (100, 1000, 200, 1000), "slotmap": (400, 4000, 2000, 10000),
          "flatmap": (400, 4000, 2000, 10000), "option": (200, 2000, 2000, 10000)}

def _ops(hist):
    return [l for l in hist if l.startswith("O ")]


def _plist(tok):
    """'l1,2,3' / 'l' -> [1, 2, 3] / []"""
    body = tok[1:] if tok.startswith("l") else tok
    return [int(x) for x in body.split(",") if x not in ("", "-")]


def classify(hist, mismatch=""):
    """Key of a failing (spec-mismatching) history, used to match known findings.  A key is
    returned ONLY when the exact preconditions of that finding hold for THIS difference; a history
    that merely contains the operation of a known finding is never keyed.  Everything else -> None
    (an unkeyed VIOLATION).

    string:retain-inverted needs all of:
      * the driver tagged the line cls=retain-inverted (it established, from the extracted models,
        that the previous call was retain, that keep-where-f and remove-where-f differ on the content
        retain was applied to, and that the observed content is exactly the remove-where-f one);
      * re-checked here independently on the printed history: the diverging line is the content
        observation directly after a `retain L` call, the content before that call is B (the last
        content line before it, verified or resynchronised by the driver), the implementation shows
        exactly [b in B if b not in L], the reference expects exactly [b in B if b in L], and the two
        differ."""
    if not hist or " cls=retain-inverted " not in mismatch:
        return None
    hdr = hist[0].split()
    if len(hdr) < 3 or hdr[1] != "str":
        return None
    ops = _ops(hist)
    try:
        k = int(mismatch.split(" op=")[1].split()[0])
        spec_tok = mismatch.split("] spec=")[1].split()[0]
    except Exception:
        return None
    if not (2 <= k <= len(ops)):
        return None
    cur, prev = ops[k - 1].split(), ops[k - 2].split()
    if len(cur) != 4 or cur[1] != "bytes" or len(prev) != 5 or prev[1] != "retain" or prev[4] != "ok":
        return None
    before = []
    for l in reversed(ops[:k - 2]):
        t = l.split()
        if t[1] == "bytes" and len(t) == 4 and t[3] != "P":
            before = _plist(t[3])
            break
    pred = set(_plist(prev[2]))
    impl, spec = _plist(cur[3]), _plist(spec_tok)
    removed_where_true = [b for b in before if b not in pred]
    kept_where_true = [b for b in before if b in pred]
    if impl == removed_where_true and spec == kept_where_true and impl != spec:
        return "string:retain-inverted"
    return None


def run(ctx):
    proof_ok = vlib.proof_stage(ctx)
    ok, out = vlib.ocaml_driver("C16")
    if not ok:
        ctx.violation("extracted model / OCaml driver does not build", {"log": out}, no_input=True)
        return
    ok, out, tdir = vlib.cargo_build("g3", bins=["c16"])
    if not ok:
        ctx.violation("harness does not build against /repo", {"log": out}, no_input=True)
        return
    exe = os.path.join(tdir, "c16")
    driver = os.path.join(VERIF, "ocaml", "c16", "driver")
    nsh = 16
    th = ctx.thorough()
    tot = {"cases": 0, "ops": 0, "distinct_nontrivial": 0, "mismatches_model": 0, "mismatches_spec": 0, "opcount": {}}
    percont = {}
    all_jobs = []
    spec_mm, model_mm, failed = [], [], []
    def one_container(c):
        maxlen = MAXLEN[c][1 if th else 0]
        nq, nt, lq, lt = RANDOM[c]
        jobs = []
        for sh_i in range(nsh):
            jobs.append(("exh:%s:%d" % (c, sh_i), [exe, "exh", c, str(maxlen), str(sh_i), str(nsh), str(ctx.seed)]))
        for sh_i in range(nsh):
            jobs.append(("rnd:%s:%d" % (c, sh_i), [exe, "rnd", c, str(lt if th else lq), str(sh_i), str(nsh), str(ctx.seed), str(nt if th else nq)]))
        t0 = time.time()
        r = vlib.run_pipelines(jobs, driver)   # one call per container: each keeps its own mismatch lines
        return c, maxlen, jobs, r, round(time.time() - t0, 1)

    import concurrent.futures as cf
    with cf.ThreadPoolExecutor(max_workers=3) as ex:   # a few containers at a time keeps the cores busy at the tails
        results = list(ex.map(one_container, CONTAINERS))
    for c, maxlen, jobs, r, wall in results:
        percont[c] = {"cases": r["cases"], "ops": r["ops"], "distinct_nontrivial": r["distinct_nontrivial"],
                      "mismatches_model": r["mismatches_model"], "mismatches_spec": r["mismatches_spec"],
                      "exhaustive_maxlen": maxlen, "wall_s": wall}
        for k in ("cases", "ops", "distinct_nontrivial", "mismatches_model", "mismatches_spec"):
            tot[k] += r[k]
        tot["opcount"].update(r["opcount"])
        all_jobs += jobs
        failed += r["failed_jobs"]
        spec_mm += [m for m in r["mismatch_lines"] if "kind=spec" in m[2]]
        model_mm += [m for m in r["mismatch_lines"] if "kind=model" in m[2]]
    # construction with capacity 0 (one observation per container type and flavour)
    rc, out0 = vlib.sh(exe + " obs cap0 0 0 1 1 2>/dev/null", timeout=120)
    ctx.cov["capacity0_construction"] = [l[2:] for l in out0.split("\n") if l.startswith("Z ")]
    ctx.cov.update({
        "evaluations": tot["cases"], "distinct_nontrivial": tot["distinct_nontrivial"],
        "traces_validated_against_impl": tot["cases"], "ops_executed": tot["ops"],
        "op_distribution": tot["opcount"], "per_container": percont,
        "rule": "exhaustive: every op sequence of length <= per_container[c].exhaustive_maxlen over the per-container alphabet, capacities 0..4, "
                "storage flavours heap/inline/relocatable (inline/relocatable flavours that cannot be constructed with capacity 0 are skipped there, see "
                "capacity0_construction), drop-logging (and for the queue also Copy) elements; strings additionally one history per byte value 0..255; random: seeded "
                "phase-biased histories up to %d ops, capacities up to 33, string bytes uniform over 0..255 with an ASCII bias. distinct = distinct (container, capacity, "
                "op sequence) ignoring flavour; non-trivial = at least one element was stored" % (10000 if th else 2000),
        "exhaustive": False,
    })
    samples = []
    for lbl, argv in all_jobs[:1] + all_jobs[-1:]:
        c = vlib.extract_case(argv, driver, 40)
        if c:
            samples.append({"job": lbl, "case": c[:12]})
    ctx.cov["samples"] = samples
    for lbl, cmd, rc, tail in failed:
        ctx.violation("correspondence job failed (harness or driver crashed): " + lbl, {"cmd": cmd, "rc": rc, "tail": tail}, no_input=True)
    # mismatches: spec mismatch = the property fails on a concrete history (replay = that history)
    reported = set()
    nviol = 0
    seen_sig = set()
    # differences without a known-finding class tag are examined first
    spec_mm.sort(key=lambda m: 1 if " cls=" in m[2] else 0)
    for lbl, cmd, line in spec_mm:
        # one re-run per distinct (container, op, previous op, panicked?) signature, not per line
        opname = line.split("line=[O ")[1].split()[0] if "line=[O " in line else "?"
        # the class tag is part of the signature: an untagged difference at the same place is looked at separately
        sig = (lbl.split(":")[1], opname, line.split(" prev=")[1].split()[0] if " prev=" in line else "", line.endswith("impl=P"),
               line.split(" cls=")[1].split()[0] if " cls=" in line else "")
        if sig in seen_sig:
            continue
        seen_sig.add(sig)
        case_no = int(line.split("case=")[1].split()[0])
        hist = vlib.extract_case(cmd.split(), driver, case_no)
        key = classify(hist, line)
        if key is not None:
            # a known-finding key is reported once; unkeyed differences are never merged with each other
            if key in reported:
                continue
            reported.add(key)
        body = {"history": hist, "harness_cmd": cmd, "mismatch": line, "how_to_rerun": cmd + " | " + driver}
        if key is not None or nviol < 5:
            # a key listed in known_findings.json prints KNOWN-FINDING; anything else is a VIOLATION
            # (at most 5 unkeyed ones are written out; the known finding is reported regardless)
            if ctx.violation("implementation differs from the reference container: " + line, body, key=key):
                nviol += 1
    if model_mm:
        lbl, cmd, line = model_mm[0]
        case_no = int(line.split("case=")[1].split()[0])
        hist = vlib.extract_case(cmd.split(), driver, case_no)
        ctx.violation("correspondence model<->implementation broken (the concrete model disagrees with the implementation): " + line,
                      {"obligation": "G3 correspondence of coq/model/{RingQueue,Vec,Str,SlotMap,FlatMap,RelocOption}.v with the implementation", "history": hist, "harness_cmd": cmd}, no_input=True)
    if not proof_ok:
        if not ctx.violations:
            ctx.violation("proof obligation no longer checks: %s" % ctx.broken,
                          {"broken": ctx.broken, "searched": "all histories above agree with the reference model"}, no_input=True)
    ctx.assumptions = [
        "theorem is about the Gallina models in coq/model; tie = observational correspondence (G3) on the histories listed in coverage",
        "extraction: ExtrOcamlBasic only; OCaml driver parses/prints only",
        "memory safety of the unsafe code is not modelled; drops are observed through a logging element type",
    ]


if __name__ == "__main__":
    sys.exit(vlib.main(run, "C16"))
