#!/usr/bin/env python3
"""C16 -- fixed-capacity containers match reference models, drop elements once."""
import os, sys
sys.path.insert(0, os.path.dirname(os.path.dirname(os.path.abspath(__file__))))
import vlib
from vlib import VERIF

CONTAINERS = ["queue"]


def classify(line):
    """Key of a failing (spec-mismatching) history: used to match known findings."""
    return None


def run(ctx):
    proof_ok = vlib.proof_stage(ctx)
    ok, out = vlib.ocaml_driver("C16")
    if not ok:
        ctx.violation("extracted model / OCaml driver does not build", {"log": out}, no_input=True)
        return
    ok, out, tdir = vlib.cargo_build("g3", bins=["c16"])
    if not ok:
        ctx.violation("harness does not build against /repo", {"log": out}, no_input=True)
        return
    exe = os.path.join(tdir, "c16")
    driver = os.path.join(VERIF, "ocaml", "c16", "driver")
    maxlen = 6 if ctx.thorough() else 5
    nsh = 16
    jobs = []
    for c in CONTAINERS:
        for sh_i in range(nsh):
            jobs.append(("exh:%s:%d" % (c, sh_i), [exe, "exh", c, str(maxlen), str(sh_i), str(nsh), str(ctx.seed)]))
        nrand = 4000 if ctx.thorough() else 400
        rlen = 10000 if ctx.thorough() else 2000
        for sh_i in range(nsh):
            jobs.append(("rnd:%s:%d" % (c, sh_i), [exe, "rnd", c, str(rlen), str(sh_i), str(nsh), str(ctx.seed), str(nrand)]))
    r = vlib.run_pipelines(jobs, driver)
    ctx.cov.update({
        "evaluations": r["cases"], "distinct_nontrivial": r["distinct_nontrivial"],
        "traces_validated_against_impl": r["cases"], "ops_executed": r["ops"],
        "op_distribution": r["opcount"],
        "rule": "exhaustive: every op sequence of length <= %d over the per-container alphabet, capacities 0..4, "
                "storage flavours heap/inline/relocatable, element kinds drop-logging and Copy; random: seeded "
                "fill/drain-biased histories up to %d ops, capacities up to 33. distinct = distinct (container, capacity, "
                "op sequence) ignoring flavour; non-trivial = at least one element was stored" % (maxlen, 10000 if ctx.thorough() else 2000),
        "exhaustive": False,
    })
    # samples: first case of a few jobs
    samples = []
    for lbl, argv in jobs[:1] + jobs[-1:]:
        c = vlib.extract_case(argv, driver, 40)
        if c:
            samples.append({"job": lbl, "case": c[:12]})
    ctx.cov["samples"] = samples
    for lbl, cmd, rc, tail in r["failed_jobs"]:
        ctx.violation("correspondence job failed (harness or driver crashed): " + lbl, {"cmd": cmd, "rc": rc, "tail": tail}, no_input=True)
    # mismatches: spec mismatch = the property fails on a concrete history (replay = that history)
    spec_mm = [m for m in r["mismatch_lines"] if "kind=spec" in m[2]]
    model_mm = [m for m in r["mismatch_lines"] if "kind=model" in m[2]]
    reported = set()
    for lbl, cmd, line in spec_mm[:20]:
        case_no = int(line.split("case=")[1].split()[0])
        hist = vlib.extract_case(cmd.split(), driver, case_no)
        key = classify(hist)
        if (key, hist[0] if hist else "") in reported:
            continue
        reported.add((key, hist[0] if hist else ""))
        ctx.violation("implementation differs from the reference container: " + line,
                      {"history": hist, "harness_cmd": cmd, "mismatch": line,
                       "how_to_rerun": cmd + " | " + driver}, key=key)
        if len(ctx.violations) >= 5:
            break
    if model_mm and not spec_mm:
        lbl, cmd, line = model_mm[0]
        case_no = int(line.split("case=")[1].split()[0])
        hist = vlib.extract_case(cmd.split(), driver, case_no)
        ctx.violation("correspondence model<->implementation broken (concrete model disagrees, reference agrees): " + line,
                      {"obligation": "G3 correspondence of model/RingQueue.v etc. with the implementation", "history": hist, "harness_cmd": cmd}, no_input=True)
    if not proof_ok:
        if not ctx.violations:
            ctx.violation("proof obligation no longer checks: %s" % ctx.broken,
                          {"broken": ctx.broken, "searched": "all histories above agree with the reference model"}, no_input=True)
    ctx.assumptions = [
        "theorem is about the Gallina models in coq/model; tie = observational correspondence (G3) on the histories listed in coverage",
        "extraction: ExtrOcamlBasic only; OCaml driver parses/prints only",
        "memory safety of the unsafe code is not modelled; drops are observed through a logging element type",
    ]


if __name__ == "__main__":
    sys.exit(vlib.main(run, "C16"))
