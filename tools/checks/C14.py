#!/usr/bin/env python3
"""C14 -- shared-memory data structures are position independent.

Part T (translator + proof over the regenerated finite table): harness/xlate-shm regenerates
coq/gen/ShmTypes.v from /repo's current source (every #[derive(ZeroCopySend)], every
`unsafe impl ZeroCopySend`, every RelocatableContainer implementer); props/C14.v is rebuilt
against the NEW table; rows that are not address free are listed by evaluating the same Coq
function (`failing`) that the theorem uses.
Part G3 (decides the property for the real code): harness/g3/c14 runs operation histories on
every relocatable structure of /repo inside a harness-owned block and relocates the block
(memcpy to a fresh address with different alignment modulo 64, old block poisoned and
PROT_NONE) at every prefix point; observations must equal the unrelocated run's and, where an
extracted Coq model exists, the model's (driver of C16)."""
import concurrent.futures as cf
import difflib
import json
import os
import re
import shutil
import sys
import time
sys.path.insert(0, os.path.dirname(os.path.dirname(os.path.abspath(__file__))))
import vlib
from vlib import VERIF, REPO, BUILD

XLATE_DIR = os.path.join(VERIF, "harness", "xlate-shm")
XLATE_TARGET = os.path.join(BUILD, "target-xlate")
WORK = os.path.join(BUILD, "c14")
GEN_V = os.path.join(VERIF, "coq", "gen", "ShmTypes.v")

# subject -> (has extracted model, exhaustive maxlen quick, thorough, shards quick, shards thorough)
SUBJECTS = {
    # alphabets of at most 8 calls: length 4 quick; larger alphabets: length 3 quick (4 and 5 in the thorough tier)
    "vec":        (True, 3, 5, 6, 32),
    "queue":      (True, 4, 5, 4, 4),
    "queueu":     (True, 4, 5, 8, 8),
    "str":        (True, 3, 4, 10, 32),
    "slotmap":    (True, 3, 5, 5, 32),
    "flatmap":    (True, 3, 5, 4, 24),
    "indexq":     (True, 4, 6, 1, 2),
    "oflowq":     (True, 4, 6, 1, 2),
    "uis":        (False, 4, 6, 2, 4),
    "ruis":       (False, 3, 5, 3, 16),
    "bitset":     (False, 4, 6, 3, 8),
    "container":  (False, 3, 5, 3, 16),
    "usedchunks": (False, 4, 6, 2, 4),
    "calpool":    (False, 4, 5, 6, 8),
    "calbump":    (False, 4, 5, 4, 6),
}
# subjects whose alphabet contains the allocator calls that move content (reported under one key)
GROW_SUBJECTS = ["calpoolgrow", "calbumpgrow"]
# The ONLY findings that may carry a key (known_findings.json matches by key): each with its exact preconditions.
#  * a table row failing pi_free is keyed only for the type and the field set recorded here; a further failing field of the same
#    type, or any other type, is reported without a key
#  * a relocation anomaly is keyed only if it is a FAULT of the relocated phase, after at least one relocation, of a grow subject,
#    while executing grow(Back) (pool) / grow(Front|Back) (bump) on a previously allocated chunk.  Everything else -- any divergence,
#    any fault at another call, any fault of the unrelocated phase, any anomaly of any other subject, any model mismatch -- has no key.
KEYED_PI_FREE_FIELDS = {"iceoryx2_bb_threadsafe::trigger_queue::TriggerQueue": {"queue", "free_slots", "used_slots"}}
GROW_KEY = "shm-allocator:grow-dereferences-creator-address"
GROW_OPS = {"calpoolgrow": ("GrowBack",), "calbumpgrow": ("GrowBack", "GrowFront")}


def is_recorded_grow_fault(subject, line):
    if subject not in GROW_OPS or not line.startswith("FAULT "):
        return False
    kv = parse_kv(line)
    ops = re.findall(r"[A-Za-z]+(?:\([^)]*\))?", kv.get("ops", "[]")[1:-1])
    try:
        at, nrel = int(kv.get("at_op", "-1")), int(kv.get("relocations_so_far", "0"))
    except ValueError:
        return False
    if kv.get("phase") != "reloc" or kv.get("signal") != "11" or nrel < 1 or not (1 <= at <= len(ops)):
        return False
    return ops[at - 1].startswith(GROW_OPS[subject]) and any(o.startswith("Alloc(") for o in ops[:at - 1])
# planted position-dependent structures of the harness itself (src/selftest.rs): must be detected on every run
SELFTEST = {"selftest-fault": ("FAULT", "2"), "selftest-diverge": ("DIVERGE", "1")}
RANDOM_CASES = (64, 1600)      # per subject: quick, thorough
RANDOM_MAXOPS = 200

NAMES = {
    "vec": "RelocatableVec", "queue": "RelocatableQueue<El>", "queueu": "RelocatableQueue<u64>", "str": "RelocatableString",
    "slotmap": "RelocatableSlotMap", "flatmap": "RelocatableFlatMap", "indexq": "RelocatableIndexQueue",
    "oflowq": "RelocatableSafelyOverflowingIndexQueue", "uis": "UniqueIndexSet", "ruis": "RobustUniqueIndexSet",
    "bitset": "RelocatableBitSet", "container": "mpmc Container", "usedchunks": "RelocatableUsedChunkList",
    "calpool": "cal shm PoolAllocator", "calbump": "cal shm BumpAllocator",
    "calpoolgrow": "cal shm PoolAllocator incl. grow(Back)", "calbumpgrow": "cal shm BumpAllocator incl. grow",
}


# -----------------------------------------------------------------------------------------
# part T
# -----------------------------------------------------------------------------------------
def build_xlate():
    lockf = os.path.join(XLATE_DIR, "Cargo.lock")
    if not os.path.exists(lockf):
        shutil.copy(os.path.join(REPO, "Cargo.lock"), lockf)
    env = {"CARGO_TARGET_DIR": XLATE_TARGET, "CARGO_NET_OFFLINE": "true"}
    cmd = "cargo build --offline -j%d" % vlib.NPROC
    rc, out = vlib.sh(cmd, cwd=XLATE_DIR, env=env, timeout=1500)
    if rc != 0 and "Cargo.lock" in out:
        shutil.copy(os.path.join(REPO, "Cargo.lock"), lockf)
        rc, out = vlib.sh(cmd, cwd=XLATE_DIR, env=env, timeout=1500)
    return rc == 0, out[-4000:], os.path.join(XLATE_TARGET, "debug", "xlate-shm")


def part_t(ctx):
    os.makedirs(WORK, exist_ok=True)
    ok, out, exe = build_xlate()
    if not ok:
        ctx.violation("translator harness/xlate-shm does not build", {"obligation": "T: source -> gen/ShmTypes.v", "log": out}, no_input=True)
        return None
    new_v, new_json = os.path.join(WORK, "ShmTypes.v"), os.path.join(WORK, "shm.json")
    for f in (new_v, new_json):
        if os.path.exists(f):
            os.remove(f)
    rc, out = vlib.sh([exe, "--repo", REPO, "--coq", new_v, "--json", new_json], timeout=600)
    errs = [l[len("XLATE-ERROR "):] for l in out.split("\n") if l.startswith("XLATE-ERROR")]
    notes = [l[len("XLATE-NOTE "):] for l in out.split("\n") if l.startswith("XLATE-NOTE")]
    okl = [l for l in out.split("\n") if l.startswith("XLATE-OK")]
    if rc != 0 or errs or not okl or not os.path.exists(new_v):
        ctx.violation("translator cannot parse the shared-memory type definitions: %s" % ("; ".join(errs[:5]) or out[-400:]),
                      {"obligation": "T: every #[derive(ZeroCopySend)], `unsafe impl ZeroCopySend` and RelocatableContainer implementer must be translated "
                                     "(pi_free cannot be stated for what is not translated)", "errors": errs, "output_tail": out[-1500:]}, no_input=True)
        return None
    ctx.log(okl[0])
    tab = json.load(open(new_json))
    ctx.cov["table"] = {k: int(v) for k, v in (kv.split("=") for kv in okl[0].split()[1:])}
    ctx.cov["translator_notes"] = [n[:300] for n in notes]
    old = open(GEN_V).read() if os.path.exists(GEN_V) else ""
    new = open(new_v).read()
    moved = []
    if old != new:
        for l in difflib.unified_diff(old.split("\n"), new.split("\n"), "accepted", "regenerated", lineterm="", n=0):
            if l.startswith(("+", "-")) and not l.startswith(("+++", "---")):
                moved.append(l[:300])
        ctx.log("generated table differs from the committed copy in %d lines; theorems are rebuilt against the NEW table" % len(moved))
        open(GEN_V, "w").write(new)
    ctx.cov["table_rows_moved"] = moved[:60]
    ctx.cov["table_differs_from_committed"] = bool(moved)
    return tab


PROBE_V = """From Coq Require Import List String.
From V Require Import model.ShmTypes gen.ShmTypes.
From W Require Import proofs.RelPtrTable.
Import ListNotations.
Open Scope string_scope.
Eval vm_compute in (map (fun x => (fst (fst x), snd (fst x))) (failing shm_tables exceptions)).
Eval vm_compute in (map (fun e => (e_row e, e_field e)) (filter (fun e => negb (exception_live shm_tables e)) exceptions)).
Eval vm_compute in known_not_pi_free.
Eval vm_compute in (map (fun e => (e_row e, e_field e)) exceptions).
"""


def failing_rows(ctx):
    """Evaluate the theorem's own decision procedure row by row (the search of part T).
    Returns (failing [(row, field)], stale exceptions [(row, field)], known rows, exceptions) or None."""
    os.makedirs(WORK, exist_ok=True)
    rc, out = vlib.coq_make(["model/ShmTypes.vo", "gen/ShmTypes.vo"], timeout=900)
    if rc != 0:
        return None, out[-1500:]
    # RelPtrTable.vo may be the thing that fails to build (its theorems): compile a copy of its definitions only
    src = open(os.path.join(VERIF, "coq", "proofs", "RelPtrTable.v")).read()
    defs_only = re.sub(r"(?s)\b(Lemma|Theorem)\b.*?\bQed\.", "", src)
    scratch = os.path.join(WORK, "coq")
    os.makedirs(os.path.join(scratch, "proofs"), exist_ok=True)
    open(os.path.join(scratch, "proofs", "RelPtrTable.v"), "w").write(defs_only)
    lock = os.path.join(BUILD, "coq.lock")
    cmd = ("cd %s && flock %s timeout 600 coqc -q -Q %s V -Q . W proofs/RelPtrTable.v" % (scratch, lock, vlib.COQ))
    rc, out = vlib.sh(cmd, timeout=900)
    if rc != 0:
        return None, out[-1500:]
    open(os.path.join(scratch, "probe.v"), "w").write(PROBE_V)
    rc, out = vlib.sh("cd %s && flock %s timeout 600 coqc -q -Q %s V -Q . W probe.v" % (scratch, lock, vlib.COQ), timeout=900)
    if rc != 0:
        return None, out[-1500:]
    blocks = re.split(r"(?m)^\s*= ", out)[1:]
    res = []
    for b in blocks[:4]:
        body = b.split("\n     :")[0]
        pairs = re.findall(r'\(\s*"([^"]*)"\s*,\s*"([^"]*)"\s*\)', body)
        singles = re.findall(r'"([^"]*)"', body)
        res.append((pairs, singles))
    if len(res) < 4:
        return None, out[-1500:]
    return {"failing": res[0][0], "stale_exceptions": res[1][0], "known": res[2][1], "exceptions": res[3][0]}, ""


def report_table(ctx, tab, proof_ok):
    r, log = failing_rows(ctx)
    if r is None:
        ctx.violation("cannot evaluate pi_free over the regenerated table (generated file or model does not compile)",
                      {"obligation": "coq/gen/ShmTypes.v must compile against coq/model/ShmTypes.v", "log_tail": log}, no_input=True)
        return
    rows = {x["qual"]: x for x in tab["rows"]}
    by_row = {}
    for q, f in r["failing"]:
        by_row.setdefault(q, []).append(f)
    ctx.cov["exceptions_with_justification"] = ["%s.%s" % e for e in r["exceptions"]]
    ctx.cov["rows_not_address_free"] = by_row
    # unkeyed rows first, so that a recorded finding can never crowd out a new one
    parts = []
    for q, fields in sorted(by_row.items()):
        rec = KEYED_PI_FREE_FIELDS.get(q, set())
        new = [f for f in fields if f not in rec]
        old = [f for f in fields if f in rec]
        if new:
            parts.append((0, q, new, None))
        if old:
            parts.append((1, q, old, "pi-free:" + q))
    for _, q, fields, key in sorted(parts, key=lambda x: (x[0], x[1])):
        row = rows.get(q, {})
        srcs = {f["name"]: f.get("src", "?") for f in row.get("fields", [])}
        ctx.violation("type placed in shared memory is not address free: %s (%s) fields %s" % (
            q, row.get("where", "?"), ", ".join("%s: %s" % (f, srcs.get(f, "?")) for f in fields)),
            {"kind": "table row failing pi_free", "row": q, "where": row.get("where"), "origins": row.get("origins"),
             "fields": [{"name": f, "type": srcs.get(f)} for f in fields],
             "listed_in_coq_known_not_pi_free": q in r["known"],
             "how_to_rerun": "./check C14 quick   (row of /verif/build/c14/shm.json; Coq: Eval vm_compute in failing shm_tables exceptions)"},
            key=key)
    unlisted = [q for q in by_row if q not in r["known"]]
    stale_known = [q for q in r["known"] if q not in by_row]
    if not proof_ok:
        ctx.violation("proof obligation no longer checks: %s%s%s%s" % (
            [str(b.get("obligation")) + ":" + str(b.get("detail")) for b in ctx.broken],
            ("; failing rows not listed in proofs/RelPtrTable.v known_not_pi_free: %s" % unlisted) if unlisted else "",
            ("; stale exceptions (field no longer fails or no longer exists): %s" % r["stale_exceptions"]) if r["stale_exceptions"] else "",
            ("; stale known_not_pi_free entries (source fixed?): %s" % stale_known) if stale_known else ""),
            {"broken": ctx.broken, "unlisted_failing_rows": unlisted, "stale_exceptions": r["stale_exceptions"], "stale_known": stale_known,
             "searched": "pi_free evaluated on all %d rows / %d fields of the regenerated table" % (len(tab["rows"]), sum(len(x["fields"]) for x in tab["rows"]))},
            no_input=not unlisted)


# -----------------------------------------------------------------------------------------
# part G3
# -----------------------------------------------------------------------------------------
def type_crosscheck(ctx, exe, tab):
    rc, out = vlib.sh([exe, "types"], timeout=60)
    rowq = {x["qual"]: x for x in tab["rows"]}
    auxq = {x["qual"]: x for x in tab["aux"]}
    shorts = {x["short"] for x in tab["rows"]}
    seen, missing = {}, []
    for l in out.split("\n"):
        if not l.startswith("TYPE "):
            continue
        _, subj, ty = l.split(" ", 2)
        q = ty.split("<")[0]
        short = q.split("::")[-1]
        if q in rowq:
            seen[ty] = "row " + q
        elif q in auxq and ("Relocatable" + short[4:] if short.startswith("Meta") else None) in shorts:
            seen[ty] = "row Relocatable%s (alias of %s)" % (short[4:], q)
        else:
            missing.append((subj, ty))
    ctx.cov["relocated_types_in_table"] = seen
    for subj, ty in missing:
        ctx.violation("the harness relocates %s but the translator's table has no row for it" % ty,
                      {"obligation": "dynamic cross-check of the translator: every relocated type is a table row", "subject": subj}, no_input=True)


def run_jobs(ctx, exe, driver):
    th = ctx.thorough()
    rep_dir = os.path.join(WORK, "rep")
    shutil.rmtree(rep_dir, ignore_errors=True)
    os.makedirs(rep_dir)
    jobs = []
    for s, (model, lq, lt, nq, nt) in SUBJECTS.items():
        nsh = nt if th else nq
        for i in range(nsh):
            jobs.append((s, "exh", [exe, "exh", s, str(lt if th else lq), str(i), str(nsh), str(ctx.seed), "0", os.path.join(rep_dir, "%s-exh-%d.rep" % (s, i))], model))
        nr = 4 if th else 2
        for i in range(nr):
            jobs.append((s, "rnd", [exe, "rnd", s, str(RANDOM_MAXOPS), str(i), str(nr), str(ctx.seed), str(RANDOM_CASES[1 if th else 0]), os.path.join(rep_dir, "%s-rnd-%d.rep" % (s, i))], model))
    for s in GROW_SUBJECTS:
        jobs.append((s, "exh", [exe, "exh", s, "2", "0", "1", str(ctx.seed), "0", os.path.join(rep_dir, "%s-exh-0.rep" % s)], False))

    for s, (_, ln) in SELFTEST.items():
        jobs.append((s, "exh", [exe, "exh", s, ln, "0", "1", str(ctx.seed), "0", os.path.join(rep_dir, "%s-exh-0.rep" % s)], False))

    def one(job):
        s, mode, argv, model = job
        t0 = time.time()
        if model:
            rc, out = vlib.sh("set -o pipefail; " + " ".join(argv) + " 2>/dev/null | " + driver, timeout=3000)
        else:
            rc, out = vlib.sh(" ".join(argv) + " >/dev/null 2>&1", timeout=3000)
        rep = open(argv[-1]).read() if os.path.exists(argv[-1]) else ""
        return s, mode, argv, model, rc, out, rep, time.time() - t0

    # big jobs first
    jobs.sort(key=lambda j: -(SUBJECTS.get(j[0], (0, 0, 0, 0, 0))[2 if th else 1] * 10 + (1 if j[1] == "exh" else 0)))
    with cf.ThreadPoolExecutor(max_workers=vlib.NPROC) as ex:
        return list(ex.map(one, jobs))


def parse_kv(line):
    d = {}
    for m in re.finditer(r"(\w+)=(\[[^\]]*\]|\S+)", line):
        d[m.group(1)] = m.group(2)
    return d


def part_g3(ctx, tab):
    ok, out = vlib.ocaml_driver("C16")
    if not ok:
        ctx.violation("extracted model / OCaml driver of C16 (reused for the relocated runs) does not build", {"log": out}, no_input=True)
        return
    driver = os.path.join(VERIF, "ocaml", "c16", "driver")
    ok, out, tdir = vlib.cargo_build("g3", bins=["c14"])
    if not ok:
        ctx.violation("harness harness/g3/c14 does not build against /repo", {"log": out}, no_input=True)
        return
    exe = os.path.join(tdir, "c14")
    if tab is not None:
        type_crosscheck(ctx, exe, tab)
    results = run_jobs(ctx, exe, driver)
    per = {}
    faults, diverges, model_mm, crashed = [], [], [], []
    spec_mm = 0
    selftest_seen = {}
    for s, mode, argv, model, rc, out, rep, wall in results:
        if s in SELFTEST:
            selftest_seen[s] = sum(1 for l in rep.split("\n") if l.startswith(SELFTEST[s][0]))
            continue
        p = per.setdefault(s, {"structure": NAMES.get(s, s), "cases": 0, "ops": 0, "relocations": 0, "diverged": 0, "faults": 0, "panicked_cases": 0,
                               "model_checked_cases": 0, "mismatches_model": 0, "compared_with": "unrelocated run + extracted model (C16 driver)" if model else "unrelocated run only (no sequential extracted model)",
                               "wall_s": 0.0})
        p["wall_s"] = round(max(p["wall_s"], wall), 1)
        done = False
        for l in rep.split("\n"):
            if l.startswith("STATS"):
                kv = parse_kv(l)
                for k in ("cases", "ops", "relocations", "diverged", "panicked_cases"):
                    p[k] += int(kv.get(k, 0))
            elif l.startswith("FAULT"):
                p["faults"] += 1
                faults.append((s, l, argv))
            elif l.startswith("DIVERGE"):
                diverges.append((s, l, argv))
            elif l.startswith("DONE"):
                done = True
            elif l.startswith("GIVING-UP"):
                crashed.append((s, " ".join(argv), rc, l))
        if model:
            got = False
            for l in out.split("\n"):
                if l.startswith("SUMMARY"):
                    got = True
                    kv = dict(x.split("=") for x in l.split()[1:])
                    p["model_checked_cases"] += int(kv.get("cases", 0))
                    p["mismatches_model"] += int(kv.get("mismatches_model", 0))
                    spec_mm += int(kv.get("mismatches_spec", 0))
                elif l.startswith("MISMATCH") and "kind=model" in l:
                    model_mm.append((s, l, argv))
            if not got:
                crashed.append((s, " ".join(argv), rc, out[-600:]))
        if not done:
            crashed.append((s, " ".join(argv), rc, (rep[-400:] + " | " + out[-300:])))
    ctx.cov["harness_selftest"] = {s: "%d x %s on the planted position-dependent structure" % (n, SELFTEST[s][0]) for s, n in selftest_seen.items()}
    for s in SELFTEST:
        if not selftest_seen.get(s):
            ctx.violation("harness self-test failed: the relocation machinery did not report %s for the planted position-dependent structure %s" % (SELFTEST[s][0], s),
                          {"obligation": "G3: a structure that stores an absolute address must fault or diverge under relocation (harness/g3/c14/src/selftest.rs)",
                           "how_to_rerun": "%s exh %s %s 0 1 1 0 /dev/stdout" % (exe, s, SELFTEST[s][1])}, no_input=True)
    ctx.cov["per_structure"] = per
    tot = {k: sum(p[k] for p in per.values()) for k in ("cases", "ops", "relocations", "diverged", "faults", "model_checked_cases", "mismatches_model")}
    th = ctx.thorough()
    ctx.cov.update({
        "evaluations": tot["cases"], "traces_validated_against_impl": tot["cases"], "ops_executed": tot["ops"], "relocations": tot["relocations"],
        "model_checked_cases": tot["model_checked_cases"], "spec_mismatches_ignored_here": spec_mm,
        "distinct_nontrivial": tot["cases"], "exhaustive": False,
        "rule": "per structure: every operation sequence up to the exhaustive length (quick %s) over the structure's alphabet, capacities 1..3 (bit set also 9), relocated at EVERY prefix point "
                "(right after init, after each call, before drop); plus %d seeded random histories of up to %d calls, capacities up to 33, half relocated at every prefix point and half at a random subset; "
                "each history is executed twice (unrelocated / relocated) and the observation streams compared; relocated streams of vec/queue/string/slot map/flat map/index queues are replayed on the extracted Coq models" % (
                    {s: (v[2] if th else v[1]) for s, v in SUBJECTS.items()}, RANDOM_CASES[1 if th else 0], RANDOM_MAXOPS),
    })
    for s, cmd, rc, tail in crashed[:5]:
        ctx.violation("relocation job failed (harness or driver crashed): %s" % s, {"cmd": cmd, "rc": rc, "tail": tail}, no_input=True)
    # faults / divergences: shortest history per subject
    def hist_len(line):
        m = re.search(r"ops=\[(.*?)\] phase", line)
        return len(m.group(1)) if m else 0
    grow = [f for f in faults + diverges if is_recorded_grow_fault(f[0], f[1])]
    other = [f for f in faults + diverges if not is_recorded_grow_fault(f[0], f[1])]
    seen = set()
    for s, line, argv in sorted(other, key=lambda f: hist_len(f[1])):
        if s in seen or len(seen) >= 8:
            continue
        seen.add(s)
        kv = parse_kv(line)
        kind = "faults on a stale absolute address" if line.startswith("FAULT") else "diverges from the unrelocated run"
        ctx.violation("%s: relocated history %s: %s" % (NAMES.get(s, s), kind, line[:400]),
                      {"structure": NAMES.get(s, s), "report_line": line, "case_id": kv.get("id"), "plan": kv.get("plan"),
                       "how_to_rerun": "%s one %s %s %s" % (exe, s, kv.get("id"), kv.get("plan", "default"))})
    if grow:
        shortest = sorted(grow, key=lambda f: hist_len(f[1]))
        exs = {}
        for s, line, argv in shortest:
            exs.setdefault(s, line)
        kv = parse_kv(shortest[0][1])
        ctx.violation("cal shm allocators: grow() that moves content dereferences start_address() + offset, an address of the CREATING process: after relocation "
                      "(= in any other process that maps the segment) it faults: %s" % " ;; ".join(l[:260] for l in exs.values()),
                      {"structures": [NAMES[s] for s in exs], "where": "iceoryx2-cal/src/shm_allocator/pool_allocator.rs InitializedPoolAllocator::grow (ContentPlacement::Back), "
                       "bump_allocator.rs InitializedBumpAllocator::grow (both placements when the chunk is not the last one, Back always)",
                       "report_lines": list(exs.values()), "occurrences": len(grow),
                       "how_to_rerun": "%s one %s %s" % (exe, shortest[0][0], kv.get("id"))},
                      key=GROW_KEY)
    ctx.cov["grow_probe"] = {"recorded_grow_faults": len(grow), "other_anomalies_of_grow_subjects": sum(1 for f in other if f[0] in GROW_SUBJECTS), "subjects": GROW_SUBJECTS}
    seen = set()
    for s, line, argv in model_mm:
        if s in seen:
            continue
        seen.add(s)
        case_no = int(line.split("case=")[1].split()[0])
        hist = vlib.extract_case(argv, driver, case_no)
        ctx.violation("%s: relocated run differs from the extracted Coq model: %s" % (NAMES.get(s, s), line[:300]),
                      {"history": hist[:60], "harness_cmd": " ".join(argv), "how_to_rerun": " ".join(argv) + " | " + driver})
    samples = []
    for s, mode, argv, model, rc, out, rep, wall in results:
        if s == "slotmap" and mode == "exh" and not samples:
            c = vlib.extract_case(argv, driver, 300)
            if c:
                samples.append({"job": " ".join(argv[1:8]), "relocated_case": c[:14]})
    ctx.cov["samples"] = samples


def run(ctx):
    tab = part_t(ctx)
    ctx.log("translator + table diff done")
    proof_ok = vlib.proof_stage(ctx)
    ctx.log("proof stage done: ok=%s" % proof_ok)
    if tab is not None:
        report_table(ctx, tab, proof_ok)
    elif not proof_ok:
        ctx.violation("proof obligation no longer checks: %s" % ctx.broken, {"broken": ctx.broken}, no_input=True)
    part_g3(ctx, tab)
    ctx.log("relocation runs done")
    ctx.assumptions = [
        "the theorems are about the Gallina definitions of coq/model/RelPtr.v (pointer arithmetic over Z and modulo 2^64; a word-addressed memory image of the ring queue) "
        "and about the generated table coq/gen/ShmTypes.v; they do not mention the Rust code",
        "part T: the translator harness/xlate-shm (syn) is trusted for what it extracts; cross-checks: every type the harness relocates must be a table row, "
        "the table is regenerated and diffed on every run; pi_free is a TYPE-level check: an address stored in an integer field (cal PoolAllocator::base_address: usize, "
        "BumpAllocator start as usize arithmetic) is invisible to it; generic parameters are symbolic (trusted to be ZeroCopySend where the impl bounds them, or for derived types by the derive macro's per-field check)",
        "part G3 is a correspondence / metamorphic test, not a proof: generated histories only (see coverage.rule); one process, relocation by memcpy "
        "(a second process mapping the same segment is simulated, not exercised); the structures are driven sequentially (concurrent behaviour is C03/C09/C10's)",
        "index sets, bit set, container, used-chunk list and the shm allocators have no sequential extracted model: relocated == unrelocated only",
        "extraction: ExtrOcamlBasic only; OCaml driver of C16 reused unchanged",
    ]


if __name__ == "__main__":
    sys.exit(vlib.main(run, "C14"))
