#!/usr/bin/env python3
"""C11 -- request-response: responses reach exactly the request they answer."""
import os, re, sys
sys.path.insert(0, os.path.dirname(os.path.dirname(os.path.abspath(__file__))))
import vlib
from vlib import VERIF

# cfg = ma.ml.rb.mb.mlr.ms.mc.ovq.ovr.faf.pre (see harness/g3/c11/src/main.rs)
# minimised histories of the defects this check found; they run first on every check
WITNESSES = [
    ("routing: a stale ActiveRequest answers into the connection of a NEW client that took over the slot index",
     "local", "1.1.1.1.1.1.1.0.0.0.0", "c0+s0", ["q_0", "sr_0", "pd_0", "cd_0", "cc_0", "q_0", "as_0", "pr_0"]),
    ("routing (ipc, max_clients=2)",
     "ipc", "1.1.1.1.1.1.2.0.0.0.0", "c0+s0", ["q_0", "sr_0", "pd_0", "cd_0", "cc_0", "q_0", "as_0", "pr_0"]),
    ("stale response queued in a reused channel is discarded by the request-id filter",
     "ipc", "1.1.1.1.1.1.1.0.0.0.0", "c0+s0", ["q_0", "sr_0", "as_0", "pd_0", "qd_0", "qd_0", "q_0", "as_0", "pr_0", "pr_0"]),
    ("a stale ActiveRequest dropped after the request that inherited its channel set the disconnect hint: both ends of the live request stay connected",
     "local", "2.1.1.1.1.1.1.1.0.0.0", "c0+s0", ["q_0", "sr_0", "pd_0", "qd_0", "qd_0", "qd_0", "qd_0", "q_0", "sr_0", "ph_0", "ad_0", "as_0", "pr_0"]),
    ("sibling polls first: two requests in flight, the server answers request a, drops both active requests and itself; "
     "pending_b.receive() (none) must not release the expired connection that still holds a's response (fixed: 9915d96)",
     "local", "2.1.1.1.1.1.1.0.0.0.0", "c0+s0", ["q_0", "q_0", "sr_0", "sr_0", "as_0", "ad_0", "ad_0", "sd_0", "pr_1", "pr_0"]),
    ("sibling polls first (ipc; both answered, b received and released, then b polls again, then a)",
     "ipc", "2.1.1.1.1.1.1.0.0.0.0", "c0+s0", ["q_0", "q_0", "sr_0", "sr_0", "as_0", "as_1", "ad_0", "ad_0", "sd_0", "pr_1", "rx_0", "pr_1", "pr_0"]),
    ("a server polls inside the client's backpressure handler while the delivery to the other server stalls: the request is received, connected (fire-and-forget off)",
     "local", "1.1.1.1.1.2.1.0.0.0.0", "c0+s0+s1", ["q_0", "sr_0", "ad_0", "pd_0", "qh_0_0", "q_0", "sr_1", "ad_0", "pd_0", "qh_0_1"]),
    ("the same with fire-and-forget on, other delivery role",
     "local", "1.1.1.1.1.2.1.0.0.1.0", "c0+s0+s1", ["q_0", "sr_1", "ad_0", "pd_0", "qh_0_1", "qh_0_0"]),
    ("client loan fails with OutOfMemory inside all limits (no request overflow)",
     "local", "1.1.1.1.1.1.1.0.0.0.0", "c0+s0", ["q_0", "sr_0", "pd_0", "qd_0", "q_0", "l_0"]),
    ("server loan fails with OutOfMemory inside all limits; the failed loan gives the per-request loan counter back (fixed: 99179a3)",
     "local", "1.1.2.1.1.2.1.0.0.0.0", "c0+s0",
     ["q_0", "sr_0", "as_0", "as_0", "pd_0", "ad_0"] * 4 + ["q_0", "sr_0", "as_0", "al_0", "pr_0", "pr_0", "al_0"]),
]


# Known classes that show on a fixed witness history rather than through the routing oracle:
# key -> (what is demanded, harness argv after the executable, regex on the harness output that shows the defect)
CYCLE = ["q_0", "sr_0", "as_0", "as_0", "pd_0", "ad_0"]
LIMIT_PROBES = {
    "limits:server-loan-oom-stale-responses-pin-chunks": (
        "a server must be able to loan a response while all limits are respected: with max_servers=2 (one server), rb=2, four request "
        "cycles with two unread responses each, the fifth request's send_copy fails with OutOfMemory (unread responses stay queued in "
        "closed channels; the segment is sized for 2*max_active channels, a connection has max_servers*2*max_active+max_loaned)",
        ["hist", "local", "1.1.2.1.1.2.1.0.0.0.0", "c0+s0"] + CYCLE * 4 + ["q_0", "sr_0", "as_0"],
        r"O as 0 = e:oom"),
    "limits:client-loan-oom-without-request-overflow": (
        "a client must be able to loan a request while all limits are respected: without request overflow the chunk pinned by a live "
        "PendingResponse whose request no server accepted is not counted by required_amount_of_chunks_per_client_data_segment; "
        "loan_uninit fails with OutOfMemory with 0 loans outstanding",
        ["hist", "local", "1.1.1.1.1.1.1.0.0.0.0", "c0+s0", "q_0", "sr_0", "pd_0", "qd_0", "q_0", "l_0"],
        r"O l 0 = e:oom"),
}
# regressions of repaired defects: the history MUST match the regex
REQUIRED_PROBES = {
    "fix 9915d96 (an expired connection with data on a sibling channel is not released)": (
        ["hist", "local", "2.1.1.1.1.1.1.0.0.0.0", "c0+s0", "q_0", "q_0", "sr_0", "sr_0", "as_0", "ad_0", "ad_0", "sd_0", "pr_1", "pr_0"],
        r"O pr 1 = n .*\nO pr 0 = r0\.0\.0 "),
}
# regressions of repaired defects: the history must NOT match the regex any more
REGRESSION_PROBES = {
    "fix 99179a3 (failed response loan gives the loan counter back)": (
        ["hist", "local", "1.1.2.1.1.2.1.0.0.0.0", "c0+s0"] + CYCLE * 4 + ["q_0", "sr_0", "as_0", "al_0"],
        r"O al 0 = e:maxloans"),
}


def classify(line):
    """Stable key of a property violation (kind=spec mismatch)."""
    m = re.search(r"what=(\w+)", line)
    what = m.group(1) if m else "?"
    if what in ("routing_newclient", "disconnect_newclient", "disconnect_spurious_newclient"):
        # all are faces of the same defect: ActiveRequest addresses its client by slot index (a response reaches the new
        # client, the stale ActiveRequest reports connected again, its drop closes the new client's channel); the (agreeing) model
        # says the ActiveRequest's connection slot now belongs to ANOTHER client than the one that sent the request
        return "routing:stale-active-request-reaches-new-client"
    if what in ("routing", "disconnect"):
        return None
    if what == "order":
        return "routing:order"
    if what == "panic":
        return "panic"
    return what


def cleanup():
    try:
        names = os.listdir("/dev/shm")
    except OSError:
        return
    for n in names:
        m = re.match(r"^(?:verif-c11-|c11_)(\d+)", n)
        if not m:
            continue
        try:   # a live process with that pid that is not the harness does not own these files
            if open("/proc/%s/comm" % m.group(1)).read().strip() == "c11":
                continue
        except OSError:
            pass
        vlib.sh(["rm", "-rf", os.path.join("/dev/shm", n)])


def index_reuse(hist):
    """True iff the history creates a client after a client was dropped (the class of the known defect)."""
    dropped = False
    for l in hist:
        t = l.split()
        if len(t) > 2 and t[0] in ("O", "U"):
            if t[1] == "cd" and "= ok" in l:
                dropped = True
            if t[1] == "cc" and "= ok" in l and dropped:
                return True
    return False


def run(ctx):
    proof_ok = vlib.proof_stage(ctx)
    ok, out = vlib.ocaml_driver("C11")
    if not ok:
        ctx.violation("extracted model / OCaml driver does not build", {"log": out}, no_input=True)
        return
    ok, out, tdir = vlib.cargo_build("g3", bins=["c11"])
    if not ok:
        ctx.violation("harness does not build against /repo", {"log": out}, no_input=True)
        return
    exe = os.path.join(tdir, "c11")
    driver = os.path.join(VERIF, "ocaml", "c11", "driver")
    th = ctx.thorough()
    seed = str(ctx.seed)
    if getattr(ctx, "replay", None):
        import json
        body = json.load(open(ctx.replay))
        cmd = body.get("harness_cmd") or body.get("how_to_rerun", "").split(" | ")[0]
        if not cmd:
            ctx.violation("replay file names no harness command", {"replay": ctx.replay}, no_input=True)
            return
        r = vlib.run_pipelines([("replay", cmd.split())], driver)
        cleanup()
        ctx.cov.update({"evaluations": r["cases"], "ops_executed": r["ops"], "rule": "replay of " + ctx.replay})
        for lbl, c, line in r["mismatch_lines"][:5]:
            ctx.violation("replay still fails: " + line[:300], {"harness_cmd": c, "mismatch": line[:600]},
                          key=classify(line) if "kind=spec" in line else None)
        if not r["mismatch_lines"] and not r["failed_jobs"]:
            ctx.log("replay passes: no mismatch in", r["cases"], "cases")
        for lbl, c, rc, tail in r["failed_jobs"]:
            ctx.violation("replay job failed: " + lbl, {"cmd": c, "rc": rc, "tail": tail}, no_input=True)
        return

    jobs = []
    for what, variant, cfg, setup, ops in WITNESSES:
        jobs.append(("witness:" + what, [exe, "hist", variant, cfg, setup] + ops))

    def exh(variant, cfg, setup, prologue, alpha, length, nsh):
        for i in range(nsh):
            jobs.append(("exh:%s:%s:%s:%s:%s:%d:%d" % (variant, cfg, setup, prologue, alpha, length, i),
                         [exe, "exh", variant, cfg, setup, prologue, alpha, str(length), str(i), str(nsh), seed]))

    def rnd(variant, cfg, setup, alpha, maxlen, nsh, ncases):
        for i in range(nsh):
            jobs.append(("rnd:%s:%s:%s:%s:%d:%d" % (variant, cfg, setup, alpha, maxlen, i),
                         [exe, "rnd", variant, cfg, setup, "-", alpha, str(maxlen), str(i), str(nsh), seed, str(ncases)]))

    L = 5 if th else 4          # local::Service: ~3000 histories/s/core
    LI = 4 if th else 3         # ipc::Service: port creation costs ~4 ms per history
    nsh = 16 if th else 2
    # one client x one server: life cycle, every drop order; limits 1 and 2; overflow / fire-and-forget on and off
    exh("local", "1.1.1.1.1.1.1.0.0.0.0", "c0+s0", "-", "core", L + 1, 8 if not th else 16)
    exh("ipc", "1.1.1.1.1.1.1.0.0.0.0", "c0+s0", "-", "core", LI, nsh)
    exh("local", "2.1.1.1.1.1.1.1.1.1.0", "c0+s0", "-", "core", L, nsh)
    exh("local", "2.2.2.2.2.1.1.0.1.0.0", "c0+s0", "-", "core", L, nsh)
    exh("local", "1.1.1.2.1.1.1.1.0.1.0", "c0+s0", "-", "core", L, nsh)
    # channel reuse: preallocation override 1..2 (the channel is reused at once), and the real channel count behind
    # a prologue that leaves a response queued in channel 0 and brings channel 0 back to the front
    exh("local", "1.1.2.2.2.1.1.0.0.0.2", "c0+s0", "-", "reuse", L + 1 if th else L, 8 if not th else 16)
    exh("local", "1.1.1.1.1.1.1.0.1.1.2", "c0+s0", "-", "reuse", L, nsh)
    exh("ipc", "2.1.2.1.2.1.1.0.0.0.1", "c0+s0", "-", "reuse", LI, nsh)
    exh("local", "1.1.2.1.2.1.1.0.0.0.0", "c0+s0", "q_0+sr_0+as_0+pd_0+qd_0+qd_0", "reuse", L, nsh)
    exh("local", "1.1.2.1.2.1.1.1.1.1.0", "c0+s0", "q_0+sr_0+as_0+as_0+pd_0+qd_0+qd_0", "reuse", L, nsh)
    exh("ipc", "1.1.1.1.1.1.1.0.0.0.0", "c0+s0", "q_0+sr_0+as_0+pd_0+qd_0+qd_0", "core", LI, nsh)
    # disconnect hint vs a stale ActiveRequest kept alive across a full cycle of the channel-id pool (pool =
    # max_servers*2*max_active+max_loaned = 5 / 6 / 9): request B inherits A's channel, then every order of
    # set_disconnect_hint / drops / sends
    exh("local", "2.1.1.1.1.1.1.1.0.0.0", "c0+s0", "q_0+sr_0+pd_0+qd_0+qd_0+qd_0+qd_0+q_0+sr_0", "hint", L, nsh)
    exh("local", "2.2.2.1.1.1.1.1.1.0.0", "c0+s0", "q_0+sr_0+pd_0+qd_0+qd_0+qd_0+qd_0+qd_0+q_0+sr_0", "hint", LI, nsh)
    exh("local", "2.1.1.1.1.2.1.1.0.1.0", "c0+s0", "q_0+sr_0+pd_0+" + "qd_0+" * 8 + "q_0+sr_0", "hint", LI, nsh)
    exh("ipc", "2.1.1.1.1.1.1.1.0.0.0", "c0+s0", "q_0+sr_0+pd_0+qd_0+qd_0+qd_0+qd_0+q_0+sr_0", "hint", LI, nsh)
    # expired connections with several channels: two requests in flight, responses queued, the server goes away,
    # every polling order of the two pending responses
    exh("local", "2.1.1.1.1.1.1.0.0.0.0", "c0+s0", "q_0+q_0+sr_0+sr_0+as_0+as_1", "sib", L + 1, nsh)
    exh("ipc", "2.1.2.1.2.1.1.0.1.0.0", "c0+s0", "q_0+q_0+sr_0+sr_0+as_0+as_1+as_0", "sib", LI, nsh)
    # backpressure handler scripts: while the delivery of a request to one server stalls (request buffer 1 or 2 full, no
    # overflow) the client's handler lets a server poll (has_requests, receive): the request already delivered to the
    # other server must come out as a connected ActiveRequest; both delivery orders, fire-and-forget off and on
    exh("local", "1.1.1.1.1.2.1.0.0.0.0", "c0+s0+s1", "-", "bph", L + 1 if th else L, nsh)
    exh("local", "1.1.1.1.1.2.1.0.0.1.0", "c0+s0+s1", "-", "bph", L + 1 if th else L, nsh)
    exh("local", "2.1.1.1.1.2.1.0.0.0.0", "c0+s0+s1", "q_0+sr_0+ad_0+pd_0", "bph", L, nsh)
    exh("local", "2.1.1.1.1.2.1.0.0.1.0", "c0+s0+s1", "q_0+sr_1+ad_0+pd_0", "bph", L, nsh)
    exh("ipc", "1.1.1.1.1.2.1.0.0.0.0", "c0+s0+s1", "q_0+sr_0+ad_0+pd_0", "bph", LI, nsh)
    # loans on both sides
    exh("local", "2.2.1.1.2.1.1.0.0.0.0", "c0+s0", "-", "loan", LI, nsh)
    exh("local", "1.1.1.1.1.1.1.1.0.0.0", "c0+s0", "-", "loan", LI, nsh)
    # port life cycle, two clients, two servers
    exh("local", "1.1.1.1.1.1.2.0.0.0.0", "c0+s0", "-", "ports", L + 1 if th else L, 8 if not th else 16)
    exh("ipc", "1.1.1.1.1.1.1.0.0.1.0", "c0+s0", "-", "ports", LI, nsh)
    exh("local", "1.1.1.1.1.2.2.0.0.1.0", "c0+c1+s0", "-", "c2", L, nsh)
    exh("local", "2.1.1.1.1.1.2.1.0.0.0", "c0+c1+s0", "-", "c2", L, nsh)
    exh("local", "1.1.1.1.1.2.1.0.0.0.0", "c0+s0+s1", "-", "s2", L, nsh)
    exh("ipc", "2.1.2.1.1.2.1.0.1.1.0", "c0+s0+s1", "-", "s2", LI, nsh)
    # long random histories biased to channel reuse, everything at once
    nr = 400 if th else 40
    for cfg in ("2.1.2.1.2.2.2.1.0.1.0", "1.1.1.1.1.2.2.0.0.0.0", "2.2.2.2.2.2.2.0.1.0.0", "1.1.2.1.1.1.2.1.1.1.2"):
        rnd("local", cfg, "c0+s0", "full", 300, 4, nr)
        rnd("ipc", cfg, "c0+c1+s0+s1", "full", 300, 2, nr)

    r = vlib.run_pipelines(jobs, driver)
    cleanup()

    # probe: clients that vanish with an undelivered request (server expired-connection buffer = 2)
    probes = {}
    for name, argv in (("churn", [exe, "churn", "local", "6"]), ("churn_faf", [exe, "churn", "local", "6", "1"])):
        rc, out = vlib.sh(" ".join(argv) + " 2>/dev/null", timeout=300)
        line = [l for l in out.split("\n") if l.startswith("PROBE")]
        probes[name] = line[0] if (rc == 0 and line) else "FAILED rc=%s %s" % (rc, out[-300:])
    cleanup()
    ctx.cov["probes"] = probes
    # regression of fix: 4ac3642 (Server::receive releases the request of a vanished client): no panic when the
    # expired-connection buffer (2) has seen 6 vanished clients and then a client vanishes whose request is held
    for name in ("churn", "churn_faf"):
        if not probes[name].startswith("PROBE") or "P" in probes[name].split("receive=")[1]:
            ctx.violation("server panics / probe fails after clients vanished with undelivered requests: " + probes[name][:300],
                          {"probe": probes[name], "how_to_rerun": exe + " churn local 6" + (" 1" if name.endswith("faf") else ""),
                           "expected": "receive=n,... (a<i>,... with fire-and-forget) then_held_request_client_vanishes=n"})
    limit_probes = {}
    for key, (what, argv, rx) in LIMIT_PROBES.items():
        rc, out = vlib.sh(" ".join([exe] + argv) + " 2>/dev/null", timeout=300)
        hit = re.search(rx, out) is not None
        limit_probes[key] = "reproduces" if hit else "does not reproduce (rc=%s)" % rc
        if hit:
            ctx.violation(what, {"history": [l[:200] for l in out.split("\n") if l[:2] in ("C ", "U ", "O ")][-40:],
                                 "how_to_rerun": " ".join([exe] + argv)}, key=key)
    for name, (argv, rx) in REGRESSION_PROBES.items():
        rc, out = vlib.sh(" ".join([exe] + argv) + " 2>/dev/null", timeout=300)
        bad = rc != 0 or re.search(rx, out) is not None
        limit_probes[name] = "REGRESSED" if bad else "passes"
        if bad:
            ctx.violation("regression of " + name, {"history": [l[:200] for l in out.split("\n") if l[:2] in ("C ", "U ", "O ")][-40:],
                                                    "how_to_rerun": " ".join([exe] + argv)})
    for name, (argv, rx) in REQUIRED_PROBES.items():
        rc, out = vlib.sh(" ".join([exe] + argv) + " 2>/dev/null", timeout=300)
        bad = rc != 0 or re.search(rx, out) is None
        limit_probes[name] = "REGRESSED" if bad else "passes"
        if bad:
            ctx.violation("regression of " + name + ": a response delivered before the server went away is lost when a sibling PendingResponse polls first",
                          {"history": [l[:200] for l in out.split("\n") if l[:2] in ("C ", "U ", "O ")][-40:],
                           "expected": "pr 1 = n, then pr 0 = r0.0.0", "how_to_rerun": " ".join([exe] + argv)})
    cleanup()
    ctx.cov["limit_probes"] = limit_probes

    ctx.cov.update({
        "evaluations": r["cases"], "distinct_nontrivial": r["distinct_nontrivial"],
        "traces_validated_against_impl": r["cases"], "ops_executed": r["ops"],
        "op_distribution": r["opcount"], "outcome_distribution": r["extra"],
        "rule": "every history is executed on the real Client / Server / PendingResponse / ActiveRequest / Response / "
                "RequestMut / ResponseMut API (local::Service and ipc::Service, BackpressureStrategy::DiscardData) and replayed on "
                "the extracted model; compared per operation: the result (recipient count, error enum, response payload = "
                "(request number, server slot, sequence), request id and channel id of every ActiveRequest taken from its Debug "
                "output, channel id of every loan) and, after EVERY operation, is_connected + has_response of every live "
                "PendingResponse and is_connected + has_disconnect_hint of every live ActiveRequest. The oracle of the property "
                "(extracted o_recv / o_act_connected) runs on the implementation's observations for the whole case: routing, "
                "per-(pending, server) order, at most once, no response after channel reuse, an ActiveRequest is connected only "
                "while its PendingResponse lives, at most max_servers recipients, a request handed out at most once per server, "
                "no panic; the hypothesis of c11_routing_under_send_ok (extracted step_send_okb) is evaluated on every step and "
                "must hold in every history outside the known class (no client created after a client drop). exhaustive: all operation sequences of length %d..%d (ipc: %d) over 10-14 "
                "operation alphabets (core, loan, ports, c2, s2, reuse, hint, sib, bph = sends with a scripted client backpressure handler that lets a server poll inside the handler), limits 1..2, overflow and fire-and-forget on/off, "
                "preallocation override 1..2 and prologues that force channel reuse; random: seeded histories up to 300 "
                "operations over the full 39-operation alphabet (2 client slots x 2 server slots), 22%% channel-reuse patterns. "
                "distinct = distinct (configuration, history) ignoring the service variant; non-trivial = at least one response "
                "was received." % (L, L + 1, LI),
        "exhaustive": False,
    })
    samples = []
    for lbl, argv in jobs[:1] + jobs[-1:]:
        c = vlib.extract_case(argv, driver, 1)
        if c:
            samples.append({"job": lbl, "case": c[:14]})
    ctx.cov["samples"] = samples
    for lbl, cmd, rc, tail in r["failed_jobs"]:
        ctx.violation("correspondence job failed (harness or driver crashed): " + lbl, {"cmd": cmd, "rc": rc, "tail": tail}, no_input=True)
    spec_mm = [m for m in r["mismatch_lines"] if "kind=spec" in m[2]]
    model_mm = [m for m in r["mismatch_lines"] if "kind=model" in m[2]]
    reported = set()
    for lbl, cmd, line in spec_mm:
        key = classify(line)
        sig = key or re.search(r"what=(\w+)", line).group(1)
        ctx.cov.setdefault("spec_mismatch_signatures", {})
        ctx.cov["spec_mismatch_signatures"][sig] = ctx.cov["spec_mismatch_signatures"].get(sig, 0) + 1
        if sig in reported:
            continue
        reported.add(sig)
        case_no = int(line.split("case=")[1].split()[0])
        hist = vlib.extract_case(cmd.split(), driver, case_no)
        if key == "routing:stale-active-request-reaches-new-client" and not index_reuse(hist):
            key = None     # the known class needs a client created after a client was dropped
        op_no = int(line.split("op=")[1].split()[0])
        ctx.violation("request-response ports differ from the reference specification: " + line[:300],
                      {"history": [h[:200] for h in hist[:op_no + 2]], "harness_cmd": cmd, "mismatch": line[:600],
                       "how_to_rerun": cmd + " | " + driver}, key=key)
        if len(ctx.violations) >= 5:
            break
    KNOWN = "routing:stale-active-request-reaches-new-client"
    if model_mm and not [m for m in spec_mm if classify(m[2]) != KNOWN]:
        # SEARCH phase: the tie broke but the oracle saw no (new) violation.  Re-run the harness around the diverging
        # configurations: saturating / draining random histories with other seeds over the full alphabet, and the
        # core / reuse alphabets one operation longer, oracle only.
        cfgs = []
        for lbl, cmd, line in model_mm:
            a = cmd.split()
            if len(a) > 3 and (a[2], a[3]) not in cfgs:
                cfgs.append((a[2], a[3]))
        sjobs = []
        for variant, cfg in cfgs[:2]:
            for i in range(2):
                sjobs.append(("search:rnd:%s:%s:%d" % (variant, cfg, i),
                              [exe, "rnd", "local", cfg, "c0+c1+s0+s1", "-", "full", "300", str(i), "2", str(ctx.seed + 7919), "60"]))
            for alpha in ("core", "reuse", "hint"):
                for i in range(2):
                    sjobs.append(("search:exh:%s:%s:%d" % (cfg, alpha, i), [exe, "exh", "local", cfg, "c0+s0", "-", alpha, str(L), str(i), "2", seed]))
        sr = vlib.run_pipelines(sjobs, driver, timeout=60)   # bounded: the quick check stays short when the tie breaks
        cleanup()
        ctx.cov["search_phase"] = {"jobs": len(sjobs), "cases": sr["cases"], "spec_mismatches": sr["mismatches_spec"]}
        found = [m for m in sr["mismatch_lines"] if "kind=spec" in m[2] and classify(m[2]) != KNOWN]
        for lbl, cmd, line in found[:1]:
            case_no = int(line.split("case=")[1].split()[0])
            hist = vlib.extract_case(cmd.split(), driver, case_no)
            op_no = int(line.split("op=")[1].split()[0])
            ctx.violation("search after a broken correspondence found a history that violates the property: " + line[:300],
                          {"history": [h[:200] for h in hist[:op_no + 2]], "harness_cmd": cmd, "mismatch": line[:600],
                           "how_to_rerun": cmd + " | " + driver})
    if model_mm:
        lbl, cmd, line = model_mm[0]
        case_no = int(line.split("case=")[1].split()[0])
        hist = vlib.extract_case(cmd.split(), driver, case_no)
        ctx.violation("correspondence model<->implementation broken (no polling order makes the concrete model agree): " + line[:300],
                      {"obligation": "G3 correspondence of model/ReqRes.v with iceoryx2/src/port/{client,server}.rs", "history": [h[:200] for h in hist[:60]],
                       "harness_cmd": cmd, "mismatches": len(model_mm)}, no_input=not [v for v in ctx.violations if not v.get("no_input")])
    if not proof_ok and not ctx.violations:
        ctx.violation("proof obligation no longer checks: %s" % ctx.broken,
                      {"broken": ctx.broken, "searched": "all histories above agree with the reference specification"}, no_input=True)
    ctx.cov["spec_mismatches"] = r["mismatches_spec"]
    ctx.cov["model_mismatches"] = r["mismatches_model"]
    ctx.assumptions = [
        "theorems are about the Gallina model coq/model/ReqRes.v; tie = observational correspondence (G3) on the histories listed in coverage",
        "sequential histories: one API call at a time (no concurrent client/server threads); CAS-based channel-state accessors are modelled as atomic steps",
        "the order in which a port polls its connections (slot-map key order, to-be-removed list order) is a parameter of the model; theorems hold for every order; the driver keeps every model state consistent with the observations",
        "both ports use BackpressureStrategy::DiscardData (a blocking send into a full buffer cannot return in a sequential history); backpressure/degradation handlers, dynamic (slice) payloads, flatbuffers and the slice-typed Server::receive are not covered",
        "chunks are identified with the messages they carry: only the NUMBER of chunks in use is modelled (LoanError::OutOfMemory), not addresses; completion-queue capacity and the expired-connection buffer (set to 32 by the harness instead of the default 128: the per-port slot map of that many connection records dominates the run time) are assumed sufficient",
        "extraction: ExtrOcamlBasic only; OCaml driver parses/prints and enumerates polling orders",
    ]


if __name__ == "__main__":
    sys.exit(vlib.main(run, "C11"))
