"""C02, clause 'the same statement for request and response payloads': the request-response ports
share Sender / SegmentState / used-chunk list with publish-subscribe, but only they use more than
one channel per connection.  This stage runs the C11 harness (real client/server/active request/
pending response ports, local and ipc) on seeded random histories with two clients x two servers
and reports what concerns chunk lifetime: a panic in a public call ('allocated chunk is already in
use' is what a doubly released / re-loaned chunk ends in), a loan that fails with OutOfMemory inside
the limits outside the recorded C11 provisioning findings, and a failure of the reference-count
conservation evaluated by the C11 driver on the model.  Histories, model and driver are C11's."""
import os, re
import vlib
from vlib import VERIF


def run_reqres(ctx):
    ok, out = vlib.ocaml_driver("C11")
    if not ok:
        ctx.violation("request/response stage: extracted C11 model / driver does not build", {"log": out}, no_input=True)
        return
    ok, out, tdir = vlib.cargo_build("g3", bins=["c11"])
    if not ok:
        ctx.violation("request/response stage: c11 harness does not build against /repo", {"log": out}, no_input=True)
        return
    exe = os.path.join(tdir, "c11")
    driver = os.path.join(VERIF, "ocaml", "c11", "driver")
    th = ctx.thorough()
    seed = str(ctx.seed)
    n = 8
    per = 400 if th else 60
    jobs = []
    for variant, cfg in (("local", "2.1.2.1.2.2.2.1.0.1.0"), ("local", "2.2.2.2.2.2.2.0.1.0.0"), ("ipc", "2.1.2.1.2.2.2.1.0.1.0")):
        for i in range(n if variant == "local" else 4):
            jobs.append(("rr:%s:%s:%d" % (variant, cfg, i),
                         [exe, "rnd", variant, cfg, "c0+c1+s0+s1", "-", "full", "120", str(i), str(n if variant == "local" else 4), seed, str(per)]))
    r = vlib.run_pipelines(jobs, driver, timeout=900)
    vlib.sh("rm -rf /dev/shm/c11_* 2>/dev/null; true")
    lifetime = [m for m in r["mismatch_lines"] if re.search(r"what=(panic|conservation)\b", m[2])]
    ctx.cov["request_response_payloads"] = {
        "rule": "C11 harness, random histories (<= 120 ops) of two clients x two servers with max_active_requests 2 (several response channels per "
                "connection), local and ipc; reported here: a panic in a public call, a reference-count conservation failure on the followed model",
        "histories": r["cases"], "ops": r["ops"], "lifetime_mismatches": len(lifetime)}
    for lbl, cmd, rc, tail in r["failed_jobs"][:2]:
        ctx.violation("request/response stage: job failed (harness or driver crashed): " + lbl, {"cmd": cmd, "rc": rc, "tail": tail[-600:]}, no_input=True)
    seen = set()
    for lbl, cmd, line in lifetime:
        what = re.search(r"what=(\w+)", line).group(1)
        if what in seen:
            continue
        seen.add(what)
        case_no = int(line.split("case=")[1].split()[0])
        hist = vlib.extract_case(cmd.split(), driver, case_no, timeout=600)
        ctx.violation("request/response payload lifetime: " + line[:300],
                      {"history": hist[:300], "harness_cmd": cmd, "mismatch": line[:800], "how_to_rerun": "%s | %s" % (cmd, driver)})
