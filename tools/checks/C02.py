#!/usr/bin/env python3
"""C02 -- Zero-copy sample lifetime: no reuse while referenced, no leak after.  Thin entry point: everything is in pubsub_common.py (one model, one harness run
shared by C01, C02 and C08 through /verif/build/pubsub-cache)."""
import os, sys
sys.path.insert(0, os.path.dirname(os.path.abspath(__file__)))
sys.path.insert(0, os.path.dirname(os.path.dirname(os.path.abspath(__file__))))
import vlib
import pubsub_common

if __name__ == "__main__":
    sys.exit(vlib.main(pubsub_common.run, "C02"))
