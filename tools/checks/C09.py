#!/usr/bin/env python3
"""C09 -- concurrent index allocation is exclusive, bounded and leak-free."""
import os, sys
sys.path.insert(0, os.path.dirname(os.path.dirname(os.path.abspath(__file__))))
import vlib
from vlib import VERIF

KINDS = ["uis", "pool", "ruis"]
WRAP_KEY = "uis:aba-tag-wrap-16bit"


def run(ctx):
    proof_ok = vlib.proof_stage(ctx)
    ok, out = vlib.ocaml_driver("C09")
    if not ok:
        ctx.violation("extracted model / OCaml driver does not build", {"log": out}, no_input=True)
        return
    ok, out, tdir = vlib.g1_build(["c09"])
    if not ok:
        ctx.violation("G1 harness does not build against /repo with the instrumented atomics drop-in", {"log": out[-3000:]}, no_input=True)
        return
    exe = os.path.join(tdir, "c09")
    driver = os.path.join(VERIF, "ocaml", "c09", "driver")
    bound = 3 if ctx.thorough() else 2
    maxexecs = 6000 if ctx.thorough() else 400
    nsh = 16
    jobs = []
    for k in KINDS:
        for i in range(nsh):
            jobs.append(("exh:%s:%d" % (k, i), [exe, "exh", k, str(bound), str(i), str(nsh), str(ctx.seed), str(maxexecs)]))
        nr = 24000 if ctx.thorough() else 1600
        for i in range(nsh):
            jobs.append(("rnd:%s:%d" % (k, i), [exe, "rnd", k, str(nr), str(i), str(nsh), str(ctx.seed)]))
    # weak-memory correspondence: the real UniqueIndexSet run with injected C11-permitted stale head words
    # against the release/acquire view model (kind label uis: same access sites as the step model)
    nra = 32000 if ctx.thorough() else 3200
    for i in range(nsh):
        jobs.append(("ras:uis:%d" % i, [exe, "ras", "uis", str(nra), str(i), str(nsh), str(ctx.seed), "50"]))
    if ctx.thorough():
        # the 2^16-update witness with every access gated: 327698 accesses compared with the model
        jobs.append(("wrap:gated", [exe, "wrap", "1"]))
    r = vlib.run_pipelines(jobs, driver)
    ctx.cov.update({
        "evaluations": r["cases"], "distinct_nontrivial": r["distinct_nontrivial"],
        "traces_validated_against_impl": r["cases"], "accesses_compared": r["ops"],
        "rule": "every schedule with <= %d preemptions (at most %d executions per program) of each program template (2..3 threads x <= 3 ops: "
                "acquire / release(Default) / release(LockIfLastIndex) / borrowed_indices / is_locked, robust set also acquire(owner) / recover(owner, mode); "
                "pool: allocate / deallocate) for capacities 1..4, plus seeded random programs (2..3 threads x 2..6 ops) under seeded random schedules; each execution of the "
                "REAL FixedSizeUniqueIndexSet / StaticRobustUniqueIndexSet / bb-memory PoolAllocator under the baton scheduler is compared access by access "
                "(location bijection, kind, both orderings, value read/written incl. the packed head word, CAS outcome, return values, final free list / cells) with the Coq "
                "step model run on the same schedule; the Coq invariant (free-list path, partition, borrowed count, tag = updates mod 2^16, per-thread ownership) "
                "is evaluated as a boolean on every model state visited; the property oracle runs on the implementation's own return values. "
                "distinct = distinct event traces; non-trivial = at least one store/successful CAS" % (bound, maxexecs),
        "exhaustive": False,
        "weak_memory_correspondence": {
            "rule": "seeded random programs (2..3 threads x 2..6 ops) and schedules of the REAL FixedSizeUniqueIndexSet in which the value returned by a load or a failed compare-exchange of the head word is "
                    "replaced, with probability 1/2, by an older head word not older than what the thread has seen (sched::stale_enable); the driver lets the view model (UniqueIndexSetRA.v, code ordering table) "
                    "choose its staleness oracle from the observed value and compares every access, return value and the final state; the invariant of the step model is evaluated on every model state and the "
                    "property oracle on the implementation's returns (the Relaxed observers borrowed_indices / is_locked and the OutOfIndices / IsLocked verdicts may refer to an older head word)",
            "executions": nra, "stale_values_injected": r["extra"].get("stale_values_injected", 0),
            "executions_with_stale_value": r["extra"].get("executions_with_stale_value", 0)},
        "spec_oracle": "no index returned Ok while another holder owns it (owner = from acquire's return to release's return; robust: to the start of the release call or of the recover call that took it); "
                       "index < capacity; OutOfIndices only if at some instant of the call all indices were taken (held, or inside a concurrent acquire/release call); "
                       "IsLocked / is_locked only after a LockIfLastIndex release (robust: or recover) that could have locked; no Ok after Locked was returned; Locked only with no other owner; "
                       "release(LockIfLastIndex) = Unlocked only if another index was taken; borrowed_indices within [definitely held, possibly taken]; "
                       "robust: IndexIsNotOwnedByProvidedOwner only after a recover took the index, recover(d) releases only indices held under owner d and misses none held during the whole call; "
                       "quiescent end state: held + still-acquirable indices partition [0, capacity) (pool: as bucket addresses on the bucket grid inside the block), final cells = held (index, owner) pairs",
    })
    smp = vlib.extract_case(jobs[0][1], driver, 5)
    ctx.cov["samples"] = [{"job": jobs[0][0], "execution": smp[:40]}]
    # F12: the 16-bit ABA tag wraps after 2^16 head updates inside one preemption (c09_uis_tag_wrap_refuted replayed on the real code)
    rc, wout = vlib.sh("%s wrap 0" % exe, timeout=300)
    wline = [l for l in wout.split("\n") if l.startswith("WRAP")]
    ctx.cov["tag_wrap_replay"] = wline[:1]
    if rc != 0 or not wline:
        ctx.violation("tag-wrap witness replay failed to run", {"rc": rc, "out": wout[-800:]}, no_input=True)
    elif "double_owner_of_index_2=true" in wline[0]:
        ctx.violation("UniqueIndexSet hands out index 2 to two threads when exactly 2^16 head updates happen between a thread's head load and its CAS "
                      "(16-bit ABA tag wraps; Coq: c09_uis_tag_wrap_refuted / c09_uis_tag_wrap_witness)",
                      {"harness_cmd": "%s wrap 0   (gated, trace-compared variant: %s wrap 1 | %s)" % (exe, exe, driver), "observed": wline[0],
                       "schedule": "capacity 3; thread 1: acquire (0); thread 0: acquire -> load head, load distance, read next[1] (stalls before CAS); "
                                   "thread 1: acquire (1), acquire (2), release 0, release 1, 32766 x (acquire, release); thread 0: CAS succeeds, returns 1; thread 0: acquire returns 2 while thread 1 holds 2"},
                      key=WRAP_KEY)
    # ---- weak memory: the six orderings observed at the head accesses of UniqueIndexSet must be the table the
    # release/acquire theorem (c09_uisra_exclusive_and_used_race_free) is stated for; otherwise search the view model
    UCODE = ["acq", "acqrel", "acq", "acq", "acqrel", "acq"]
    us = r.get("sites", {}).get("uis", {})
    def col(site, idx):
        return sorted({v[idx] for v in us.get(site, ())})
    ucols = [col("10", 1), col("12", 1), col("12", 2), col("20", 1), col("22", 1), col("22", 2)]
    ctx.cov["observed_ordering_table_uis"] = ucols
    ctx.ra_witness = []
    if us:
        if any(len(c_) != 1 for c_ in ucols):
            ctx.violation("memory-ordering table of UniqueIndexSet could not be observed unambiguously", {"observed": ucols}, no_input=True)
        else:
            table = [c_[0] for c_ in ucols]
            if table != UCODE:
                rc, out = vlib.sh("%s uisra %s" % (driver, " ".join(table)), timeout=600)
                wit = [l for l in out.split("\n") if l.startswith("UISRAWITNESS")]
                if wit:
                    ctx.ra_witness.append(wit[0])
                    ctx.violation("UniqueIndexSet: memory orderings %s differ from the proved table %s; under release/acquire semantics the view model has an execution in which the next-cell value USED by a successful compare-exchange was read racily: %s" % (table, UCODE, wit[0]),
                                  {"observed_orderings(acquire:load,cas,cas_fail; release:load,cas,cas_fail)": table, "model_witness": wit[0],
                                   "note": "schedule entries are thread:staleness; replay = run model/UniqueIndexSetRA.v vstep with these orderings on this schedule (coq: used_race_after); not reproducible on x86 hardware, which is why the tests pass",
                                   "how_to_rerun": "%s uisra %s" % (driver, " ".join(table))})
                else:
                    ctx.violation("UniqueIndexSet: memory orderings %s differ from the table of theorem c09_uisra_exclusive_and_used_race_free; no failing execution found in the view model for them" % table,
                                  {"obligation": "c09_uisra_exclusive_and_used_race_free is stated for uis_ords_code only", "observed": table}, no_input=True)
    # known finding uis:speculative-next-read: replay the schedule of c09_uis_no_cell_conflict_refuted on the real set
    spec_cmd = [exe, "one", "uis", "2", "acq|acq", "0,0,1,1,1,1,1,0,1"]
    rc, sout = vlib.sh(" ".join("'%s'" % x for x in spec_cmd) + " 2>/dev/null", timeout=120)
    sev = [l.split() for l in sout.split("\n") if l.startswith("E ")]
    adj = [(a_, b_) for a_, b_ in zip(sev, sev[1:]) if a_[4] == "cell" and b_[4] == "cell" and a_[3] == b_[3] and a_[1] != b_[1]]
    rs = vlib.run_pipelines([("specread:uis:0", ["'%s'" % x for x in spec_cmd])], driver)
    ctx.cov["speculative_read_replay"] = {"adjacent_conflicting_cell_accesses": len(adj), "trace_equal_to_model": not rs["mismatch_lines"] and not rs["failed_jobs"]}
    if adj and not rs["mismatch_lines"] and not rs["failed_jobs"]:
        ctx.violation("UniqueIndexSet: a thread's speculative plain read of next[head] and the new owner's plain write of that cell are adjacent in an execution of the real set (data race on a plain cell; the value read is discarded)",
                      {"harness_cmd": " ".join(spec_cmd), "adjacent_accesses": [(" ".join(a_), " ".join(b_)) for a_, b_ in adj],
                       "theorems": ["c09_uis_no_cell_conflict_refuted"]}, key="uis:speculative-next-read")
    for lbl, cmd, rc, tail in r["failed_jobs"]:
        ctx.violation("correspondence job failed (harness or driver crashed): " + lbl, {"cmd": cmd, "rc": rc, "tail": tail[-600:]}, no_input=True)
    spec_mm = [m for m in r["mismatch_lines"] if "kind=spec" in m[2] and not m[0].startswith("wrap:")]
    model_mm = [m for m in r["mismatch_lines"] if "kind=model" in m[2]]
    wrap_spec = [m for m in r["mismatch_lines"] if "kind=spec" in m[2] and m[0].startswith("wrap:")]
    if ctx.thorough():
        ctx.cov["tag_wrap_gated"] = {"spec_mismatch_reported": bool(wrap_spec), "model_mismatches": len([m for m in model_mm if m[0].startswith("wrap:")])}
    for lbl, cmd, line in spec_mm[:3]:
        case_no = int(line.split("case=")[1].split()[0])
        hist = vlib.extract_case(cmd.split(), driver, case_no)
        msg = line.split("] ", 1)[1] if "] " in line else line
        ctx.violation("index-set property violated by the implementation under a concrete schedule: " + msg[:300],
                      {"execution": hist[:400], "harness_cmd": cmd, "how_to_rerun": "c09 one <kind> <cap> <program> <schedule from the S line> | ocaml/c09/driver"})
    if ctx.ra_witness and model_mm and all("(ordering:" in m[2] for m in model_mm):
        model_mm = []      # ordering-only divergence, already reported with a failing execution of the view model
    if model_mm and not spec_mm:
        # SEARCH: the tie broke but no explored execution violated the property.  Look harder around the
        # diverging program shapes: every diverging (kind, capacity, program) is explored on its own with one more
        # preemption and a much larger execution budget, plus more and different random programs of the diverging
        # kinds; only the property oracle (evaluated on the implementation's own observations) counts here.
        # Bounded: at most 16 programs, a fixed budget per program and a wall-clock limit per job.
        import re, shlex
        kinds = sorted({m[0].split(":")[1] for m in model_mm if m[0].split(":")[0] in ("exh", "rnd")}) or KINDS
        shapes = []
        for m in model_mm:
            h = re.search(r"header=\[(\w+) (\d+) (\S+)", m[2])
            if h and h.group(1) in KINDS and (h.group(1), h.group(2), h.group(3)) not in shapes:
                shapes.append((h.group(1), h.group(2), h.group(3)))
        budget = 40000 if ctx.thorough() else 8000
        sjobs = []
        for n, (k, cap, prog) in enumerate(shapes[:16]):
            sjobs.append(("search-exhp:%s:%d" % (k, n), [exe, "exhp", k, str(bound + 1), cap, shlex.quote(prog), str(budget)]))
        for k in kinds:
            for i in range(nsh):
                sjobs.append(("search-rnd:%s:%d" % (k, i), [exe, "rnd", k, str(2 * nr), str(i), str(nsh), str(ctx.seed + 1)]))
        sr = vlib.run_pipelines(sjobs, driver, timeout=(900 if ctx.thorough() else 150))
        ctx.cov["search_phase"] = {"kinds": kinds, "programs": [" ".join(x) for x in shapes[:16]], "executions": sr["cases"], "spec_mismatches": sr["mismatches_spec"]}
        found = [m for m in sr["mismatch_lines"] if "kind=spec" in m[2]]
        for lbl, cmd, line in found[:2]:
            case_no = int(line.split("case=")[1].split()[0])
            hist = vlib.extract_case(cmd.split(), driver, case_no)
            msg = line.split("] ", 1)[1] if "] " in line else line
            ctx.violation("index-set property violated by the implementation under a concrete schedule (found by the search phase after the trace correspondence broke): " + msg[:300],
                          {"execution": hist[:400], "harness_cmd": cmd, "first_divergence": model_mm[0][2][:600],
                           "how_to_rerun": "c09 one <kind> <cap> <program> <schedule from the S line> | ocaml/c09/driver"})
        spec_mm = found
    if model_mm and not spec_mm:
        lbl, cmd, line = model_mm[0]
        case_no = int(line.split("case=")[1].split()[0])
        hist = vlib.extract_case(cmd.split(), driver, case_no) if not lbl.startswith("wrap:") else []
        ctx.violation("trace correspondence model<->implementation broken (first diverging access below); "
                      "no schedule violating the property found among those explored: " + line[:600],
                      {"obligation": "G1 trace equality between model/UniqueIndexSet.v, model/RobustIndexSet.v (theorems c09_*) and the implementation",
                       "first_divergence": line[:2000], "execution": hist[:400], "harness_cmd": cmd, "other_divergences": [m[2][:300] for m in model_mm[1:6]]}, no_input=True)
    if not proof_ok and not ctx.violations:
        ctx.violation("proof obligation no longer checks: %s" % ctx.broken, {"broken": ctx.broken}, no_input=True)
    ctx.assumptions = [
        "sequentially consistent interleaving at access granularity (weak-memory stale reads of the CAS protocols are not exhibited by the model; the memory ordering of every access site is pinned by the trace comparison; core::sync::atomic::fence is not gated and not modelled)",
        "UniqueIndexSet theorems assume bounded_tag: no pending head-CAS spans >= 2^16 successful head updates (refuted without it: c09_uis_tag_wrap_refuted, replayed on the real code)",
        "robust set: thread-level held-list exclusivity holds for owner ids no recover has taken (c09_ruis_held_exclusive_partial; refuted without that hypothesis: recover on an owner still inside acquire); the thread-level lock clause excludes the 2^64-increment overflow of the generation counter; recover completeness is stated through ghost stamps of the model",
        "loads of the logger's LOG_LEVEL atomic performed by fail! on error paths are dropped from the trace (not part of the algorithms)",
        "tie = trace equality on the explored schedules; the gate (cargo paths override of iceoryx2-pal-concurrency-sync) is generated from /repo's current source",
    ]


if __name__ == "__main__":
    sys.exit(vlib.main(run, "C09"))
