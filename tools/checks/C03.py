#!/usr/bin/env python3
"""C03 -- lock-free SPSC channels are linearizable FIFOs conserving every element."""
import os, sys
sys.path.insert(0, os.path.dirname(os.path.dirname(os.path.abspath(__file__))))
import vlib
from vlib import VERIF

KINDS = ["iq", "sq", "oq"]


def run(ctx):
    proof_ok = vlib.proof_stage(ctx)
    ok, out = vlib.ocaml_driver("C03")
    if not ok:
        ctx.violation("extracted model / OCaml driver does not build", {"log": out}, no_input=True)
        return
    ok, out, tdir = vlib.g1_build(["c03"])
    if not ok:
        ctx.violation("G1 harness does not build against /repo with the instrumented atomics drop-in", {"log": out[-3000:]}, no_input=True)
        return
    exe = os.path.join(tdir, "c03")
    driver = os.path.join(VERIF, "ocaml", "c03", "driver")
    bound = 3 if ctx.thorough() else 2
    nsh = 8
    jobs = []
    for k in KINDS:
        for i in range(nsh):
            jobs.append(("exh:%s:%d" % (k, i), [exe, "exh", k, str(bound), str(i), str(nsh), str(ctx.seed), "200000"]))
        nr = 4000 if ctx.thorough() else 400
        for i in range(nsh):
            jobs.append(("rnd:%s:%d" % (k, i), [exe, "rnd", k, str(nr), str(i), str(nsh), str(ctx.seed)]))
    # weak-memory correspondence: the real overflowing queue run with injected C11-permitted stale values
    # against the release/acquire view model (kind label oq: same access sites as the SC model)
    nra = 24000 if ctx.thorough() else 2400
    for k in KINDS:
        for i in range(nsh):
            jobs.append(("ras:%s:%d" % (k, i), [exe, "ras", k, str(nra), str(i), str(nsh), str(ctx.seed), "50"]))
    r = vlib.run_pipelines(jobs, driver)
    sites = {}
    ctx.cov.update({
        "evaluations": r["cases"], "distinct_nontrivial": r["distinct_nontrivial"],
        "traces_validated_against_impl": r["cases"], "accesses_compared": r["ops"],
        "rule": "every schedule with <= %d preemptions of each producer/consumer program (1..3 pushes x 1..3 pops, capacities 1..3, "
                "plus handle hand-over programs with 2-3 threads), plus seeded random schedules of longer programs; each execution of the REAL "
                "queue under the baton scheduler is compared access by access (location bijection, kind, both orderings, value read/written, "
                "CAS outcome, return values, final content) with the Coq step model run on the same schedule. distinct = distinct event traces; "
                "non-trivial = at least one store/successful CAS" % bound,
        "exhaustive": False,
        "weak_memory_correspondence": {
            "rule": "seeded random schedules of fixed-role programs (1..6 pushes || 1..6 pops, capacities 0..3 resp. 1..3) of the REAL IndexQueue, spsc::Queue and SafelyOverflowingIndexQueue in which the value returned by a load or a failed "
                    "compare-exchange of a cursor is replaced, with probability 1/2, by an older value of that location not older than what the thread has seen (sched::stale_enable); the driver lets the "
                    "view model (SpscQueueRA.v resp. OverflowQueueRA.v, code ordering tables) choose its staleness oracle from the observed value and compares every access, return value and the final content; an "
                    "injection the model's cross-location bounds do not permit discards the execution",
            "executions": 3 * nra, "stale_values_injected": r["extra"].get("stale_values_injected", 0),
            "executions_with_stale_value": r["extra"].get("executions_with_stale_value", 0),
            "discarded_invalid_injection": r["extra"].get("discarded_invalid_injection", 0)},
    })
    smp = vlib.extract_case(jobs[0][1], driver, 5)
    ctx.cov["samples"] = [{"job": jobs[0][0], "execution": smp[:40]}]
    for lbl, cmd, rc, tail in r["failed_jobs"]:
        ctx.violation("correspondence job failed (harness or driver crashed): " + lbl, {"cmd": cmd, "rc": rc, "tail": tail}, no_input=True)
    spec_mm = [m for m in r["mismatch_lines"] if "kind=spec" in m[2]]
    model_mm = [m for m in r["mismatch_lines"] if "kind=model" in m[2]]
    for lbl, cmd, line in spec_mm[:3]:
        case_no = int(line.split("case=")[1].split()[0])
        hist = vlib.extract_case(cmd.split(), driver, case_no)
        ctx.violation("FIFO conservation violated by the implementation under a concrete schedule: " + line,
                      {"execution": hist, "harness_cmd": cmd, "how_to_rerun": "c03 one <kind> <cap> <program> <schedule from the S line>"})
    ra_witness = []
    def report_model_mm():
        # the trace comparison broke without a conservation failure: an ordering-only divergence for
        # which the view-model search below produced a failing execution is reported there, with input
        if not (model_mm and not spec_mm):
            return
        if ra_witness and all("(ordering:" in m[2] for m in model_mm):
            return
        lbl, cmd, line = model_mm[0]
        case_no = int(line.split("case=")[1].split()[0])
        hist = vlib.extract_case(cmd.split(), driver, case_no)
        ctx.violation("trace correspondence model<->implementation broken (first diverging access below); "
                      "no schedule violating conservation found among those explored: " + line,
                      {"obligation": "G1 trace equality between model/SpscQueue.v (theorems c03_spsc_*) and the queue implementation",
                       "first_divergence": line, "execution": hist, "harness_cmd": cmd, "other_divergences": [m[2] for m in model_mm[1:6]]}, no_input=True)
    # ---- weak-memory part: the orderings observed at the six sites of the index queue / spsc queue
    # must be the table the release/acquire theorem is stated for; if they are not, search the
    # RA view model under the OBSERVED table for a racy / non-conserving execution
    CODE = {"10": "rlx", "11": "acq", "13": "rel", "20": "rlx", "21": "acq", "23": "rel"}
    ra_tables = {}
    for kind in ("iq", "sq"):
        obs = {}
        for site, vals in r.get("sites", {}).get(kind, {}).items():
            if site in CODE:
                obs[site] = sorted({v[1] for v in vals})
        ra_tables[kind] = obs
        if not obs:
            continue
        missing = [s_ for s_ in CODE if s_ not in obs]
        multi = [s_ for s_ in obs if len(obs[s_]) != 1]
        if missing or multi:
            ctx.violation("memory-ordering table of %s could not be observed (sites missing %s, ambiguous %s)" % (kind, missing, multi),
                          {"observed": obs}, no_input=True)
            continue
        table = [obs[s_][0] for s_ in ("10", "11", "13", "20", "21", "23")]
        if table != [CODE[s_] for s_ in ("10", "11", "13", "20", "21", "23")]:
            rc, out = vlib.sh("%s ra %s" % (driver, " ".join(table)), timeout=600)
            wit = [l for l in out.split("\n") if l.startswith("RAWITNESS")]
            if wit:
                ra_witness.append(wit[0])
                ctx.violation("%s: memory orderings %s differ from the proved table; under release/acquire semantics the view model has a failing execution: %s" % (kind, table, wit[0]),
                              {"queue": kind, "observed_orderings(push_load_wp,push_load_rp,push_store_wp,pop_load_rp,pop_load_wp,pop_store_rp)": table,
                               "model_witness": wit[0], "note": "schedule entries are thread:staleness; replay = run model/SpscQueueRA.v rstep with these orderings on this schedule (coq: race_after); not reproducible on x86 hardware, which is why the tests pass",
                               "how_to_rerun": "%s ra %s" % (driver, " ".join(table))})
            else:
                ctx.violation("%s: memory orderings %s differ from the table of theorem c03_ra_race_free_and_conserving; no failing execution found in the view model for them" % (kind, table),
                              {"obligation": "c03_ra_race_free_and_conserving is stated for ords_code only", "observed": table}, no_input=True)
    # ---- the same for the safely overflowing queue: seven orderings (sites 31, 33, 34, 40, 41 = 44, 43 success/failure)
    SYNC = ["acq", "rel", "acqrel", "acq", "acq", "rel", "acq"]
    oqs = r.get("sites", {}).get("oq", {})
    def one(site, idx):
        vals = sorted({v[idx] for v in oqs.get(site, ())})
        return vals
    cols = [one("31", 1), one("33", 1), one("34", 1), one("40", 1), sorted(set(one("41", 1)) | set(one("44", 1))), one("43", 1), one("43", 2)]
    ra_tables["oq"] = cols
    if oqs:
        if any(len(c_) != 1 for c_ in cols):
            ctx.violation("memory-ordering table of the safely overflowing queue could not be observed unambiguously", {"observed": cols}, no_input=True)
        else:
            table = [c_[0] for c_ in cols]
            if table != SYNC:
                rc, out = vlib.sh("%s oqra %s" % (driver, " ".join(table)), timeout=600)
                wit = [l for l in out.split("\n") if l.startswith("OQRAWITNESS")]
                if wit:
                    ra_witness.append(wit[0])
                    ctx.violation("oq: memory orderings %s differ from the proved table %s; under release/acquire semantics the view model has an execution in which a RETURNED value is read or overwritten racily: %s" % (table, SYNC, wit[0]),
                                  {"queue": "oq", "observed_orderings(push_load_rp,push_store_wp,push_cas,pop_load_rp,pop_load_wp,pop_cas,pop_cas_fail)": table,
                                   "model_witness": wit[0], "note": "schedule entries are thread:staleness (0 = producer, 1 = consumer); replay = run model/OverflowQueueRA.v qstep with these orderings on this schedule (coq: used_race_after); on the implementation the unordered pair is reported by Miri's data race detector for the corresponding two-thread program; not reproducible on x86 hardware, which is why the tests pass",
                                   "how_to_rerun": "%s oqra %s" % (driver, " ".join(table))})
                else:
                    ctx.violation("oq: memory orderings %s differ from the table of theorem c03_oqra_used_race_free_and_conserving; no failing execution found in the view model for them" % table,
                                  {"obligation": "c03_oqra_used_race_free_and_conserving is stated for oq_ords_sync only", "observed": table}, no_input=True)
    ctx.cov["observed_ordering_tables"] = ra_tables
    report_model_mm()
    # ---- known finding oq:speculative-read: replay the schedule of c03_oq_no_slot_conflict_refuted on the real queue
    spec_cmd = [exe, "one", "oq", "1", "acqp,push7,push8,push9|acqc,pop", "0,0,0,0,0,1,1,1,0,0,0,0,0,0,0,0,1,0"]
    rc, out = vlib.sh(" ".join("'%s'" % x for x in spec_cmd), timeout=120)
    ev = [l.split() for l in out.split("\n") if l.startswith("E ")]
    adj = [(a_, b_) for a_, b_ in zip(ev, ev[1:]) if a_[4] == "cell" and b_[4] == "cell" and a_[3] == b_[3] and a_[1] != b_[1]]
    rs = vlib.run_pipelines([("specread:oq:0", ["'%s'" % x for x in spec_cmd])], driver)
    ctx.cov["speculative_read_replay"] = {"adjacent_conflicting_cell_accesses": len(adj), "trace_equal_to_model": not rs["mismatch_lines"] and not rs["failed_jobs"]}
    if adj and not rs["mismatch_lines"] and not rs["failed_jobs"]:
        ctx.violation("safely overflowing queue: the consumer's speculative slot read and the producer's re-use of that slot are adjacent in an execution of the real queue (data race on a plain cell; the value read is discarded)",
                      {"harness_cmd": " ".join(spec_cmd), "adjacent_accesses": [(" ".join(a_), " ".join(b_)) for a_, b_ in adj],
                       "theorems": ["c03_oq_no_slot_conflict_refuted", "c03_oqra_no_race_at_all_refuted"]}, key="oq:speculative-read")
    ctx.ra_witness = ra_witness
    import c03conn_part; c03conn_part.run_conn(ctx)
    if not proof_ok and not ctx.violations:
        ctx.violation("proof obligation no longer checks: %s" % ctx.broken, {"broken": ctx.broken}, no_input=True)
    ctx.assumptions = [
        "sequentially consistent interleaving at access granularity for the trace comparison; weak-memory behaviours are covered by the two release/acquire view models (SpscQueueRA.v, OverflowQueueRA.v: stale cursor reads by oracle, acquired views), which are tied to the code through the memory ordering of every access site, pinned by the trace comparison and compared with the proved tables on every run",
        "view models: fixed roles (thread 0 producer, thread 1 consumer), release sequences as in C++20 (every write of read_position is a read-modify-write), no load buffering / out-of-thin-air; a racy access is flagged, its value is not modelled",
        "2^64 cursor wrap-around not modelled (unbounded N)",
        "tie = trace equality on the explored schedules; the gate (cargo paths override of iceoryx2-pal-concurrency-sync) is generated from /repo's current source",
    ]


if __name__ == "__main__":
    sys.exit(vlib.main(run, "C03"))
