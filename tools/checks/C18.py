#!/usr/bin/env python3
"""C18 -- the C binding is a faithful projection of the Rust API.

Part A (proof over regenerated finite tables): harness/xlate regenerates coq/gen/FfiEnums.v from
/repo's current source, the theorems of props/C18.v are rebuilt against the NEW table, the same
predicates are evaluated here row by row to name the failing rows (the search), and the table is
cross-checked dynamically by a probe compiled into a copy of the ffi crate.
Part B (translation validation Rust API <-> C API): harness/g3/c18 runs generated call sequences
through both APIs and mixed, and compares the observation streams."""
import collections
import difflib
import json
import os
import re
import shutil
import sys
sys.path.insert(0, os.path.dirname(os.path.dirname(os.path.abspath(__file__))))
import vlib
from vlib import VERIF, REPO, BUILD

XLATE_DIR = os.path.join(VERIF, "harness", "xlate")
XLATE_TARGET = os.path.join(BUILD, "target-xlate")
WORK = os.path.join(BUILD, "c18")
PROBE = os.path.join(WORK, "probe")
PROBE_TARGET = os.path.join(BUILD, "target-c18probe")
GEN_V = os.path.join(VERIF, "coq", "gen", "FfiEnums.v")

# exception lists of coq/proofs/FfiTable.v, parsed from that file so that both sides agree
TABLE_V = os.path.join(VERIF, "coq", "proofs", "FfiTable.v")


def write_if_changed(path, content):
    if os.path.exists(path) and open(path, errors="replace").read() == content:
        return False
    os.makedirs(os.path.dirname(path), exist_ok=True)
    open(path, "w").write(content)
    return True


# -----------------------------------------------------------------------------------------
# translator
# -----------------------------------------------------------------------------------------
def build_xlate():
    lockf = os.path.join(XLATE_DIR, "Cargo.lock")
    if not os.path.exists(lockf):
        shutil.copy(os.path.join(REPO, "Cargo.lock"), lockf)
    env = {"CARGO_TARGET_DIR": XLATE_TARGET, "CARGO_NET_OFFLINE": "true"}
    rc, out = vlib.sh("cargo build --offline -j%d" % vlib.NPROC, cwd=XLATE_DIR, env=env, timeout=1200)
    if rc != 0 and "Cargo.lock" in out:
        shutil.copy(os.path.join(REPO, "Cargo.lock"), lockf)
        rc, out = vlib.sh("cargo build --offline -j%d" % vlib.NPROC, cwd=XLATE_DIR, env=env, timeout=1200)
    return rc == 0, out[-4000:], os.path.join(XLATE_TARGET, "debug", "xlate")


def run_xlate(exe, coq_out, json_out, probe_out=None):
    cmd = [exe, "ffi-enums", "--repo", REPO, "--coq", coq_out, "--json", json_out]
    if probe_out:
        cmd += ["--probe", probe_out]
    rc, out = vlib.sh(cmd, timeout=300)
    errs = [l[len("XLATE-ERROR "):] for l in out.split("\n") if l.startswith("XLATE-ERROR")]
    notes = [l[len("XLATE-NOTE "):] for l in out.split("\n") if l.startswith("XLATE-NOTE")]
    okl = [l for l in out.split("\n") if l.startswith("XLATE-OK")]
    return rc, errs, notes, (okl[0] if okl else ""), out


# -----------------------------------------------------------------------------------------
# the predicates of coq/model/Ffi.v, evaluated row by row (search: names the failing rows)
# -----------------------------------------------------------------------------------------
def parse_known():
    """exception lists of proofs/FfiTable.v (the statements the theorems are proved with)"""
    src = vlib.strip_coq_comments(open(TABLE_V).read())
    res = {}
    for name in ("known_diverging", "known_top_collisions", "known_leaf_collapses", "known_zero"):
        m = re.search(r"Definition\s+%s\s*:\s*list key\s*:=(.*?)\]\s*\." % name, src, re.S)
        body = m.group(1) if m else ""
        res[name] = set(re.findall(r'\(\s*"([^"]*)"\s*,\s*"([^"]*)"\s*\)', body))
    res["known_leaf_collapses"] |= res["known_top_collisions"]
    for name in ("known_dup_names", "known_name_clashes"):
        m = re.search(r"Definition\s+%s\s*:\s*list string\s*:=(.*?)\]\s*\." % name, src, re.S)
        res[name] = set(re.findall(r'"([^"]*)"', m.group(1) if m else ""))
    return res


def common_ctor_path(names):
    """longest common constructor path of leaf names: A(B(C)), A(B(D)) -> A::B"""
    paths = [re.split(r"[(]", n.replace(")", "")) for n in names]
    pre = []
    for parts in zip(*paths):
        if all(p == parts[0] for p in parts):
            pre.append(parts[0])
        else:
            break
    return "::".join(pre)


def analyse(tab):
    """Returns list of findings: dict(kind, key, enum, what, rows)."""
    ce = {c["name"]: c for c in tab["cenums"]}
    ok = tab["ok"]
    findings = []

    def cvar(l):
        if not l["cenum"] or l["cenum"] not in ce:
            return None
        for v in ce[l["cenum"]]["variants"]:
            if v["name"] == l["cvariant"]:
                return v
        return None

    produced = collections.defaultdict(set)
    for m in tab["rmaps"]:
        en = m["name"]
        by_code = collections.defaultdict(list)
        cenums_used = set()
        for l in m["leaves"]:
            v = cvar(l)
            if v is None:
                findings.append({"kind": "total", "key": "ffi-diverge:%s::%s" % (en, l["name"]), "enum": en,
                                 "ckey": (en, l["name"]),
                                 "what": "into_c_int does not return a code on %s::%s: %s" % (en, l["name"], l["diverges"] or "target is not a C variant"),
                                 "rows": [l], "where": "%s:%d" % (m["impl_file"], m["impl_line"])})
                continue
            produced[l["cenum"]].add(l["cvariant"])
            cenums_used.add(l["cenum"])
            by_code[(l["cenum"], l["cvariant"], v["code"])].append(l)
            if m["is_error"] and v["code"] == ok:
                pass
        if len(cenums_used) > 1:
            findings.append({"kind": "single_cenum", "key": "ffi-mixed-cenum:%s" % en, "enum": en, "ckey": (en, ""),
                             "what": "%s maps into several C enums %s" % (en, sorted(cenums_used)), "rows": [], "where": m["impl_file"]})
        for (cen, cv, code), ls in sorted(by_code.items(), key=lambda kv: kv[0][2]):
            if m["is_error"] and code == ok:
                path = common_ctor_path([l["name"] for l in ls])
                findings.append({"kind": "nonzero", "key": "ffi-zero:%s::%s" % (en, path or cv), "enum": en, "ckey": (en, cv),
                                 "what": "error %s::{%s} maps to %s::%s = %d = IOX2_OK" % (en, ", ".join(l["name"] for l in ls[:4]) + (", ..." if len(ls) > 4 else ""), cen, cv, code),
                                 "rows": ls, "where": "%s:%d" % (m["impl_file"], m["impl_line"])})
            if len(ls) > 1:
                tops = sorted({l["top"] for l in ls})
                if len(tops) > 1:
                    findings.append({"kind": "injective_top", "key": "ffi-collapse:%s::%s" % (en, "+".join(l["name"] for l in ls)), "enum": en, "ckey": (en, cv),
                                     "what": "different variants %s of %s map to the same C code %s::%s = %d" % ([l["name"] for l in ls], en, cen, cv, code),
                                     "rows": ls, "where": "%s:%d" % (m["impl_file"], m["impl_line"])})
                else:
                    path = common_ctor_path([l["name"] for l in ls])
                    findings.append({"kind": "injective_leaf", "key": "ffi-collapse:%s::%s" % (en, path), "enum": en, "ckey": (en, cv),
                                     "what": "%d leaves %s::%s(..) collapse into the one C code %s::%s = %d (payload dropped by arm `%s`)" % (len(ls), en, path, cen, cv, code, ls[0]["arm"]),
                                     "rows": ls, "where": "%s:%d" % (m["impl_file"], m["impl_line"])})
        # names along the mapping
        strs = collections.defaultdict(set)
        for (cen, cv, code), ls in by_code.items():
            if ce[cen]["has_cstr"]:
                v = [x for x in ce[cen]["variants"] if x["name"] == cv][0]
                strs[v["cstr"]].add((cv, code))
        clash = {s: sorted(v) for s, v in strs.items() if len(v) > 1}
        if clash:
            findings.append({"kind": "names_separate", "key": "ffi-nameclash:%s" % en, "enum": en, "ckey": en,
                             "what": "%s: different codes print the same name: %s" % (en, clash), "rows": [], "where": m["impl_file"]})
    for c in tab["cenums"]:
        codes = collections.Counter(v["code"] for v in c["variants"])
        if any(n > 1 for n in codes.values()):
            findings.append({"kind": "codes_distinct", "key": "ffi-dupcode:%s" % c["name"], "enum": c["name"], "ckey": c["name"],
                             "what": "C enum %s has two variants with one discriminant" % c["name"], "rows": [], "where": c["file"]})
        if c["has_cstr"]:
            cnt = collections.Counter(v["cstr"] for v in c["variants"])
            dup = {s: [v["name"] for v in c["variants"] if v["cstr"] == s] for s, n in cnt.items() if n > 1}
            empty = [v["name"] for v in c["variants"] if v["cstr"] == ""]
            if dup or empty:
                findings.append({"kind": "names_distinct", "key": "ffi-dupname:%s" % c["name"], "enum": c["name"], "ckey": c["name"],
                                 "what": "C enum %s: printable names not distinct: %s%s" % (c["name"], dup, (" empty: %s" % empty) if empty else ""),
                                 "rows": [], "where": "%s:%d" % (c["file"], c["line"])})
    # informational: codes never produced, names not exported
    info = {"unproduced_c_variants": {}, "cstr_without_string_fn": [], "error_enums_without_string_fn": []}
    for c in tab["cenums"]:
        if c["name"] in produced:
            un = [v["name"] for v in c["variants"] if v["name"] not in produced[c["name"]]]
            if un:
                info["unproduced_c_variants"][c["name"]] = un
            if not c["string_fn"]:
                info["error_enums_without_string_fn"].append(c["name"] + ("" if c["has_cstr"] else " (no CStrRepr)"))
        if c["has_cstr"] and not c["string_fn"]:
            info["cstr_without_string_fn"].append(c["name"])
    return findings, info


KIND_LIST = {"total": "known_diverging", "injective_top": "known_top_collisions", "injective_leaf": "known_leaf_collapses",
             "nonzero": "known_zero", "names_distinct": "known_dup_names", "names_separate": "known_name_clashes"}
KIND_THM = {"total": "c18_total", "injective_top": "c18_injective", "injective_leaf": "c18_injective_leaf_partial",
            "nonzero": "c18_codes_nonzero", "names_distinct": "c18_names_distinct", "names_separate": "c18_names_separate",
            "single_cenum": "c18_single_cenum", "codes_distinct": "c18_cenum_codes_distinct"}


# -----------------------------------------------------------------------------------------
# probe: a copy of the ffi crate + generated module, built and run
# -----------------------------------------------------------------------------------------
def sync_tree(src, dst, keep=()):
    changed = 0
    want = set()
    for root, dirs, files in os.walk(src):
        rel = os.path.relpath(root, src)
        for f in files:
            sp = os.path.join(root, f)
            dp = os.path.normpath(os.path.join(dst, rel, f))
            want.add(dp)
            if dp in keep:
                continue   # written separately (api/mod.rs gets lines appended); do not touch its mtime
            data = open(sp, "rb").read()
            if not os.path.exists(dp) or open(dp, "rb").read() != data:
                os.makedirs(os.path.dirname(dp), exist_ok=True)
                open(dp, "wb").write(data)
                changed += 1
    for root, dirs, files in os.walk(dst):
        for f in files:
            dp = os.path.normpath(os.path.join(root, f))
            if dp not in want and dp not in keep:
                os.remove(dp)
                changed += 1
    return changed


def toml_val(v):
    if isinstance(v, bool):
        return "true" if v else "false"
    if isinstance(v, str):
        return json.dumps(v)
    if isinstance(v, list):
        return "[" + ", ".join(toml_val(x) for x in v) + "]"
    if isinstance(v, dict):
        return "{ " + ", ".join("%s = %s" % (k, toml_val(x)) for k, x in v.items()) + " }"
    return str(v)


def prepare_probe():
    """/verif/build/c18/probe: Cargo package = copy of iceoryx2-ffi/c/src (current tree) with
    `mod verif_probe;` appended to api/mod.rs.  verif_probe.rs is written by the translator."""
    import tomllib
    ws = tomllib.load(open(os.path.join(REPO, "Cargo.toml"), "rb"))
    ffi = tomllib.load(open(os.path.join(REPO, "iceoryx2-ffi", "c", "Cargo.toml"), "rb"))
    wdeps = ws["workspace"]["dependencies"]
    deps = {}
    for name, spec in ffi.get("dependencies", {}).items():
        if isinstance(spec, dict) and spec.get("workspace"):
            base = dict(wdeps[name]) if isinstance(wdeps[name], dict) else {"version": wdeps[name]}
            if "path" in base:
                base["path"] = os.path.normpath(os.path.join(REPO, base["path"]))
                base.pop("version", None)
            for k, v in spec.items():
                if k == "features":
                    base["features"] = sorted(set(base.get("features", [])) | set(v))
                elif k != "workspace":
                    base[k] = v
            deps[name] = base
        else:
            deps[name] = spec
    lines = ["# GENERATED by tools/checks/C18.py from /repo/iceoryx2-ffi/c/Cargo.toml",
             "[package]", 'name = "iceoryx2-ffi-c-probe"', 'version = "0.0.0"',
             "edition = %s" % json.dumps(ws["workspace"]["package"].get("edition", "2021")), "",
             "[workspace]", "", "[lib]", 'path = "src/lib.rs"', 'crate-type = ["rlib"]', "",
             "[[bin]]", 'name = "c18probe"', 'path = "main.rs"', "", "[features]"]
    for k, v in ffi.get("features", {}).items():
        lines.append("%s = %s" % (k, toml_val(v)))
    lines += ["", "[dependencies]"]
    for k, v in deps.items():
        lines.append("%s = %s" % (k, toml_val(v)))
    lines += ["", "[profile.dev]", "opt-level = 1", "debug = false", ""]
    write_if_changed(os.path.join(PROBE, "Cargo.toml"), "\n".join(lines))
    write_if_changed(os.path.join(PROBE, ".cargo", "config.toml"), "[net]\noffline = true\n")
    if not os.path.exists(os.path.join(PROBE, "Cargo.lock")):
        shutil.copy(os.path.join(REPO, "Cargo.lock"), os.path.join(PROBE, "Cargo.lock"))
    write_if_changed(os.path.join(PROBE, "main.rs"), open(os.path.join(XLATE_DIR, "probe", "main.rs")).read())
    src = os.path.join(REPO, "iceoryx2-ffi", "c", "src")
    dst = os.path.join(PROBE, "src")
    probe_rs = os.path.normpath(os.path.join(dst, "api", "verif_probe.rs"))
    modrs = os.path.normpath(os.path.join(dst, "api", "mod.rs"))
    # everything except api/mod.rs byte-identical; mod.rs gets two lines appended
    sync_tree(src, dst, keep=(probe_rs, modrs))
    orig = open(os.path.join(src, "api", "mod.rs")).read()
    write_if_changed(modrs, orig + "\n// appended by /verif/tools/checks/C18.py (nothing else differs from /repo)\nmod verif_probe;\npub use verif_probe::*;\n")
    return probe_rs


def build_probe():
    env = {"CARGO_TARGET_DIR": PROBE_TARGET, "CARGO_NET_OFFLINE": "true"}
    cmd = "cargo build --offline -j%d --bin c18probe" % vlib.NPROC
    rc, out = vlib.sh(cmd, cwd=PROBE, env=env, timeout=3000)
    if rc != 0 and "Cargo.lock" in out and ("needs to be updated" in out or "lock file" in out):
        shutil.copy(os.path.join(REPO, "Cargo.lock"), os.path.join(PROBE, "Cargo.lock"))
        rc, out = vlib.sh(cmd, cwd=PROBE, env=env, timeout=3000)
    return rc == 0, out, os.path.join(PROBE_TARGET, "debug", "c18probe")


def expected_probe_lines(tab):
    ce = {c["name"]: c for c in tab["cenums"]}
    exp = []
    for c in tab["cenums"]:
        for v in c["variants"]:
            exp.append("C %s %s %d %s" % (c["name"], v["name"], v["code"], v["cstr"] if c["has_cstr"] else "-"))
    idx = 0
    div = []
    for m in tab["rmaps"]:
        for l in m["leaves"]:
            if l["diverges"]:
                exp.append("D %s %s %d" % (m["name"], l["name"], idx))
                div.append((idx, m["name"], l["name"]))
            else:
                c = ce[l["cenum"]]
                v = [x for x in c["variants"] if x["name"] == l["cvariant"]][0]
                exp.append("R %s %s %d %s" % (m["name"], l["name"], v["code"], v["cstr"] if c["string_fn"] else "-"))
            idx += 1
    exp.append("END %d" % idx)
    return exp, div


# -----------------------------------------------------------------------------------------
def part_a(ctx):
    os.makedirs(WORK, exist_ok=True)
    ok, out, xl = build_xlate()
    if not ok:
        ctx.violation("translator harness/xlate does not build", {"obligation": "T: source -> gen/FfiEnums.v", "log": out}, no_input=True)
        return None
    new_v = os.path.join(WORK, "FfiEnums.v")
    new_json = os.path.join(WORK, "ffi.json")
    try:
        probe_rs = prepare_probe()
    except Exception as ex:
        ctx.violation("cannot prepare the probe copy of iceoryx2-ffi/c: %r" % (ex,), {"obligation": "dynamic cross-check of the translator"}, no_input=True)
        probe_rs = None
    rc, errs, notes, okl, raw = run_xlate(xl, new_v, new_json, probe_rs)
    if rc != 0 or errs or not okl:
        ctx.violation("translator cannot parse the FFI error mapping: %s" % ("; ".join(errs[:5]) or raw[-400:]),
                      {"obligation": "T: every `impl IntoCInt` and every C enum of iceoryx2-ffi/c/src/api must be translated (totality/injectivity cannot be stated for what is not translated)",
                       "errors": errs, "output_tail": raw[-1500:]}, no_input=True)
        return None
    ctx.log(okl)
    tab = json.load(open(new_json))
    sizes = dict(kv.split("=") for kv in okl.split()[1:])
    ctx.cov["table"] = {k: int(v) for k, v in sizes.items()}
    ctx.cov["translator_notes"] = notes
    ctx.cov["opaque_payload_types"] = sorted({t for m in tab["rmaps"] for l in m["leaves"] for t in re.findall(r"<([^>]*)>", l["name"])})
    # diff against the committed (last accepted) table
    old = open(GEN_V).read() if os.path.exists(GEN_V) else ""
    new = open(new_v).read()
    moved = []
    if old != new:
        for l in difflib.unified_diff(old.split("\n"), new.split("\n"), "accepted", "regenerated", lineterm="", n=0):
            if l.startswith(("+", "-")) and not l.startswith(("+++", "---")):
                moved.append(l)
        ctx.log("generated table differs from the committed copy in %d rows; theorems are rebuilt against the NEW table" % len(moved))
        open(GEN_V, "w").write(new)
    ctx.cov["table_rows_moved"] = moved[:60]
    ctx.cov["table_differs_from_committed"] = bool(moved)
    return tab


def report_findings(ctx, tab, proof_ok):
    known = parse_known()
    findings, info = analyse(tab)
    ctx.cov["informational"] = info
    coq_lists_hit = collections.defaultdict(set)
    unlisted = []
    rows = []
    for f in findings:
        lst = KIND_LIST.get(f["kind"])
        listed = lst is not None and f["ckey"] in known.get(lst, set())
        if lst:
            coq_lists_hit[lst].add(f["ckey"])
            if f["kind"] == "injective_top":   # a top-level collision is also a leaf collapse
                coq_lists_hit["known_leaf_collapses"].add(f["ckey"])
        if not listed:
            unlisted.append(f)
        rows.append({"key": f["key"], "kind": f["kind"], "theorem": KIND_THM.get(f["kind"]), "listed_exception_in_coq": listed,
                     "what": f["what"], "leaves": [r["name"] for r in f["rows"]][:40], "where": f["where"]})
        ctx.violation(f["what"], {"kind": f["kind"], "theorem": KIND_THM.get(f["kind"]), "enum": f["enum"], "where": f["where"],
                                  "rows": [{"leaf": r["name"], "cenum": r["cenum"], "cvariant": r["cvariant"], "diverges": r["diverges"], "arm": r["arm"]} for r in f["rows"]],
                                  "how_to_rerun": "./check C18 quick  (table: /verif/build/c18/ffi.json; probe: /verif/build/target-c18probe/debug/c18probe all)"},
                      key=f["key"])
    ctx.cov["failing_rows"] = rows
    stale = {lst: sorted(map(str, ks - coq_lists_hit.get(lst, set()))) for lst, ks in known.items() if ks - coq_lists_hit.get(lst, set())}
    if not proof_ok:
        if unlisted:
            ctx.log("proof stage broke and %d failing rows are not in the exception lists of proofs/FfiTable.v" % len(unlisted))
            for f in unlisted:
                # make sure a row that breaks a theorem is a VIOLATION even if its key is a known finding? no:
                # a known finding stays known; but the proof must be updated -> obligation below
                pass
        ctx.violation("proof obligation no longer checks: %s%s%s" % (
            [b.get("obligation") + ":" + str(b.get("detail")) for b in ctx.broken],
            ("; rows that fail and are not excepted in proofs/FfiTable.v: %s" % [f["key"] for f in unlisted]) if unlisted else "",
            ("; exception entries that are no longer real (source fixed?): %s" % stale) if stale else ""),
            {"broken": ctx.broken, "unlisted_failing_rows": [f["key"] for f in unlisted], "stale_exceptions": stale,
             "searched": "all %d leaves of %d mappings and %d C enums evaluated row by row" % (
                 sum(len(m["leaves"]) for m in tab["rmaps"]), len(tab["rmaps"]), len(tab["cenums"]))},
            no_input=not unlisted)
    return findings


def dynamic_crosscheck(ctx, tab):
    ok, out, exe = build_probe()
    if not ok:
        errs = [l for l in out.split("\n") if l.startswith("error")]
        ctx.violation("probe (copy of the ffi crate + generated exhaustive matches) does not compile: %s" % "; ".join(errs[:4]),
                      {"obligation": "dynamic cross-check of the translator: rustc must accept the generated exhaustive matches over every leaf list",
                       "log_tail": out[-3000:]}, no_input=True)
        return
    ctx.log("probe built")
    rc, out = vlib.sh([exe, "all"], timeout=300)
    ctx.log("probe ran")
    got = [l for l in out.split("\n") if re.match(r"^(C|R|D|U|END) ", l)]
    exp, div = expected_probe_lines(tab)
    unconstructible = [l for l in got if l.startswith("U ")]
    gotset = [l for l in got if not l.startswith("U ")]
    expcmp = list(exp)
    for u in unconstructible:
        _, en, leaf = u.split(" ", 2)
        expcmp = [e for e in expcmp if not (e.startswith("R %s %s " % (en, leaf)))]
    ctx.cov["probe"] = {"lines": len(got), "c_variants_checked": sum(1 for l in got if l.startswith("C ")),
                        "leaves_executed": sum(1 for l in got if l.startswith("R ")),
                        "leaves_unconstructible": [u[2:] for u in unconstructible],
                        "predicted_divergent": ["%s::%s" % (e, l) for _, e, l in div]}
    if rc != 0 or gotset != expcmp:
        d = [l for l in difflib.unified_diff(expcmp, gotset, "table", "real-code", lineterm="", n=0) if l[:1] in "+-" and l[:3] not in ("+++", "---")]
        ctx.violation("generated table disagrees with the real code (probe rc=%d): %s" % (rc, d[:6]),
                      {"obligation": "dynamic cross-check: for every leaf, X.into_c_int() and iox2_*_string(code) must equal the table row",
                       "diff": d[:80], "stderr_tail": out[-800:], "how_to_rerun": exe + " all"}, no_input=not d)
    # replay the leaves on which the table says into_c_int does not return: each in its own process
    replays = []
    for idx, en, leaf in div:
        rc1, out1 = vlib.sh("ulimit -s 8192; timeout 3 %s one %d" % (exe, idx), timeout=60)
        tail = out1.strip().split("\n")[-1][:200] if out1.strip() else ""
        died = rc1 != 0
        replays.append({"leaf": "%s::%s" % (en, leaf), "rc": rc1, "returned": not died, "tail": tail})
        if not died:
            ctx.violation("table says %s::%s diverges in into_c_int but the real code returned: %s" % (en, leaf, tail),
                          {"obligation": "dynamic cross-check of a TDiverges row", "cmd": "%s one %d" % (exe, idx)}, no_input=True)
    ctx.cov["probe"]["divergent_replays"] = replays


# -----------------------------------------------------------------------------------------
# part B: translation validation Rust API <-> C API
# -----------------------------------------------------------------------------------------
def norm_obs(obs, ce, rm):
    """Rust errors `E:<Enum>:<leaf>` are mapped through the generated table to the form the C side
    prints: `E:<iox2_*_e>:<code>:<printable name>`."""
    m = re.match(r"^E:([A-Za-z0-9_]+):(.*)$", obs)
    if not m or m.group(1).startswith("iox2_"):
        return obs
    en, leaf = m.group(1), m.group(2)
    l = rm.get(en, {}).get(leaf)
    if not l or not l["cenum"]:
        return "UNMAPPED:" + obs
    c = ce[l["cenum"]]
    v = [x for x in c["variants"] if x["name"] == l["cvariant"]][0]
    return "E:%s:%d:%s" % (c["name"], v["code"], (v["cstr"] if c["string_fn"] else "-").replace(" ", "_"))


SENDCOPY_FN = {"sendcopy": "iox2_publisher_send_copy", "csendcopy": "iox2_client_send_copy", "asendcopy": "iox2_active_request_send_copy"}


def sendcopy_wrong_enum(rust_obs, c_obs, ce):
    """rust_obs = E:<iox2_send_error_e|iox2_request_send_error_e>:<k>:loan_error_<x> ; c_obs = E:<same enum>:<j>:<...>
    where j is the discriminant of the loan error <x> in iox2_loan_error_e (the function returned
    LoanError::into_c_int() although it documents the send error enum)"""
    m = re.match(r"^E:(iox2_send_error_e|iox2_request_send_error_e):\d+:loan_error_(.*)$", rust_obs)
    n = re.match(r"^E:(iox2_send_error_e|iox2_request_send_error_e):(\d+):", c_obs)
    if not m or not n:
        return False
    want = {"exceeds_max_loans": "EXCEEDS_MAX_LOANED_SAMPLES", "out_of_memory": "OUT_OF_MEMORY",
            "exceeds_max_loan_size": "EXCEEDS_MAX_LOAN_SIZE", "internal_failure": "INTERNAL_FAILURE"}.get(m.group(2))
    for v in ce.get("iox2_loan_error_e", {}).get("variants", []):
        if v["name"] == want and v["code"] == int(n.group(2)):
            return True
    return False


def parse_streams(out, ce, rm):
    cases = []
    cur = None
    mode = None
    done = None
    for line in out.split("\n"):
        if line.startswith("C "):
            cur = {"hdr": line, "modes": collections.OrderedDict(), "F": {}}
            cases.append(cur)
        elif line.startswith("M ") and cur is not None:
            mode = line[2:]
            cur["modes"][mode] = []
        elif line.startswith("O ") and cur is not None:
            k, rest = line[2:].split(" ", 1)
            op, obs = rest.split(" = ", 1)
            cur["modes"][mode].append((op, norm_obs(obs, ce, rm), obs))
        elif line.startswith("F ") and cur is not None:
            cur["F"][mode] = line.split(" ", 2)[2]
        elif line.startswith("DONE"):
            done = line
    return cases, done


def part_b(ctx, tab):
    import concurrent.futures as cf
    ok, out, tdir = vlib.cargo_build("g3", bins=["c18"])
    if not ok:
        ctx.violation("part B harness does not build against /repo", {"obligation": "G3 harness harness/g3/c18", "log": out}, no_input=True)
        return
    exe = os.path.join(tdir, "c18")
    ce = {c["name"]: c for c in tab["cenums"]}
    rm = {m["name"]: {l["name"]: l for l in m["leaves"]} for m in tab["rmaps"]}
    nsh = 16
    ncases = 800 if ctx.thorough() else 96
    maxops = 80 if ctx.thorough() else 40
    jobs = []
    for kind in ("pubsub", "event", "reqres"):
        for sh_i in range(nsh):
            jobs.append((kind, [exe, kind, str(ctx.seed), str(sh_i), str(nsh), str(ncases), str(maxops)]))

    def one(job):
        kind, argv = job
        rc, out = vlib.sh(" ".join(argv) + " 2>/dev/null", timeout=3300)
        return kind, argv, rc, out

    stats = {"cases": 0, "mode_runs": 0, "ops": 0, "mismatches": 0, "left_behind": 0}
    wrong_enum = collections.Counter()
    opdist = collections.Counter()
    errdist = collections.Counter()
    modes_seen = collections.Counter()
    samples = []
    reported = 0
    with cf.ThreadPoolExecutor(max_workers=vlib.NPROC) as ex:
        for kind, argv, rc, out in ex.map(one, jobs):
            cases, done = parse_streams(out, ce, rm)
            if rc != 0 or done is None:
                ctx.violation("part B harness job crashed or did not finish: %s rc=%d" % (" ".join(argv), rc),
                              {"obligation": "G3 execution of generated programs through both APIs", "cmd": " ".join(argv), "rc": rc,
                               "last_case": cases[-1]["hdr"] if cases else None, "tail": out[-1500:]}, no_input=True)
            for c in cases:
                stats["cases"] += 1
                # reference stream: the typed Rust API when the case has one (it does not go through the
                # *_custom_payload functions that only the bindings use), else the runtime type-detail Rust API
                refmode = "TT" if "TT" in c["modes"] else "RR"
                ref = c["modes"].get(refmode, [])
                for op, o, _ in ref:
                    opdist[kind + ":" + op.split()[0]] += 1
                    if o.startswith("E:"):
                        errdist[o] += 1
                    if o.startswith("UNMAPPED"):
                        ctx.violation("Rust error has no row in the generated table: %s" % o, {"case": c["hdr"], "obs": o}, no_input=False, key="ffi-unmapped:" + o)
                if not samples and len(ref) > 12:
                    samples.append({"case": c["hdr"], "RR": ["%s = %s" % (a, b) for a, b, _ in ref[:14]]})
                # modes that involve the C ABI are compared (and reported) first
                for m, ls in sorted(c["modes"].items(), key=lambda kv: (0 if kv[0] == "CC" else 1 if "C" in kv[0] else 2, kv[0])):
                    stats["mode_runs"] += 1
                    stats["ops"] += len(ls)
                    modes_seen[kind + ":" + m] += 1
                    if m == refmode:
                        continue
                    a = [(x, y) for x, y, _ in ref]
                    b = [(x, y) for x, y, _ in ls]
                    # known class: iox2_publisher_send_copy / send_slice_copy return the code of
                    # iox2_loan_error_e where iox2_send_error_e is documented (state afterwards equal)
                    for i, (p_, q_) in enumerate(zip(a, b)):
                        if p_ != q_ and p_[0] == q_[0] and p_[0].split()[0] in SENDCOPY_FN and sendcopy_wrong_enum(p_[1], q_[1], ce):
                            wrong_enum[(SENDCOPY_FN[p_[0].split()[0]], p_[1], q_[1])] += 1
                            b[i] = p_
                    if a != b:
                        stats["mismatches"] += 1
                        idx = next((i for i, (p, q) in enumerate(zip(a, b)) if p != q), min(len(a), len(b)))
                        if reported < 5:
                            reported += 1
                            ctx.violation("C API and Rust API disagree (%s, mode %s vs %s) at op %d: %s %s  /  %s %s" % (
                                kind, m, refmode, idx, refmode, ref[idx] if idx < len(ref) else "<end>", m, ls[idx] if idx < len(ls) else "<end>"),
                                {"case": c["hdr"], "mode": m, "reference_mode": refmode, "first_diverging_op": idx,
                                 "modes": "first letter = publisher/notifier/client side, second = subscriber/listener/server side; R = Rust runtime type-detail API, T = typed Rust API, C = C ABI",
                                 "stream_" + refmode: ["%s = %s" % (x, z) for x, _, z in ref], "stream_" + m: ["%s = %s" % (x, z) for x, _, z in ls],
                                 "how_to_rerun": " ".join(argv) + "   # case number is the first field after `C`"})
                for m, f in c["F"].items():
                    if f != "nodes_left=0 recreate=ok":
                        stats["left_behind"] += 1
                        if reported < 5:
                            reported += 1
                            ctx.violation("after dropping every handle (mode %s, %s) something is left behind: %s" % (m, kind, f),
                                          {"case": c["hdr"], "mode": m, "leftover": f,
                                           "stream": ["%s = %s" % (x, z) for x, _, z in c["modes"].get(m, [])],
                                           "how_to_rerun": " ".join(argv)})
    for fn in sorted({k[0] for k in wrong_enum}):
        occ = {k: v for k, v in wrong_enum.items() if k[0] == fn}
        ctx.violation("%s returns a code of iox2_loan_error_e when its internal loan fails, although it documents/returns the send error enum otherwise: "
                      "the C caller reads another error: %s" % (fn, ["Rust %s -> C caller reads %s" % (k[1], k[2]) for k in sorted(occ)]),
                      {"kind": "wrong C enum", "function": fn,
                       "where": "iceoryx2-ffi/c/src/api/{publisher,client,active_request}.rs send_copy()/send_slice_copy(): `Err(e) => return e.into_c_int()` with e: LoanError",
                       "occurrences": {"%s / %s" % (k[1], k[2]): v for k, v in occ.items()},
                       "how_to_rerun": "%s pubsub|reqres %d 0 1 400 60   # look for sendcopy / csendcopy / asendcopy ops" % (exe, ctx.seed)},
                      key="ffi-wrong-enum:" + fn)
    ctx.cov["part_b"] = {
        "what": "translation validation: every generated program executed once per mode; streams compared line by line against mode RR",
        "stats": stats, "modes": dict(modes_seen), "op_distribution": dict(opdist), "error_kinds_seen": dict(errdist),
        "covered": "publish-subscribe: loan/write/send/drop-loan/receive/release/has_samples/update_connections/port+sample drops in generated order, "
                   "payload type details %s fixed and dynamic (slice) with arbitrary size/alignment, ipc and local services, 1 publisher, 1-2 subscribers; "
                   "send_copy/send_slice_copy, user header type details (size/alignment varied) written and read back, history 0-2 with late-joining subscribers and history_request, "
                   "up to 3 publishers and 4 subscribers (service limits 2 and 3, so creation failures occur), refused subscriber buffer sizes, "
                   "open/create of the same service with deviating requirements (9 kinds: incompatible types, min buffer, publishers, subscribers, borrowed samples, overflow, not existing, already exists, plain open); "
                   "event: notify/notify_with_custom_event_id/try_wait, 1-2 notifiers, 1-2 listeners, extra ports beyond the limits, 6 kinds of deviating open/create; "
                   "request-response (runtime type details for request and response independently, fixed and dynamic): client loan/write/send/send_copy, server receive/has_requests, "
                   "active request loan/write/send/send_copy/is_connected/drop, pending response receive/has_response/is_connected/drop, response release, 1 client + 1 server; "
                   "half of the request-response cases are REQUEST CYCLES with small limits (max_active_requests_per_client 1, response buffer 2..4, overflow off and on): at least twice as many "
                   "requests as the client has response channel ids, 1..3 responses per request, the client receives 0..n+1 of them and drops the pending response, so stale responses stay queued "
                   "while channel ids are recycled; for slice layouts of u8/u32/u64 the typed Rust API (request_response::<[T],[U]>, modes TT/CT/TC) runs too and is the reference stream "
                   "(the runtime type-detail Rust API shares its receive path with the binding); "
                   "publish-subscribe and event: ports dropped in mid-program and re-created while loans, borrowed samples, queued samples and pending notifications of the old port are still around; "
                   "handle release: port counts after every drop, node listing + re-create of the service after all drops",
        "not_covered": "blackboard, waitset, fixed-size typed Rust API for request-response, user headers in request-response, several clients/servers, fire-and-forget, attributes, blocking/timed waits, deadlines, resizable (dynamic allocation strategy) segments, "
                       "cross-process participants (both sides live in one process), C++/Python bindings",
        "samples": samples,
    }


def run(ctx):
    if getattr(ctx, "replay", None):
        try:
            r = json.load(open(ctx.replay))
            ctx.log("replay %s: %s" % (ctx.replay, r.get("what")))
            ctx.log("re-run: %s" % r.get("how_to_rerun", "./check C18 quick (part A rows are re-derived from /repo on every run)"))
        except Exception as ex:
            ctx.log("cannot read replay file: %r" % (ex,))
    tab = part_a(ctx)
    ctx.log("translator + table diff done")
    proof_ok = vlib.proof_stage(ctx)
    ctx.log("proof stage done: ok=%s" % proof_ok)
    if tab is not None:
        report_findings(ctx, tab, proof_ok)
        dynamic_crosscheck(ctx, tab)
        ctx.log("dynamic cross-check done")
        nl = sum(len(m["leaves"]) for m in tab["rmaps"])
        ctx.cov.update({
            "evaluations": nl + sum(len(c["variants"]) for c in tab["cenums"]),
            "distinct_nontrivial": nl,
            "exhaustive": True,
            "traces_validated_against_impl": 0,
            "rule": "part A: every leaf (payload enums expanded recursively from the enum definitions) of every `impl IntoCInt` "
                    "and every variant of every #[repr(C)] enum of iceoryx2-ffi/c/src/api; theorems by vm_compute over exactly these tables; "
                    "each row also executed on the real code by the probe",
        })
        part_b(ctx, tab)
        ctx.log("part B done")
        ctx.cov["samples"] = ctx.cov.get("part_b", {}).get("samples", [])
        pb = ctx.cov.get("part_b", {}).get("stats", {})
        ctx.cov["traces_validated_against_impl"] = pb.get("mode_runs", 0)
        ctx.cov["ops_executed"] = pb.get("ops", 0)
    elif not proof_ok and not ctx.violations:
        ctx.violation("proof obligation no longer checks: %s" % ctx.broken, {"broken": ctx.broken}, no_input=True)
    ctx.assumptions = [
        "part A: theorems are about the tables of coq/gen/FfiEnums.v; the translator harness/xlate (syn) is trusted for what it extracts, "
        "cross-checked on every run: rustc accepts one wildcard-free match per Rust enum over the translator's leaf list (no leaf missing, none duplicated), "
        "and every row is executed on a copy of the current ffi source (into_c_int + iox2_*_string)",
        "the probe copy differs from /repo/iceoryx2-ffi/c/src only by `mod verif_probe; pub use verif_probe::*;` appended to api/mod.rs (trait IntoCInt is private)",
        "opaque (non-enum) payloads are one leaf each; is_error = Rust enum name ends in Error/Failure",
        "part B is NOT a proof: there is no Coq model of pub-sub/event yet; it is translation validation between the two APIs (the Rust API run is the reference), "
        "on generated programs only; both participants of a mixed run live in one process",
    ]


if __name__ == "__main__":
    sys.exit(vlib.main(run, "C18"))
