#!/usr/bin/env python3
"""C10 -- port registry snapshots (mpmc::Container): never torn, never ghost, eventually exact."""
import os, re, sys
sys.path.insert(0, os.path.dirname(os.path.dirname(os.path.abspath(__file__))))
import vlib
from vlib import VERIF

# model pc constructors (coq/extract/C10.v c10_pc_tag); every one must be exercised by the tie
PCS = ["Idle", "AddLoadIgen", "AddScan", "AddFinal", "IncLoad", "IncCas", "AddDist0", "AddLoadGen", "AddCasGen", "AddDist1",
       "AddWrite", "AddIncGen", "AddIncChange", "AddDist1b", "AddRetCell", "RemLoadGen", "RemDist2", "RemCasCell", "RemCasGen",
       "RemIncChange", "RecDist2", "RecLoadCell", "RecPDist0", "RecLoadGen", "RecPDist1", "RecRead", "RecValidate", "RecCasCell",
       "RecSDist0", "RecCasGen", "RecEnd", "RecIncChange", "UpdDist0", "UpdLoadGen", "UpdDist1", "UpdCopy", "UpdValidate"]

# genuine defect of /repo recorded as a known finding (matched against known_findings.json by key): the owner dies
# inside remove() after index_set.release and before the generation CAS.  (The sibling defect -- recover() of an owner
# that died inside add() made the even generation odd -- was repaired in /repo by 4d1fc1a; its schedules A<id>k1..9,x1
# are part of the enumerated programs and must pass.)
KEY_CRASHED_REMOVE = "container:crashed-remove-leaves-entry"
WHAT_CRASHED_REMOVE = ("an owner that died inside Container::remove() between index_set.release and the generation CAS leaves its "
                       "entry listed for ever: recover() does not find the (already released) index")


def classify(line):
    """key, text for an oracle failure line of the driver.  The key is given ONLY when the driver classed the execution as
    window-orphan: the only failures of that execution are 'a removed entry is still listed' for an entry whose remove() was
    abandoned and whose slot the (trace-equal) model has in `orph`, i.e. abandoned between the index release and the generation
    CAS; and, redundantly, every abandoned remove of the program performed at least the 4 accesses up to the release."""
    m = re.search(r"class=([\w-]+)", line)
    cls = m.group(1) if m else "none"
    if cls == "window-orphan" and re.search(r" (ghost|exact): .*(whose removal completed|although its removal completed)", line):
        hdr = re.search(r"header=\[(\d+) (\S+)", line)
        ks = [int(k) for k in re.findall(r"R\d+k(\d+)", hdr.group(2))] if hdr else []
        if ks and all(k >= 4 for k in ks):
            return KEY_CRASHED_REMOVE, WHAT_CRASHED_REMOVE
    return None, None


def run(ctx):
    proof_ok = vlib.proof_stage(ctx)
    ok, out = vlib.ocaml_driver("C10")
    if not ok:
        ctx.violation("extracted model / OCaml driver does not build", {"log": out}, no_input=True)
        return
    ok, out, tdir = vlib.g1_build(["c10"])
    if not ok:
        ctx.violation("G1 harness does not build against /repo with the instrumented atomics drop-in", {"log": out[-3000:]}, no_input=True)
        return
    exe = os.path.join(tdir, "c10")
    driver = os.path.join(VERIF, "ocaml", "c10", "driver")
    thorough = ctx.thorough()
    bound = 3 if thorough else 2
    pset = "1" if thorough else "0"
    maxex = "4000" if thorough else "1200"
    rc, plist = vlib.sh([exe, "progs", pset], timeout=60)
    nprog = len([l for l in plist.split("\n") if re.match(r"^\d+ \d+ ", l)])
    nsh = max(1, nprog)          # one program per job: the pool balances them
    jobs = []
    for i in range(nsh):
        jobs.append(("exh:%d" % i, [exe, "exh", str(bound), str(i), str(nsh), str(ctx.seed), maxex, pset]))
    nr = 6000 if thorough else 600
    for i in range(16):
        jobs.append(("rnd:%d" % i, [exe, "rnd", str(nr), str(i), "16", str(ctx.seed)]))
    r = vlib.run_pipelines(jobs, driver)
    ctx.cov.update({
        "evaluations": r["cases"], "distinct_nontrivial": r["distinct_nontrivial"],
        "traces_validated_against_impl": r["cases"], "accesses_compared": r["ops"],
        "programs": nprog,
        "rule": "every schedule with <= %d preemptions (at most %s per program, depth-first from the non-preemptive one) of %d programs: "
                "1..2 writers doing add / remove / recover with slot reuse (and calls abandoned after k accesses = owner died inside "
                "add / remove, then recovered) against 1..2 readers calling update_state 1..3 times, capacities 1..3; plus %d seeded random "
                "schedules of random longer programs.  Each execution of the REAL Container<Pay> under the baton scheduler is compared access "
                "by access (location bijection, kind, both orderings, value read / written, CAS outcome, every return value incl. the listed "
                "snapshot, final fresh snapshot and len()) with the Coq step model run on the same schedule; the oracle (no torn / no ghost / "
                "notice / exact at quiescence w.r.t. the real-time order of the implementation's own log) runs on every execution. "
                "distinct = distinct event traces with at least one store / successful CAS" % (bound, maxex, nprog, nr),
        "exhaustive": False,
    })
    pcs = {PCS[int(k[2:])]: v for k, v in r["opcount"].items() if k.startswith("pc") and int(k[2:]) < len(PCS)}
    ctx.cov["model_pc_exercised"] = pcs
    never = [p for p in PCS if p != "Idle" and pcs.get(p, 0) == 0]
    smp = vlib.extract_case(jobs[0][1], driver, 3)
    ctx.cov["samples"] = [{"job": jobs[0][0], "execution": smp[:60]}]
    for lbl, cmd, rc_, tail in r["failed_jobs"]:
        ctx.violation("correspondence job failed (harness or driver crashed): " + lbl, {"cmd": cmd, "rc": rc_, "tail": tail}, no_input=True)
    spec_mm = [m for m in r["mismatch_lines"] if "kind=spec" in m[2]]
    model_mm = [m for m in r["mismatch_lines"] if "kind=model" in m[2]]
    ctx.cov["oracle_failures_by_class"] = {}
    seen = set()
    for lbl, cmd, line in spec_mm:
        m = re.search(r"class=([\w-]+)", line)
        cls = m.group(1) if m else "none"
        ctx.cov["oracle_failures_by_class"][cls] = ctx.cov["oracle_failures_by_class"].get(cls, 0) + 1
        key, what = classify(line)
        if (key or "none") in seen:
            continue
        seen.add(key or "none")
        case_no = int(line.split("case=")[1].split()[0])
        hist = vlib.extract_case(cmd.split(), driver, case_no)
        hdr = hist[0].split() if hist else []
        sline = [h for h in hist if h.startswith("S ")]
        replay = "%s one %s '%s' '%s' | %s" % (exe, hdr[1] if len(hdr) > 2 else "?", hdr[2] if len(hdr) > 2 else "?", sline[0][2:] if sline else "", driver)
        ctx.violation((what + ": " if what else "registry snapshot property violated by the implementation under a concrete schedule: ") + line,
                      {"execution": hist, "harness_cmd": cmd, "how_to_rerun": replay}, key=key)
    if r["mismatches_spec"] + r["mismatches_model"] > len(r["mismatch_lines"]) and not [m for m in spec_mm if classify(m[2])[0] is None] and not model_mm:
        ctx.violation("more mismatches (%d) than the %d lines kept by the pipeline and none of the kept ones is unkeyed: cannot exclude a masked failure"
                      % (r["mismatches_spec"] + r["mismatches_model"], len(r["mismatch_lines"])), {"kept": [m[2] for m in r["mismatch_lines"][:5]]}, no_input=True)
    if model_mm and not [m for m in spec_mm if classify(m[2])[0] is None]:
        lbl, cmd, line = model_mm[0]
        case_no = int(line.split("case=")[1].split()[0])
        hist = vlib.extract_case(cmd.split(), driver, case_no)
        ctx.violation("trace correspondence model<->implementation broken (first diverging access below); "
                      "no schedule violating the snapshot properties of a crash-free program found among those explored: " + line,
                      {"obligation": "G1 trace equality between model/Container.v (theorems c10_*) and mpmc::Container",
                       "first_divergence": line, "execution": hist, "harness_cmd": cmd, "other_divergences": [m[2] for m in model_mm[1:6]]}, no_input=True)
    if never and not model_mm:
        ctx.violation("model pc constructors never exercised by the tie: %s" % ", ".join(never), {"never": never}, no_input=True)
    # real-thread soak with self-checking payloads: search component only
    soak_ms = 20000 if thorough else 3000
    srep = []
    for cap, nw, nrd in [(1, 2, 2), (2, 2, 2), (3, 3, 2)]:
        rc_, out = vlib.sh([exe, "soak", str(soak_ms), str(cap), str(nw), str(nrd), str(ctx.seed)], timeout=soak_ms / 1000 + 120)
        lines = [l for l in out.split("\n") if l.startswith("SOAK")]
        srep.extend(lines[-3:])
        bad = [l for l in lines if l.startswith("SOAK-VIOLATION")]
        if bad or rc_ != 0 or not lines:
            ctx.violation("real-thread soak (cap %d, %d writers, %d readers): %s" % (cap, nw, nrd, bad[0] if bad else "run failed rc=%s" % rc_),
                          {"cmd": "%s soak %d %d %d %d %d" % (exe, soak_ms, cap, nw, nrd, ctx.seed), "output": out[-1500:]})
    ctx.cov["soak"] = srep
    if not proof_ok and not ctx.violations:
        ctx.violation("proof obligation no longer checks: %s" % ctx.broken, {"broken": ctx.broken}, no_input=True)
    ctx.assumptions = [
        "sequentially consistent interleaving at access granularity (weak-memory behaviours are not exhibited by the model; the memory ordering of every access site is pinned by the trace comparison)",
        "a payload is written / copied in one step (under the gate the memcpy after UnsafeCell::get runs before the next gated access); torn multi-word copies are searched only by the real-thread soak",
        "2^64 wrap-around of the generation / change counters not modelled (unbounded N); ReleaseMode::Default only (no locking of the index set)",
        "API contract assumed by the theorems: a handle is removed at most once, recover(owner) only after the owner stopped using the container (modelled: the recovering thread is the owner's own thread); a call abandoned inside add / remove is followed by recover(owner, predicate true)",
        "tie = trace equality on the explored schedules; the gate (cargo paths override of iceoryx2-pal-concurrency-sync) is generated from /repo's current source",
    ]


if __name__ == "__main__":
    sys.exit(vlib.main(run, "C10"))
