#!/usr/bin/env python3
"""C12 -- blackboard reads are atomic and monotone; one writer at a time."""
import os, re, sys
sys.path.insert(0, os.path.dirname(os.path.dirname(os.path.abspath(__file__))))
import vlib
from vlib import VERIF

SIZES = [1, 2, 3, 9, 65, 129]
# every access site of the step model (model/SeqLock.v) and both outcomes of the two CAS sites
REQUIRED = ["site_1", "site_2", "site_10", "site_11", "site_12", "site_20", "site_21", "site_22", "site_30", "site_31",
            "site_1_ok", "site_1_fail", "site_31_ok", "site_31_fail"] + ["cell_copy_size_%d" % n for n in SIZES]


def classify(line):
    """stable key of a property violation seen on the implementation's own observations"""
    for pat, key in (("not in one piece", "seqlock:torn-load"), ("never published", "seqlock:torn-load"),
                     ("already published when the load started", "seqlock:stale-load"), ("went back", "seqlock:load-went-back"),
                     ("while thread", "seqlock:two-producers"), ("although no producer exists", "seqlock:acquire-fails-when-free"),
                     ("final write_cell", "seqlock:lost-update"), ("final value", "seqlock:lost-update"), ("panicked", "seqlock:panic")):
        if pat in line:
            return key
    return "c12:other"


def run(ctx):
    proof_ok = vlib.proof_stage(ctx)
    ok, out = vlib.ocaml_driver("C12")
    if not ok:
        ctx.violation("extracted model / OCaml driver does not build", {"log": out}, no_input=True)
        return
    ok, out, tdir = vlib.g1_build(["c12"])
    if not ok:
        ctx.violation("G1 harness does not build against /repo with the instrumented atomics drop-in", {"log": out[-3000:]}, no_input=True)
        return
    exe = os.path.join(tdir, "c12")
    driver = os.path.join(VERIF, "ocaml", "c12", "driver")
    thorough = ctx.thorough()
    bound = 3 if thorough else 2
    nsh = 16
    # regression executions of past findings first
    corpus(ctx, exe, driver)
    jobs = []
    for i in range(nsh):
        # complete enumeration to 2 preemptions; thorough adds the 3-preemption enumeration, stopped after 200 executions per program
        jobs.append(("exh2:%d" % i, [exe, "exh", "2", str(i), str(nsh), str(ctx.seed), "200000", "rot"]))
        if thorough:
            jobs.append(("exh3:%d" % i, [exe, "exh", "3", str(i), str(nsh), str(ctx.seed), "200", "rot"]))
    nr = 4000 if thorough else 800
    for i in range(8):
        jobs.append(("rnd:%d" % i, [exe, "rnd", str(nr), str(i), "8", str(ctx.seed)]))
    # weak-memory correspondence: the real UnrestrictedAtomic run with injected C11-permitted stale values of
    # write_cell against the release/acquire view model (SeqLockRA.v)
    nra = 24000 if thorough else 2400
    for i in range(8):
        jobs.append(("ras:%d" % i, [exe, "ras", str(nra), str(i), "8", str(ctx.seed), "50"]))
    ctx.log("proofs + builds done; running %d G1 jobs" % len(jobs))
    r = vlib.run_pipelines(jobs, driver, timeout=3000 if thorough else 1500)
    ctx.log("G1 done: %d executions, %d accesses" % (r["cases"], r["ops"]))
    ctx.cov.update({
        "evaluations": r["cases"], "distinct_nontrivial": r["distinct_nontrivial"],
        "traces_validated_against_impl": r["cases"], "accesses_compared": r["ops"],
        "model_branches_exercised": dict(sorted(r["extra"].items())),
        "rule": "G1: every schedule with <= %d preemptions of each program (writer with 1..3 updates through store / the two-step loan path / "
                "discarded loans, x 1..2 readers with 1..2 loads, plus producer hand-over and losing acquire_producer programs; value sizes %s: %s), "
                "plus seeded random schedules of longer programs (3..8 updates, 1..2 readers with 2..5 loads, random size). Each execution of the REAL "
                "UnrestrictedAtomic<V<N>> under the baton scheduler is compared access by access (location bijection, kind, both orderings, values, CAS "
                "outcome, every return value incl. a hash of the loaded bytes, final write_cell and value) with the Coq step model run on the same schedule; "
                "the oracle (kind=spec) checks the implementation's own observations: every loaded value is well formed (payload self-check) and is one "
                "of the published values, not older than the newest one published when the load started, per reader never older than before, "
                "one producer at a time, final state = last update. distinct = distinct event traces; non-trivial = at least one store/successful CAS"
                % (2, "1,2,3,9,65,129", "two of the six per program, rotating (all six covered)"
                   + ("; thorough adds the enumeration to 3 preemptions, stopped after 200 executions per program" if thorough else "")),
        "exhaustive": False,
        "weak_memory_correspondence": {
            "rule": "seeded random programs (writer with 3..8 updates through store / loan / discarded loan, 1..2 readers with 2..5 loads, random value size) and schedules of the REAL UnrestrictedAtomic in which "
                    "the value returned by a reader's load or failed compare-exchange of write_cell is replaced, with probability 1/2, by an older value not older than what the thread has seen "
                    "(sched::stale_enable); the driver lets the view model (SeqLockRA.v, code ordering table) choose its staleness oracle from the observed value and compares every access, every return "
                    "value (hash of the loaded bytes) and the final state; the property oracle runs on the implementation's observations",
            "executions": nra, "stale_values_injected": r["extra"].get("stale_values_injected", 0),
            "executions_with_stale_value": r["extra"].get("executions_with_stale_value", 0)},
    })
    smp = vlib.extract_case(jobs[0][1], driver, 3)
    ctx.cov["samples"] = [{"job": jobs[0][0], "execution": smp[:40]}]
    for lbl, cmd, rc, tail in r["failed_jobs"]:
        ctx.violation("correspondence job failed (harness or driver crashed): " + lbl, {"cmd": cmd, "rc": rc, "tail": tail}, no_input=True)
    spec_mm = [m for m in r["mismatch_lines"] if "kind=spec" in m[2]]
    model_mm = [m for m in r["mismatch_lines"] if "kind=model" in m[2]]
    seen_keys = set()
    for lbl, cmd, line in spec_mm:
        key = classify(line)
        if key in seen_keys:
            continue
        seen_keys.add(key)
        case_no = int(line.split("case=")[1].split()[0])
        hist = vlib.extract_case(cmd.split(), driver, case_no)
        hdr = hist[0].split() if hist else []
        sline = [h for h in hist if h.startswith("S ")]
        rerun = "%s one %s '%s' %s | %s" % (exe, hdr[1] if len(hdr) > 2 else "<size>", hdr[2] if len(hdr) > 2 else "<program>", sline[0][2:] if sline else "<schedule>", driver)
        ctx.violation("sequence-lock property violated by the implementation under a concrete schedule: " + line,
                      {"execution": hist, "harness_cmd": cmd, "how_to_rerun": rerun}, key=key)
    if model_mm and not spec_mm:
        lbl, cmd, line = model_mm[0]
        case_no = int(line.split("case=")[1].split()[0])
        hist = vlib.extract_case(cmd.split(), driver, case_no)
        ctx.violation("trace correspondence model<->implementation broken (first diverging access below); "
                      "no schedule violating the property found among those explored: " + line,
                      {"obligation": "G1 trace equality between model/SeqLock.v `step` (theorems c12_*) and UnrestrictedAtomic",
                       "first_divergence": line, "execution": hist, "harness_cmd": cmd, "other_divergences": [m[2] for m in model_mm[1:6]]}, no_input=True)
    # happens-before analysis of the observed traces (driver: vector clocks over the compared events)
    hbw = sorted((v, k[len("hbwitness:"):]) for k, v in r["extra"].items() if k.startswith("hbwitness:"))
    hb = {k: v for k, v in r["extra"].items() if k.startswith("hb_")}
    for k in [k for k in r["extra"] if k.startswith("hbwitness:")]:
        del ctx.cov["model_branches_exercised"][k]
    ctx.cov["happens_before_analysis"] = {
        "rule": "C11 release/acquire happens-before (vector clocks, release sequences through RMWs) over every compared execution, with the "
                "memory orderings observed in the trace: is each plain write of a data cell ordered after the plain reads / writes of that cell by other threads? "
                "Reported as a violation: an unordered VALIDATED read (fixed in /repo by 0bff03d, fetch_add AcqRel; must stay 0), an unordered publication. "
                "NOT reported: a lapped reader's copy (discarded / still in flight when the writer re-uses the cell) -- the generic sequence-lock caveat, c12_no_racy_read_refuted",
        "counters": dict(sorted(hb.items()))}
    if hb.get("hb_read_unordered_with_cell_write", 0) or hb.get("hb_cell_write_unordered_with_cell_write", 0):
        ctx.violation("a cell copy is not ordered after the write that published it / two cell writes are unordered", {"counters": hb}, key="seqlock:publish-not-ordered")
    if hb.get("hb_cell_write_unordered_with_validated_read", 0):
        n, prog, sch = (hbw[0][1].split(":") + ["", "", ""])[:3] if hbw else ("", "", "")
        ctx.violation(
            "memory ordering: a VALIDATED load's copy of a cell is not ordered (C11 happens-before) before the writer's next write into that cell: "
            "the reader's validating CAS(w,w,AcqRel) releases, but the writer does not acquire (store / __internal_update_write_cell: fetch_add must be AcqRel) -- a data race on the cell; on hardware that lets the later plain write pass the earlier "
            "release RMW (ARMv8 allows it) the validated value can be a mixture (regression of the repair 0bff03d?). %d of %d analysed executions; shortest: size %s program %s schedule %s"
            % (hb.get("hb_executions_with_unordered_validated_read", 0), hb.get("hb_executions_analysed", 0), n, prog, sch),
            {"counters": hb, "size": n, "program": prog, "schedule": sch,
             "how_to_rerun": "%s one %s '%s' %s | %s   (EXTRA hb_* lines)" % (exe, n, prog, sch, driver),
             "anchors": ["iceoryx2-bb/lock-free/src/spmc/unrestricted_atomic.rs: the three write_cell.fetch_add(1, ..) (store, Producer::__internal_update_write_cell, UnrestrictedAtomicMgmt::__internal_update_write_cell) must acquire (AcqRel since 0bff03d); load() validates with compare_exchange(w, w, AcqRel, SeqCst)"]},
            key="seqlock:validated-read-unordered-with-cell-reuse")
    # ---- the table of memory orderings the view-model theorem (c12_slra_atomic_monotone_used_race_free) is stated for
    SLCODE = ["acq", "acqrel", "sc", "acqrel"]
    allsites = {}
    for kind_sites in r.get("sites", {}).values():
        for site, vals in kind_sites.items():
            allsites.setdefault(site, set()).update(vals)
    def col(sites_, idx):
        return sorted({v[idx] for s_ in sites_ for v in allsites.get(s_, ())})
    scols = [col(["30"], 1), col(["31"], 1), col(["31"], 2), col(["12", "22"], 1)]
    ctx.cov["observed_ordering_table_seqlock"] = scols
    if all(scols):
        if any(len(c_) != 1 for c_ in scols):
            ctx.violation("memory-ordering table of the sequence lock could not be observed unambiguously (e.g. the fetch_adds of store and of the loan path differ)", {"observed": scols}, no_input=True)
        else:
            table = [c_[0] for c_ in scols]
            if table != SLCODE:
                rc, out = vlib.sh("%s slra %s < /dev/null" % (driver, " ".join(table)), timeout=600)
                wit = [l for l in out.split("\n") if l.startswith("SLRAWITNESS")]
                if wit:
                    ctx.violation("sequence lock: memory orderings %s differ from the proved table %s; under release/acquire semantics the view model has an execution with a racy USED access: %s" % (table, SLCODE, wit[0]),
                                  {"observed_orderings(load,cas,cas_fail,fetch_add)": table, "model_witness": wit[0],
                                   "note": "schedule entries are thread:staleness; replay = run model/SeqLockRA.v sstep with these orderings on this schedule (coq: used_race_after)",
                                   "how_to_rerun": "%s slra %s" % (driver, " ".join(table))})
                else:
                    ctx.violation("sequence lock: memory orderings %s differ from the table of theorem c12_slra_atomic_monotone_used_race_free; no failing execution found in the view model for them" % table,
                                  {"obligation": "c12_slra_atomic_monotone_used_race_free is stated for sl_ords_code only", "observed": table}, no_input=True)
    missing = [k for k in REQUIRED if r["extra"].get(k, 0) == 0]
    if missing and not r["failed_jobs"]:
        ctx.violation("model branches never exercised by the tie (it says nothing about them): %s" % ",".join(missing), {"missing": missing}, no_input=True)

    # real threads, no gate: the only place where the reader's raw copy really overlaps a store
    ms = 600 if thorough else 200
    stress = []
    # plus runs in which the writer acquires and drops the producer handle around every update
    # (sizes 129 / 4096 / 65536: long copies that several complete updates fit into)
    for n, churn in [(n, "") for n in SIZES] + [(129, "churn"), (4096, "churn"), (65536, "churn")]:
        rc, out = vlib.sh([exe, "stress", str(n), str(ms), "2"] + ([churn] if churn else []), timeout=120)
        m = re.search(r"STRESS size=(\d+) readers=(\d+) stores=(\d+) loads=(\d+) loads_overlapping_a_store=(\d+) torn=(\d+) stale_or_future=(\d+) went_back=(\d+)", out)
        if rc != 0 or not m:
            ctx.violation("stress run failed for size %d" % n, {"rc": rc, "out": out[-800:]}, no_input=True)
            continue
        d = dict(zip(["size", "readers", "stores", "loads", "loads_overlapping_a_store", "torn", "stale_or_future", "went_back"], map(int, m.groups())))
        d["handle_per_update"] = bool(churn)
        stress.append(d)
        for fld, key in (("torn", "seqlock:torn-load"), ("stale_or_future", "seqlock:stale-load"), ("went_back", "seqlock:load-went-back")):
            if d[fld]:
                ctx.violation("real-thread run: %d loads %s (size %d)" % (d[fld], fld, n), {"stress": d, "how_to_rerun": "%s stress %d %d 2 %s" % (exe, n, ms, churn)}, key=key)
    ctx.cov["real_thread_runs"] = {"rule": "ungated: 1 writer (store / loan alternating; also with the producer handle acquired and dropped around every update, sizes up to 64 KiB) || 2 readers for %d ms per size; every loaded value self-checked "
                                           "(well formed, was current at some instant of the load, per reader never older)" % ms, "runs": stress}

    ctx.log("real-thread runs done")
    g3(ctx)
    ctx.log("G3 done")

    if not proof_ok and not ctx.violations:
        ctx.violation("proof obligation no longer checks: %s" % ctx.broken, {"broken": ctx.broken}, no_input=True)
    ctx.assumptions = [
        "sequentially consistent interleaving, at byte granularity for the value copies (weak-memory behaviours are not exhibited by the model; the memory ordering of every access site is pinned by the trace comparison)",
        "fewer than 2^64 updates of one entry (u64 write_cell does not wrap): explicit hypothesis `lenN (written g) < W64` of every theorem",
        "the reader's raw copy is not a gated access (load() reaches the cells through data.as_ptr(), not UnsafeCell::get): in the G1 tie it happens in the scheduler step of the preceding write_cell access; the coarse model is proved to be a projection of the byte-granular one; real overlap of copies only in the ungated real-thread runs",
        "a lapped reader's plain read races the writer's plain write of the same cell (c12_no_racy_read_refuted): the bytes are discarded by the validation; the generic sequence-lock caveat (formally a data race in the Rust memory model), not observable through the API, counted by the happens-before analysis but not reported as a violation",
        "weak memory is not modelled in Coq: the C11 happens-before analysis of the compared traces (with the observed orderings) stands in for it; it found the missing writer-side acquire repaired by 0bff03d",
        "tie = trace equality on the explored schedules; the gate (cargo paths override of iceoryx2-pal-concurrency-sync) is generated from /repo's current source",
    ]


def corpus(ctx, exe, driver):
    """corpus/C12/*.json: executions that exhibited a (since repaired) finding; each must now match the model, satisfy
    the oracle and show no unordered validated read"""
    import glob, json, shlex
    n = 0
    for f in sorted(glob.glob(os.path.join(VERIF, "corpus", "C12", "*.json"))):
        d = json.load(open(f))
        cmd = " ".join(shlex.quote(a) for a in [exe] + d["harness_args"]) + " 2>/dev/null | " + driver
        rc, out = vlib.sh("set -o pipefail; " + cmd, timeout=300)
        n += 1
        m = re.search(r"SUMMARY cases=(\d+) ops=(\d+) mismatches_model=(\d+) mismatches_spec=(\d+)", out)
        bad = re.search(r"EXTRA hb_cell_write_unordered_with_validated_read (\d+)", out)
        if rc != 0 or not m or int(m.group(1)) != 1:
            ctx.violation("corpus execution %s could not be replayed" % d["id"], {"cmd": cmd, "rc": rc, "out": out[-800:]}, no_input=True)
        elif bad or int(m.group(4)):
            ctx.violation("regression: corpus execution %s fails again: %s" % (d["id"], d["what"]),
                          {"how_to_rerun": cmd, "out": [l for l in out.split("\n") if l.startswith(("MISMATCH", "EXTRA hb_"))]},
                          key="seqlock:validated-read-unordered-with-cell-reuse")
        elif int(m.group(3)):
            ctx.violation("corpus execution %s: trace no longer matches the model" % d["id"],
                          {"how_to_rerun": cmd, "out": [l for l in out.split("\n") if l.startswith("MISMATCH")]}, no_input=True)
    ctx.cov["corpus_executions_replayed"] = n


def g3(ctx):
    """API level: at most one Writer per service, at most one EntryHandleMut per key (sequential histories
    through the real iceoryx2 blackboard API against model/Blackboard.v)."""
    pkg = os.path.join(VERIF, "harness", "g3", "c12")
    if not os.path.isdir(pkg):
        ctx.notes.append("G3 blackboard part not present")
        return
    ok, out, tdir = vlib.cargo_build("g3", bins=["c12"])
    if not ok:
        ctx.violation("G3 harness does not build against /repo", {"log": out[-3000:]}, no_input=True)
        return
    exe = os.path.join(tdir, "c12")
    driver = os.path.join(VERIF, "ocaml", "c12", "driver") + " g3"
    thorough = ctx.thorough()
    nsh = 8
    jobs = []
    for i in range(nsh):
        jobs.append(("g3exh:local:%d" % i, [exe, "exh", "6" if thorough else "5", str(i), str(nsh), str(ctx.seed), "local"]))
        jobs.append(("g3exh:ipc:%d" % i, [exe, "exh", "4", str(i), str(nsh), str(ctx.seed), "ipc"]))
        jobs.append(("g3rnd:%d" % i, [exe, "rnd", "500" if thorough else "250", str(i), str(nsh), str(ctx.seed), "both"]))
    r = vlib.run_pipelines(jobs, driver, timeout=3000 if thorough else 1500)
    ctx.cov["g3_blackboard"] = {
        "evaluations": r["cases"], "ops": r["ops"], "distinct_nontrivial": r["distinct_nontrivial"], "opcount": r["opcount"],
        "branches": dict(sorted(r["extra"].items())),
        "rule": "sequential histories (exhaustive to a length bound + seeded random) of writer/reader/entry-handle creation, drops, updates, loans "
                "and gets through the REAL iceoryx2 blackboard API, compared op by op with model/Blackboard.v; oracle on the implementation's own "
                "observations: at most one Writer, at most one EntryHandleMut per key, a failed creation does not disturb the first holder",
    }
    vlib.sh("rm -rf /dev/shm/verif-c12-* /dev/shm/c12_*")   # left behind only by a harness killed by a timeout
    for lbl, cmd, rc, tail in r["failed_jobs"]:
        ctx.violation("G3 job failed (harness or driver crashed): " + lbl, {"cmd": cmd, "rc": rc, "tail": tail}, no_input=True)
    spec_mm = [m for m in r["mismatch_lines"] if "kind=spec" in m[2]]
    model_mm = [m for m in r["mismatch_lines"] if "kind=model" in m[2]]
    seen = set()
    for lbl, cmd, line in spec_mm:
        mo = re.search(r"line=\[O (\w+)", line)
        ms = re.search(r"spec=([\w-]+)", line)
        key = "blackboard:%s:%s" % (mo.group(1) if mo else "?", ms.group(1) if ms else "?")
        if key in seen:
            continue
        seen.add(key)
        case_no = int(line.split("case=")[1].split()[0])
        hist = vlib.extract_case(cmd.split(), driver, case_no)
        ctx.violation("writer / write-handle uniqueness violated by the implementation on a concrete history: " + line,
                      {"history": hist, "harness_cmd": cmd}, key=key)
    if model_mm and not spec_mm:
        lbl, cmd, line = model_mm[0]
        case_no = int(line.split("case=")[1].split()[0])
        hist = vlib.extract_case(cmd.split(), driver, case_no)
        ctx.violation("correspondence model/Blackboard.v <-> iceoryx2 blackboard API broken; no history violating the property found: " + line,
                      {"first_divergence": line, "history": hist, "harness_cmd": cmd, "other_divergences": [m[2] for m in model_mm[1:6]]}, no_input=True)


if __name__ == "__main__":
    sys.exit(vlib.main(run, "C12"))
