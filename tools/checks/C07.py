#!/usr/bin/env python3
"""C07 -- liveness verdicts are sound and stale cleanup is exclusive (process_state.rs).

Tie (G2): REAL processes (harness/g2/c07 `psh`: ProcessGuard / ProcessMonitor / ProcessCleaner of
iceoryx2-bb-posix) are driven one gated libc call at a time through libgate; every execution is
replayed on the extracted Coq step model (ocaml/c07/driver) with the same schedule and must
produce the same call (role, flags/mode, result, errno, descriptor number) at every step, the
same operation results and the same final directory listing.  The oracle (kind=spec) judges the
implementation's own verdicts.

usage: ./check C07 quick|thorough        python3 tools/checks/C07.py --replay <replay.json>
"""
import concurrent.futures as cf
import json
import os
import shutil
import subprocess
import sys
import time

sys.path.insert(0, os.path.dirname(os.path.dirname(os.path.abspath(__file__))))
import vlib
import gatectl
from vlib import VERIF

NOBODY = 65534
TMPROOT = "/var/tmp/verif-c07-%d" % os.getpid()
DRIVER = os.path.join(VERIF, "ocaml", "c07", "driver")
NLC = 1            # model parameter nlink_check: 1 = process_state.rs since fix a8f7c5d (F3 repaired)

ROLE = {"st": "state", "st_context": "ctx", "st_owner_lock": "owner"}


def canon(call, dirpath):
    """gate Call -> 'role call args result errno' in the driver's canonical syntax"""
    if call.path == dirpath:
        role = "dir"
    else:
        role = ROLE.get(os.path.basename(call.path), "other:" + os.path.basename(call.path))
    res = call.result if call.result is not None else "?"
    if call.call in ("stat", "fstat") and res.startswith("0:"):
        kv = dict(x.split("=") for x in res[2:].split(","))
        if role == "dir":
            res = "0"
        else:
            res = "0:mode=0%o,nlink=%s" % (int(kv["mode"], 8) & 0o7777, kv["nlink"])
    if call.call == "fcntl" and res.startswith("0:"):
        res = ":".join(res.split(":")[:2])
    return "%s %s %s %s %s" % (role, call.call, call.argstr, res, call.errno if call.errno is not None else "?")


class Scenario:
    """procs: [(name, [commands])]; prelude: [(name, n)] = run the first n commands of `name` to
    completion, in this order, before the race starts; kills: {name: k} = SIGKILL before its k-th
    gated call (k from 0); priv: run as root (CAP_DAC_OVERRIDE) instead of `nobody`"""

    def __init__(self, name, procs, prelude=(), kills=None, priv=False, bound=2, oracle="", max_execs=100000, after=()):
        self.name, self.procs, self.prelude, self.kills = name, procs, list(prelude), dict(kills or {})
        self.priv, self.bound, self.oracle, self.max_execs = priv, bound, oracle, max_execs
        self.after = list(after)      # [(name, n)]: commands run sequentially after the race (n more commands of name)

    def header(self, tag):
        idx = {n: i for i, (n, _) in enumerate(self.procs)}
        kills = ["-"] * len(self.procs)
        for n, k in self.kills.items():
            kills[idx[n]] = str(k)
        h = "C %s priv=%d nlc=%d progs=%s kills=%s" % (tag, 1 if self.priv else 0, NLC,
                                                       "|".join(",".join(c) for _, c in self.procs), ",".join(kills))
        if self.oracle:
            h += " oracle=" + self.oracle
        return h

    def to_json(self):
        return {"name": self.name, "procs": self.procs, "prelude": self.prelude, "kills": self.kills, "priv": self.priv,
                "bound": self.bound, "oracle": self.oracle, "after": self.after}

    @staticmethod
    def from_json(d):
        return Scenario(d["name"], [(n, list(c)) for n, c in d["procs"]], [tuple(x) for x in d.get("prelude", [])], d.get("kills"),
                        d.get("priv", False), d.get("bound", 2), d.get("oracle", ""), after=[tuple(x) for x in d.get("after", [])])


def run_execution(sc, chooser, bindir, workdir, tag):
    """one fresh execution of the scenario on the real binaries; returns (case text lines, choices)"""
    root = os.path.join(workdir, "root")
    if os.path.exists(root):
        shutil.rmtree(root)
    os.makedirs(root)
    os.chmod(root, 0o777)
    d = os.path.join(root, "nodes")
    os.makedirs(d)
    os.chmod(d, 0o777)
    st = os.path.join(d, "st")
    user = None if sc.priv else NOBODY
    idx = {n: i for i, (n, _) in enumerate(sc.procs)}
    lines = [sc.header(tag)]
    sent = {n: 0 for n, _ in sc.procs}
    seen_r = {n: 0 for n, _ in sc.procs}
    ncalls = {n: 0 for n, _ in sc.procs}
    killed = set()
    choices = []
    with gatectl.Controller(root, sock_dir=workdir, timeout=30.0) as ctl:
        procs = {}
        for n, cmds in sc.procs:
            procs[n] = ctl.spawn(n, [os.path.join(bindir, "psh"), st], user=user)

        exited = set()

        def flush_r():
            for n, p in procs.items():
                if p.exited is not None and n not in killed and n not in exited:
                    for _ in range(200):
                        if p.stdout_eof:
                            break
                        ctl._pump(0.01)
                    exited.add(n)
                    pending_exit.append(n)
            for n, p in procs.items():
                rs = p.results()
                while seen_r[n] < len(rs):
                    f = rs[seen_r[n]].split(" ")
                    lines.append("R %d %s %s" % (idx[n], f[1], f[2] if len(f) > 2 else "ok"))
                    seen_r[n] += 1
            while pending_exit:
                lines.append("K %d" % idx[pending_exit.pop(0)])     # `exit` command: the process left without dropping

        pending_exit = []

        def do_step(n):
            """one gated call of n, or its kill if this is its kill point"""
            if sc.kills.get(n) == ncalls[n] and n not in killed:
                ctl.kill(n)
                killed.add(n)
                lines.append("K %d" % idx[n])
                return
            c, r, e = ctl.step(n)
            ncalls[n] += 1
            lines.append("E %d %s" % (idx[n], canon(c, d)))

        def send(n, k):
            cmds = dict(sc.procs)[n]
            for c in cmds[sent[n]:sent[n] + k]:
                if n not in killed:
                    procs[n].send(c)
            sent[n] += k

        def run_seq(n):
            while True:
                ctl.settle([n], gatectl.r_idle)
                flush_r()
                if n not in ctl.pending():
                    return
                do_step(n)

        for n, k in sc.prelude:
            send(n, k)
            run_seq(n)
        held_back = {n: k for n, k in sc.after}
        for n, cmds in sc.procs:
            send(n, len(cmds) - sent[n] - held_back.get(n, 0))
        last = None
        for _ in range(100000):
            ctl.settle(None, gatectl.r_idle)
            flush_r()
            enabled = sorted(ctl.pending())
            if not enabled:
                break
            pick = chooser(enabled, last)
            choices.append(pick)
            do_step(pick)
            last = pick
        for n, k in sc.after:
            send(n, k)
            run_seq(n)
        ctl.settle(None, gatectl.r_idle)
        flush_r()
        listing = []
        for f in sorted(os.listdir(d)):
            listing.append("%s:0%o" % (ROLE.get(f, "other:" + f), os.stat(os.path.join(d, f)).st_mode & 0o7777))
        lines.append("F " + ",".join(sorted(listing)))
    return lines, choices


def run_driver(text):
    p = subprocess.run(["timeout", "600", DRIVER], input=text, stdout=subprocess.PIPE, stderr=subprocess.STDOUT, text=True)
    return p.returncode, p.stdout


def explore_scenario(sc, bindir, workdir):
    """all schedules of the race phase up to the preemption bound; returns dict with results"""
    os.makedirs(workdir, exist_ok=True)
    os.chmod(workdir, 0o777)
    blocks = []
    schedules = []
    t0 = time.time()

    def one(chooser):
        lines, choices = run_execution(sc, chooser, bindir, workdir, "%s#%d" % (sc.name, len(blocks)))
        return lines

    err = None
    try:
        for lines, choices in gatectl.explore(one, sc.bound, sc.max_execs):
            blocks.append(lines)
            schedules.append(choices)
    except Exception as ex:      # a broken execution must not hide the others
        import traceback
        err = "%r\n%s" % (ex, traceback.format_exc()[-1500:])
    text = "\n".join("\n".join(b) for b in blocks) + "\n"
    rc, out = run_driver(text) if blocks else (0, "SUMMARY cases=0 ops=0 mismatches_model=0 mismatches_spec=0 distinct_nontrivial=0\n")
    shutil.rmtree(workdir, ignore_errors=True)
    return {"scenario": sc, "blocks": blocks, "schedules": schedules, "driver_rc": rc, "driver_out": out, "error": err,
            "wall": time.time() - t0}


def scenarios(thorough):
    S = []
    for priv in (False, True):
        u = "root" if priv else "user"
        b = 3 if thorough else 2
        # monitor vs every step of guard creation / of the orderly drop (all gate pairs)
        S.append(Scenario("mon-vs-create-" + u, [("g", ["create"]), ("m", ["state"])], priv=priv, bound=b))
        S.append(Scenario("mon-vs-drop-" + u, [("g", ["create", "drop"]), ("m", ["state"])], prelude=[("g", 1)], priv=priv, bound=b))
        # a cleaner racing the orderly drop / the creation of a live process: must never win
        S.append(Scenario("clean-vs-drop-" + u, [("g", ["create", "drop"]), ("c", ["clean", "cdrop"])], prelude=[("g", 1)], priv=priv, bound=2))
        S.append(Scenario("clean-vs-create-" + u, [("g", ["create"]), ("c", ["clean", "cdrop"])], priv=priv, bound=1))
        # 2..4 cleaners racing for a dead process and holding what they get: exactly one wins
        for n in (2, 3, 4):
            S.append(Scenario("race%d-hold-%s" % (n, u), [("g", ["create", "exit"])] + [("c%d" % i, ["clean"]) for i in range(n)],
                              prelude=[("g", 2)], priv=priv, bound=2 if n < 4 else 1, oracle="onewinner",
                              max_execs=100000 if thorough else (400 if n == 2 else 250)))
        # two cleaners, the winner cleans up and drops while the other is still trying
        S.append(Scenario("race2-drop-" + u, [("g", ["create", "exit"]), ("c0", ["clean", "cdrop"]), ("c1", ["clean", "cdrop"])],
                          prelude=[("g", 2)], priv=priv, bound=2, max_execs=100000 if thorough else 500))
        # winner abandons (node cleanup failure path): the other may re-acquire
        S.append(Scenario("race2-abandon-" + u, [("g", ["create", "exit"]), ("c0", ["clean", "cabandon"]), ("c1", ["clean", "cdrop"])],
                          prelude=[("g", 2)], priv=priv, bound=1))
    return S


def kill_sweeps(priv):
    """kill the guard / the winning cleaner before each of its gated calls; afterwards a fresh process
    runs state, clean, cdrop, state one after the other"""
    u = "root" if priv else "user"
    S = []
    for k in range(0, 21):
        S.append(Scenario("kill-guard@%d-%s" % (k, u), [("g", ["create", "drop"]), ("x", ["state", "clean", "cdrop", "state"])],
                          prelude=[("g", 2)], kills={"g": k}, priv=priv, bound=0, oracle="collectable", after=[("x", 4)]))
    ncl = 24 if not priv else 26
    for k in range(0, ncl):
        S.append(Scenario("kill-cleaner@%d-%s" % (k, u),
                          [("g", ["create", "exit"]), ("c", ["clean", "cdrop"]), ("x", ["state", "clean", "cdrop", "state"])],
                          prelude=[("g", 2), ("c", 2)], kills={"c": k}, priv=priv, bound=0, oracle="collectable", after=[("x", 4)]))
    return S


def witnesses():
    """schedules found by exploring the MODEL (ocaml/c07/driver explore ...), replayed on the real code"""
    W = []
    # F3 (repaired in /repo by a8f7c5d): the former shortest schedule with state() = Dead while the guard process is
    # alive is kept as a regression schedule; it must now yield CleaningUp
    f3 = ["g"] * 1 + ["m"] * 8 + ["g"] * 2 + ["m"] * 2
    W.append((Scenario("F3-regression-user", [("g", ["create", "drop"]), ("m", ["state"])], prelude=[("g", 1)], priv=False, bound=0), f3))
    f3r = ["g"] * 1 + ["m"] * 10 + ["g"] * 2 + ["m"] * 2
    W.append((Scenario("F3-regression-root", [("g", ["create", "drop"]), ("m", ["state"])], prelude=[("g", 1)], priv=True, bound=0), f3r))
    # N4: a process owning the cleaner calls state() itself: releases its own owner lock
    W.append((Scenario("N4-own-state-releases-cleaner-lock", [("g", ["create", "exit"]), ("p1", ["clean", "state"]), ("p2", ["clean"])],
                       prelude=[("g", 2), ("p1", 2)], priv=False, bound=0), []))
    # N1: second winner on the unlinked owner_lock after the first winner finished its cleanup
    n1 = ["c0"] * 14 + ["c1"] * 6 + ["c0"] * 2 + ["c1"] * 7 + ["c0"] * 5 + ["c1"] * 2
    W.append((Scenario("N1-second-winner", [("g", ["create", "exit"]), ("c0", ["clean", "cdrop"]), ("c1", ["clean", "cdrop"])],
                       prelude=[("g", 2)], priv=False, bound=0), n1))
    return W


VIOLATION_KEYS = {
    "F3": ("procstate:dead-verdict-in-shutdown-window",
           "ProcessMonitor::state() returns Dead for a process that is alive and merely inside its orderly ProcessGuard drop "
           "(monitor opened the state file, guard removed + closed it, monitor's F_GETLK sees no lock)"),
    "TWO-OWNERS": ("procstate:own-state-query-releases-cleaner-lock",
                   "two processes own a ProcessCleaner for the same path at the same time (the first owner called state() in-process, "
                   "closing a second owner_lock descriptor drops its fcntl lock; PROCESS_STATE_TRACKING has no entry for a cleaner)"),
    "SECOND-WINNER": ("procstate:second-cleaner-on-unlinked-owner-lock",
                      "a second ProcessCleaner::new returns Ok (on the already unlinked owner_lock) after the first winner completed its cleanup"),
    "UNCOLLECTABLE-CLEANINGUP": ("procstate:crash-inside-drop-leaves-uncollectable-residue",
                                 "a guard or cleaner killed inside StateFiles::drop after remove(state) leaves context(+owner_lock): state() = CleaningUp "
                                 "and ProcessCleaner::new = ProcessIsBeingCleanedUpOrCrashedDuringCleanup for ever, the residue is uncollectable"),
    "RECLAIM": ("procstate:cleaner-acquired-on-live-process", "ProcessCleaner::new returned Ok while the guarded process is alive"),
    "NEW": ("procstate:wrong-verdict", "a liveness verdict contradicts the property"),
    "ONEWINNER": ("procstate:not-exactly-one-winner", "racing cleaners on a dead process: not exactly one returned Ok"),
}


def classify(line):
    for k in ("F3", "TWO-OWNERS", "SECOND-WINNER", "UNCOLLECTABLE-CLEANINGUP", "UNCOLLECTABLE-STARTING", "RECLAIM", "NEW"):
        if "class=" + k in line:
            return k
    if "racing cleaners" in line:
        return "ONEWINNER"
    return "NEW"


def block_of(res, case_no):
    b = res["blocks"]
    return b[case_no - 1] if 0 < case_no <= len(b) else []


def replay_obj(res, case_no, line):
    sc = res["scenario"]
    sched = res["schedules"][case_no - 1] if 0 < case_no <= len(res["schedules"]) else []
    return {"scenario": sc.to_json(), "schedule": sched, "mismatch": line, "execution": block_of(res, case_no),
            "how_to_rerun": "python3 /verif/tools/checks/C07.py --replay <this file>   (re-runs the REAL binaries through libgate with this schedule "
                            "and replays the trace on the model)"}


def run(ctx):
    if getattr(ctx, "replay", None):
        return do_replay(ctx.replay)
    proof_ok = vlib.proof_stage(ctx)
    ok, out = vlib.ocaml_driver("C07")
    if not ok:
        ctx.violation("extracted model / OCaml driver does not build", {"log": out}, no_input=True)
        return
    try:
        gatectl.build()
    except Exception as ex:
        ctx.violation("libgate does not build", {"log": repr(ex)}, no_input=True)
        return
    ok, out, tdir = vlib.cargo_build("g2", bins=["psh", "guard", "monitor", "cleaner"])
    if not ok:
        ctx.violation("G2 harness does not build against /repo", {"log": out[-3000:]}, no_input=True)
        return
    os.makedirs(TMPROOT, exist_ok=True)
    os.chmod(TMPROOT, 0o777)
    try:
        run_tie(ctx, tdir, proof_ok)
    finally:
        shutil.rmtree(TMPROOT, ignore_errors=True)


def run_tie(ctx, tdir, proof_ok):
    S = scenarios(ctx.thorough())
    for priv in (False, True):
        S += kill_sweeps(priv)
    jobs = [(sc, None) for sc in S] + [(sc, sched) for sc, sched in witnesses()]
    results = []

    def work(i_job):
        i, (sc, sched) = i_job
        wd = os.path.join(TMPROOT, "w%d" % i)
        if sched is None:
            return explore_scenario(sc, tdir, wd)
        # scripted witness: single execution
        os.makedirs(wd, exist_ok=True)
        os.chmod(wd, 0o777)
        t0 = time.time()
        err = None
        blocks, schedules = [], []
        try:
            lines, choices = run_execution(sc, gatectl.scripted(sched), tdir, wd, sc.name)
            blocks.append(lines)
            schedules.append(choices)
        except Exception as ex:
            err = repr(ex)
        rc, out = run_driver("\n".join(blocks[0]) + "\n") if blocks else (1, "")
        shutil.rmtree(wd, ignore_errors=True)
        return {"scenario": sc, "blocks": blocks, "schedules": schedules, "driver_rc": rc, "driver_out": out, "error": err, "wall": time.time() - t0}

    with cf.ThreadPoolExecutor(max_workers=max(4, vlib.NPROC)) as ex:
        results = list(ex.map(work, list(enumerate(jobs))))

    tot = {"cases": 0, "ops": 0, "mismatches_model": 0, "mismatches_spec": 0, "distinct_nontrivial": 0}
    opcount = {}
    per_scn = {}
    model_mm, spec_mm, notes = [], [], []
    for res in results:
        sc = res["scenario"]
        if res["error"]:
            ctx.violation("execution machinery failed in scenario %s: %s" % (sc.name, res["error"][:300]),
                          {"scenario": sc.to_json(), "error": res["error"], "executions_done": len(res["blocks"])}, no_input=True)
        got = False
        for line in res["driver_out"].split("\n"):
            if line.startswith("SUMMARY"):
                got = True
                for kv in line.split()[1:]:
                    k, v = kv.split("=")
                    tot[k] = tot.get(k, 0) + int(v)
                    if k == "cases":
                        per_scn[sc.name] = int(v)
            elif line.startswith("OPCOUNT"):
                _, k, v = line.split()
                opcount[k] = opcount.get(k, 0) + int(v)
            elif line.startswith("MISMATCH"):
                case_no = int(line.split("case=")[1].split()[0])
                (model_mm if "kind=model" in line else spec_mm).append((res, case_no, line))
        if not got and not res["error"]:
            ctx.violation("model driver failed in scenario %s" % sc.name, {"scenario": sc.to_json(), "tail": res["driver_out"][-800:]}, no_input=True)

    seen_keys = set()
    for res, case_no, line in spec_mm:
        cls = classify(line)
        if cls == "UNCOLLECTABLE-STARTING":
            notes.append(line)
            continue
        key, what = VIOLATION_KEYS[cls]
        if key in seen_keys:
            continue
        seen_keys.add(key)
        ctx.violation(what + " -- " + line.split("] ", 1)[-1], replay_obj(res, case_no, line), key=key)
    if model_mm:
        res, case_no, line = model_mm[0]
        ctx.violation("trace correspondence model<->implementation broken (first diverging call below): " + line,
                      dict(replay_obj(res, case_no, line), obligation="G2 trace equality between model/ProcState.v (theorems c07_*) and process_state.rs",
                           other_divergences=[m[2] for m in model_mm[1:8]]), no_input=not spec_mm)
    if not proof_ok and not ctx.violations:
        ctx.violation("proof obligation no longer checks: %s" % ctx.broken, {"broken": ctx.broken}, no_input=True)

    starting_notes = len(notes)
    ctx.cov.update({
        "evaluations": tot["cases"], "distinct_nontrivial": tot["distinct_nontrivial"],
        "traces_validated_against_impl": tot["cases"], "calls_compared": tot["ops"],
        "executions_per_scenario": per_scn,
        "opcount": opcount,
        "rule": "REAL processes (psh: ProcessGuard/ProcessMonitor/ProcessCleaner of iceoryx2-bb-posix) stepped one gated libc call at a time through "
                "libgate, as user nobody and as root (CAP_DAC_OVERRIDE changes which opens succeed); every schedule with <= bound preemptions of: monitor "
                "vs guard creation, monitor vs orderly drop (all gate pairs), cleaner vs creation/drop of a LIVE process, 2..4 racing cleaners on a dead process "
                "(holding / dropping / abandoning); kill of the guard before each of its 21 gated calls and of the winning cleaner before each of its calls, "
                "each followed by state, clean, cdrop, state of a fresh process; plus the model-found witnesses (F3, N1, N4). Each execution is replayed on the "
                "extracted Coq step model under the same schedule: every call (role, flags, mode, result, errno, descriptor number), every operation result and "
                "the final directory listing must agree; the oracle judges the implementation's own verdicts.",
        "exhaustive": False,
        "crash-in-creation residue (Starting for ever, files leak, cal reports DoesNotExist)": starting_notes,
    })
    smp = [r for r in results if r["scenario"].name.startswith("F3-regression-user") and r["blocks"]]
    ctx.cov["samples"] = [{"scenario": "F3-regression-user", "execution": smp[0]["blocks"][0]}] if smp else []
    ctx.assumptions = [
        "kernel atomicity of each libc call and POSIX record-lock semantics as modelled in coq/model/Fs.v (a lock is released when the owner closes ANY descriptor of the file, or dies)",
        "one user (nobody) or root; no umask effects, EINTR, ENOSPC, signals; the monitoring directory exists (Directory::create is not modelled)",
        "tie = trace equality on the explored schedules (preemption-bounded) of real processes; the libgate shim, gatectl.py and the OCaml driver are trusted",
        "ProcessGuard::abandon (testing API) is not modelled; the in-process tracker is modelled for create/state/clean/drop of one path",
    ]
    slow = sorted(results, key=lambda r: -r["wall"])[:3]
    ctx.log("executions: %d, calls compared: %d, model mismatches: %d, spec mismatches: %d; slowest scenarios: %s" % (
        tot["cases"], tot["ops"], tot["mismatches_model"], tot["mismatches_spec"], ", ".join("%s %.0fs" % (r["scenario"].name, r["wall"]) for r in slow)))


def do_replay(path):
    d = json.load(open(path))
    sc = Scenario.from_json(d["scenario"])
    gatectl.build()
    ok, out, tdir = vlib.cargo_build("g2", bins=["psh"])
    if not ok:
        print(out[-2000:])
        return
    wd = os.path.join(TMPROOT, "replay")
    os.makedirs(wd, exist_ok=True)
    os.chmod(TMPROOT, 0o777)
    os.chmod(wd, 0o777)
    try:
        lines, choices = run_execution(sc, gatectl.scripted(d.get("schedule", [])), tdir, wd, sc.name)
        print("\n".join(lines))
        rc, out = run_driver("\n".join(lines) + "\n")
        print(out)
    finally:
        shutil.rmtree(TMPROOT, ignore_errors=True)


if __name__ == "__main__":
    sys.exit(vlib.main(run, "C07"))
