#!/usr/bin/env python3
"""C07 -- liveness verdicts are sound and stale cleanup is exclusive (process_state.rs).

Tie (G2): REAL processes (harness/g2/c07 `psh`: ProcessGuard / ProcessMonitor / ProcessCleaner of
iceoryx2-bb-posix) are driven one gated libc call at a time through libgate; every execution is
replayed on the extracted Coq step model (ocaml/c07/driver) with the same schedule and must
produce the same call (role, flags/mode, result, errno, descriptor number) at every step, the
same operation results and the same final directory listing.  The oracle (kind=spec) judges the
implementation's own verdicts.

usage: ./check C07 quick|thorough        python3 tools/checks/C07.py --replay <replay.json>
"""
import concurrent.futures as cf
import json
import os
import shutil
import subprocess
import sys
import time

sys.path.insert(0, os.path.dirname(os.path.dirname(os.path.abspath(__file__))))
import vlib
import gatectl
from vlib import VERIF

NOBODY = 65534
TMPROOT = "/var/tmp/verif-c07-%d" % os.getpid()
DRIVER = os.path.join(VERIF, "ocaml", "c07", "driver")
NLC = 1            # model parameter nlink_check: 1 = process_state.rs since fix a8f7c5d (F3 repaired)

ROLE = {"st": "state", "st_context": "ctx", "st_owner_lock": "owner"}


def canon(call, dirpath):
    """gate Call -> 'role call args result errno' in the driver's canonical syntax"""
    if call.path == dirpath:
        role = "dir"
    else:
        role = ROLE.get(os.path.basename(call.path), "other:" + os.path.basename(call.path))
    res = call.result if call.result is not None else "?"
    if call.call in ("stat", "fstat") and res.startswith("0:"):
        kv = dict(x.split("=") for x in res[2:].split(","))
        if role == "dir":
            res = "0"
        else:
            res = "0:mode=0%o,nlink=%s" % (int(kv["mode"], 8) & 0o7777, kv["nlink"])
    if call.call == "fcntl" and res.startswith("0:"):
        res = ":".join(res.split(":")[:2])
    return "%s %s %s %s %s" % (role, call.call, call.argstr, res, call.errno if call.errno is not None else "?")


class Scenario:
    """procs: [(name, [commands])]; prelude: [(name, n)] = run the first n commands of `name` to
    completion, in this order, before the race starts; kills: {name: k} = SIGKILL before its k-th
    gated call (k from 0); priv: run as root (CAP_DAC_OVERRIDE) instead of `nobody`"""

    def __init__(self, name, procs, prelude=(), kills=None, priv=False, bound=2, oracle="", max_execs=100000, after=(), snapshot=False):
        self.name, self.procs, self.prelude, self.kills = name, procs, list(prelude), dict(kills or {})
        self.priv, self.bound, self.oracle, self.max_execs = priv, bound, oracle, max_execs
        self.after = list(after)      # [(name, n)]: commands run sequentially after the race (n more commands of name)
        # snapshot: the prelude must be exactly [(g, all its commands)] ending in the death of g.  It is executed by a REAL
        # process once per worker; the residue it leaves (three files, no lock, modes, content) is then restored by copy for
        # every further execution instead of creating and killing one more process each time (process creation dominates)
        self.snapshot = snapshot

    def header(self, tag):
        idx = {n: i for i, (n, _) in enumerate(self.procs)}
        kills = ["-"] * len(self.procs)
        for n, k in self.kills.items():
            kills[idx[n]] = str(k)
        h = "C %s priv=%d nlc=%d progs=%s kills=%s" % (tag, 1 if self.priv else 0, NLC,
                                                       "|".join(",".join(c) for _, c in self.procs), ",".join(kills))
        if self.oracle:
            h += " oracle=" + self.oracle
        return h

    def to_json(self):
        return {"name": self.name, "procs": self.procs, "prelude": self.prelude, "kills": self.kills, "priv": self.priv,
                "bound": self.bound, "oracle": self.oracle, "after": self.after, "snapshot": False}

    @staticmethod
    def from_json(d):
        return Scenario(d["name"], [(n, list(c)) for n, c in d["procs"]], [tuple(x) for x in d.get("prelude", [])], d.get("kills"),
                        d.get("priv", False), d.get("bound", 2), d.get("oracle", ""), after=[tuple(x) for x in d.get("after", [])])


POOLS = []
ABORT = [False]


class Pool:
    """long-lived gated psh processes of one worker: process creation is by far the most expensive
    part of an execution, so a process is reused for the next execution (new state-file path, all
    descriptors closed, nothing held) unless it was killed or exited"""

    def __init__(self, bindir, workdir, priv):
        self.bindir, self.workdir, self.priv = bindir, workdir, priv
        os.makedirs(workdir, exist_ok=True)
        os.chmod(workdir, 0o777)
        self.root = os.path.join(workdir, "root-" + ("p" if priv else "u"))
        if os.path.exists(self.root):
            shutil.rmtree(self.root)
        os.makedirs(self.root)
        os.chmod(self.root, 0o777)
        self.ctl = gatectl.Controller(self.root, sock_dir=workdir, timeout=60.0)
        self.live = {}
        self.nspawn = 0
        self.nexec = 0
        self.snaps = {}           # prelude key -> (directory with the residue, recorded lines)
        POOLS.append(self)

    def get(self, lname):
        p = self.live.get(lname)
        if p is not None and p.exited is None and p.popen.poll() is None:
            return p
        self.nspawn += 1
        p = self.ctl.spawn("%s#%d" % (lname, self.nspawn), [os.path.join(self.bindir, "psh"), os.path.join(self.root, "unused")],
                           user=None if self.priv else NOBODY)
        self.live[lname] = p
        return p

    def close(self):
        try:
            self.ctl.close()
        finally:
            self.live = {}


def run_execution(sc, chooser, pool, tag):
    """one execution of the scenario on the real binaries (fresh directory, processes with nothing
    open or held); returns (case text lines, choices)"""
    ctl = pool.ctl
    pool.nexec += 1
    d = os.path.join(pool.root, "n%d" % pool.nexec)
    os.makedirs(d)
    os.chmod(d, 0o777)
    st = os.path.join(d, "st")
    idx = {n: i for i, (n, _) in enumerate(sc.procs)}
    lines = [sc.header(tag)]
    sent = {n: 0 for n, _ in sc.procs}
    ncalls = {n: 0 for n, _ in sc.procs}
    killed = set()
    exited = set()
    pending_exit = []
    choices = []
    if ABORT[0]:
        raise RuntimeError("aborted")
    procs = {}
    snap_key = None
    snap = None
    if sc.snapshot:
        snap_key = json.dumps([sc.procs[0], sc.prelude, sc.kills.get(sc.procs[0][0])])
        snap = pool.snaps.get(snap_key)
    skip = set()
    if snap is not None:
        sdir, slines = snap
        for f in os.listdir(sdir):
            shutil.copy2(os.path.join(sdir, f), os.path.join(d, f))
            if not pool.priv:
                os.chown(os.path.join(d, f), NOBODY, NOBODY)
        lines.extend(slines)
        skip.add(sc.procs[0][0])
        killed.add(sc.procs[0][0])
    for n, cmds in sc.procs:
        if n in skip:
            continue
        p = pool.get(n)
        procs[n] = p
        p.send("path " + st)
    names = [p.name for p in procs.values()]
    ctl.settle(names, gatectl.r_idle)
    seen_r = {n: len(p.results()) for n, p in procs.items()}

    def flush_r():
        for n, p in procs.items():
            if p.exited is not None and n not in killed and n not in exited:
                for _ in range(200):
                    if p.stdout_eof:
                        break
                    ctl._pump(0.01)
                exited.add(n)
                pending_exit.append(n)
        for n, p in procs.items():
            rs = p.results()
            while seen_r[n] < len(rs):
                f = rs[seen_r[n]].split(" ")
                lines.append("R %d %s %s" % (idx[n], f[1], f[2] if len(f) > 2 else "ok"))
                seen_r[n] += 1
        while pending_exit:
            lines.append("K %d" % idx[pending_exit.pop(0)])     # `exit` command: the process left without dropping

    def do_step(n):
        """one gated call of n, or its kill if this is its kill point"""
        if sc.kills.get(n) == ncalls[n] and n not in killed:
            ctl.kill(procs[n])
            killed.add(n)
            lines.append("K %d" % idx[n])
            return
        c, r, e = ctl.step(procs[n])
        ncalls[n] += 1
        lines.append("E %d %s" % (idx[n], canon(c, d)))

    def send(n, k):
        cmds = dict(sc.procs)[n]
        for c in cmds[sent[n]:sent[n] + k]:
            if n in procs and n not in killed and procs[n].exited is None:
                procs[n].send(c)
        sent[n] += k

    def pending_names():
        pend = ctl.pending()
        return sorted(n for n, p in procs.items() if p.name in pend)

    def run_seq(n):
        while True:
            ctl.settle([procs[n]], gatectl.r_idle)
            flush_r()
            if n not in pending_names():
                return
            do_step(n)

    for n, k in sc.prelude:
        if n in skip:
            sent[n] += k
            continue
        send(n, k)
        run_seq(n)
    if sc.snapshot and snap is None:
        flush_r()
        sdir = os.path.join(pool.workdir, "snap-%s-%d" % ("p" if pool.priv else "u", len(pool.snaps)))
        shutil.rmtree(sdir, ignore_errors=True)
        os.makedirs(sdir)
        for f in os.listdir(d):
            shutil.copy2(os.path.join(d, f), os.path.join(sdir, f))
        pool.snaps[snap_key] = (sdir, lines[1:])
    held_back = {n: k for n, k in sc.after}
    for n, cmds in sc.procs:
        if n not in skip:
            send(n, len(cmds) - sent[n] - held_back.get(n, 0))
    last = None
    for _ in range(100000):
        ctl.settle(names, gatectl.r_idle)
        flush_r()
        enabled = pending_names()
        if not enabled:
            break
        pick = chooser(enabled, last)
        choices.append(pick)
        do_step(pick)
        last = pick
    for n, k in sc.after:
        send(n, k)
        run_seq(n)
    ctl.settle(names, gatectl.r_idle)
    flush_r()
    listing = []
    for f in sorted(os.listdir(d)):
        listing.append("%s:0%o" % (ROLE.get(f, "other:" + f), os.stat(os.path.join(d, f)).st_mode & 0o7777))
    lines.append("F " + ",".join(sorted(listing)))
    # reset the surviving processes for the next execution: drop whatever they still hold (unrecorded)
    for n, p in procs.items():
        if p.exited is None and n not in killed:
            p.send("cdrop")
            p.send("drop")
            for _ in range(1000):
                ctl.settle([p], gatectl.r_idle)
                if p.name not in ctl.pending():
                    break
                ctl.step(p)
    shutil.rmtree(d, ignore_errors=True)
    return lines, choices


def run_driver(text):
    p = subprocess.run(["timeout", "600", DRIVER], input=text, stdout=subprocess.PIPE, stderr=subprocess.STDOUT, text=True)
    return p.returncode, p.stdout


def explore_scenario(sc, bindir, workdir, sched=None, shared=None):
    """all schedules of the race phase up to the preemption bound (or the one scripted schedule);
    returns dict with results"""
    blocks = []
    schedules = []
    t0 = time.time()
    state = shared if shared is not None else {"pool": None}

    def one(chooser):
        if state["pool"] is not None and state["pool"].priv != sc.priv:
            state["pool"].close()
            state["pool"] = None
        if state["pool"] is None:
            state["pool"] = Pool(bindir, workdir, sc.priv)
        try:
            lines, choices = run_execution(sc, chooser, state["pool"], "%s#%d" % (sc.name, len(blocks)))
        except Exception:
            state["pool"].close()       # unknown state: never reuse these processes
            state["pool"] = None
            raise
        return lines

    err = None
    try:
        if sched is not None:
            log = []

            def ch(enabled, last, _c=gatectl.scripted(sched)):
                c = _c(enabled, last)
                log.append(c)
                return c
            blocks.append(one(ch))
            schedules.append(log)
        else:
            for lines, choices in gatectl.explore(one, sc.bound, sc.max_execs):
                blocks.append(lines)
                schedules.append(choices)
    except Exception as ex:      # a broken execution must not hide the others
        import traceback
        err = "%r\n%s" % (ex, traceback.format_exc()[-1500:])
    finally:
        spawned = state["pool"].nspawn if state["pool"] is not None else 0
        if shared is None and state["pool"] is not None:
            state["pool"].close()
    text = "\n".join("\n".join(b) for b in blocks) + "\n"
    rc, out = run_driver(text) if blocks else (0, "SUMMARY cases=0 ops=0 mismatches_model=0 mismatches_spec=0 distinct_nontrivial=0\n")
    if shared is None:
        shutil.rmtree(workdir, ignore_errors=True)
    return {"scenario": sc, "blocks": blocks, "schedules": schedules, "driver_rc": rc, "driver_out": out, "error": err,
            "wall": time.time() - t0, "spawned": spawned}


def run_group(group, bindir, workdir):
    """scenarios of one group share a pool of processes (same uid)"""
    shared = {"pool": None}
    out = []
    try:
        for sc, sched in group:
            if ABORT[0]:
                break
            out.append(explore_scenario(sc, bindir, workdir, sched, shared))
    finally:
        if shared["pool"] is not None:
            shared["pool"].close()
        shutil.rmtree(workdir, ignore_errors=True)
    return out


def scenarios(thorough):
    S = []
    for priv in (False, True):
        u = "root" if priv else "user"
        b = 3 if thorough else 2
        # monitor vs every step of guard creation / of the orderly drop (all gate pairs)
        S.append(Scenario("mon-vs-create-" + u, [("g", ["create"]), ("m", ["state"])], priv=priv, bound=b))
        S.append(Scenario("mon-vs-drop-" + u, [("g", ["create", "drop"]), ("m", ["state"])], prelude=[("g", 1)], priv=priv, bound=b))
        # a cleaner racing the orderly drop / the creation of a live process: must never win
        S.append(Scenario("clean-vs-drop-" + u, [("g", ["create", "drop"]), ("c", ["clean", "cdrop"])], prelude=[("g", 1)], priv=priv, bound=2))
        S.append(Scenario("clean-vs-create-" + u, [("g", ["create"]), ("c", ["clean", "cdrop"])], priv=priv, bound=2 if thorough else 1))
        # 2..4 cleaners racing for a dead process and holding what they get: exactly one wins
        for n in (2, 3, 4):
            S.append(Scenario("race%d-hold-%s" % (n, u), [("g", ["create", "exit"])] + [("c%d" % i, ["clean"]) for i in range(n)],
                              prelude=[("g", 2)], priv=priv, bound=(2 if n == 2 else 1) + (1 if thorough else 0), oracle="onewinner", snapshot=True,
                              max_execs=600 if thorough else {2: 100, 3: 80, 4: 60}[n]))   # thorough sized to ~20 min for the whole tier
        # two cleaners, the winner cleans up and drops while the other is still trying
        S.append(Scenario("race2-drop-" + u, [("g", ["create", "exit"]), ("c0", ["clean", "cdrop"]), ("c1", ["clean", "cdrop"])],
                          prelude=[("g", 2)], priv=priv, bound=2, snapshot=True, max_execs=1500 if thorough else 150))
        # a third party queries while a cleaner holds the resources: CleaningUp, the three files exist
        S.append(Scenario("hold-vs-monitor-" + u, [("g", ["create", "exit"]), ("c", ["clean"]), ("m", ["state"])],
                          prelude=[("g", 2), ("c", 1)], priv=priv, bound=0))
        # winner abandons (node cleanup failure path): the other may re-acquire
        S.append(Scenario("race2-abandon-" + u, [("g", ["create", "exit"]), ("c0", ["clean", "cabandon"]), ("c1", ["clean", "cdrop"])],
                          prelude=[("g", 2)], priv=priv, bound=2 if thorough else 1, snapshot=True))
    return S


def kill_sweeps(priv):
    """kill the guard / the winning cleaner before each of its gated calls; afterwards a fresh process
    runs state, clean, cdrop, state one after the other"""
    u = "root" if priv else "user"
    G, K = [], []
    for k in range(0, 21):
        G.append(Scenario("kill-guard@%d-%s" % (k, u), [("g", ["create", "drop"]), ("x", ["state", "clean", "cdrop", "state"])],
                          prelude=[("g", 2)], kills={"g": k}, priv=priv, bound=0, oracle="collectable", after=[("x", 4)]))
    ncl = 25 if not priv else 27
    for k in range(0, ncl):
        K.append(Scenario("kill-cleaner@%d-%s" % (k, u),
                          [("g", ["create", "exit"]), ("c", ["clean", "cdrop"]), ("x", ["state", "clean", "cdrop", "state"])],
                          prelude=[("g", 2)], kills={"c": k}, priv=priv, bound=0, oracle="collectable", after=[("x", 4)], snapshot=True))
    return G, K


def witnesses():
    """schedules found by exploring the MODEL (ocaml/c07/driver explore ...), replayed on the real code"""
    W = []
    # F3 (repaired in /repo by a8f7c5d): the former shortest schedule with state() = Dead while the guard process is
    # alive is kept as a regression schedule; it must now yield CleaningUp
    f3 = ["g"] * 1 + ["m"] * 8 + ["g"] * 2 + ["m"] * 2
    W.append((Scenario("F3-regression-user", [("g", ["create", "drop"]), ("m", ["state"])], prelude=[("g", 1)], priv=False, bound=0), f3))
    f3r = ["g"] * 1 + ["m"] * 10 + ["g"] * 2 + ["m"] * 2
    W.append((Scenario("F3-regression-root", [("g", ["create", "drop"]), ("m", ["state"])], prelude=[("g", 1)], priv=True, bound=0), f3r))
    # N4: a process owning the cleaner calls state() itself: releases its own owner lock
    W.append((Scenario("N4-own-state-releases-cleaner-lock", [("g", ["create", "exit"]), ("p1", ["clean", "state"]), ("p2", ["clean"])],
                       prelude=[("g", 2), ("p1", 2)], priv=False, bound=0), []))
    # N1: second winner on the unlinked owner_lock after the first winner finished its cleanup: the schedule is
    # found by exploring the MODEL (breadth first = shortest) and replayed on the real binaries
    rc, out = vlib.sh([DRIVER, "explore", "priv=0", "nlc=%d" % NLC, "progs=create,exit|clean,cdrop|clean,cdrop", "kills=-,-,-", "find=two-oks"], timeout=300)
    calls = [l for l in out.split("\n") if l.startswith("CALLS ")]
    if calls:
        n1 = [{"1": "c0", "2": "c1"}[t] for t in calls[0][6:].split(",") if t != "0"]
        W.append((Scenario("N1-second-winner", [("g", ["create", "exit"]), ("c0", ["clean", "cdrop"]), ("c1", ["clean", "cdrop"])],
                           prelude=[("g", 2)], priv=False, bound=0), n1))
    return W


# Recorded findings.  The driver prints class=N1/N2/N4/F3 ONLY when the exact preconditions of the recorded finding are
# verified on the observed calls of that execution (ocaml/c07/driver.ml, "oracle preconditions"):
#  F3 (fixed a8f7c5d): state() = Dead while the guard process lives AND the monitor's open(state) preceded the guard drop's
#      remove(state) AND the guard drop's close(state) preceded the monitor's F_GETLK(state).
#  N1: ProcessCleaner::new = Ok by B, nobody holding, an earlier winner W that released through cdrop (not abandon / kill)
#      AND B's open(owner_lock) and open(state) preceded W's remove of them AND W's drop close(owner_lock) preceded B's
#      successful F_SETLK(owner_lock).
#  N2: a process was killed inside StateFiles::drop after ITS remove(state) and before ITS remove(context) AND the residue
#      after a survivor's state/clean/cdrop/state round contains context and no state file AND the last verdict is CleaningUp.
#  N4: the process H holding the ProcessCleaner closed an owner_lock descriptor outside its drop/abandon (its own state() /
#      new() query) AND afterwards: H's own query returned != CleaningUp, or another process' F_SETLK(owner_lock) succeeded
#      (two owners), or a third party saw != CleaningUp / removed files while H holds.
#  NOTE-STARTING (part of N2's record, reported as a note): killed inside ProcessGuard creation after creating context and
#      before its final chmod 0400; residue contains ctx:0200; last verdict Starting.
# Every other spec mismatch (class=UNKEYED-...) is reported WITHOUT a key, i.e. it can never match a known finding.
VIOLATION_KEYS = {
    "F3": ("procstate:dead-verdict-in-shutdown-window",
           "ProcessMonitor::state() returns Dead for a process that is alive and merely inside its orderly ProcessGuard drop "
           "(monitor opened the state file, guard removed + closed it, monitor's F_GETLK sees no lock)"),
    "N4": ("procstate:own-state-query-releases-cleaner-lock",
           "the owner of a ProcessCleaner queried state() in-process: closing its second owner_lock descriptor drops its fcntl lock "
           "(PROCESS_STATE_TRACKING has no entry for a cleaner)"),
    "N1": ("procstate:second-cleaner-on-unlinked-owner-lock",
           "a second ProcessCleaner::new returns Ok (on the already unlinked owner_lock) after the first winner completed its cleanup"),
    "N2": ("procstate:crash-inside-drop-leaves-uncollectable-residue",
           "a guard or cleaner killed inside StateFiles::drop after remove(state) leaves context(+owner_lock): state() = CleaningUp "
           "and ProcessCleaner::new = ProcessIsBeingCleanedUpOrCrashedDuringCleanup for ever, the residue is uncollectable"),
}


def classify(line):
    """-> ("key", class) for a recorded finding whose preconditions the driver verified, ("note", ..) or ("unkeyed", class)"""
    m = line.split("class=", 1)
    cls = m[1].split()[0] if len(m) > 1 else "UNKEYED-UNCLASSIFIED"
    if cls in VIOLATION_KEYS:
        return "key", cls
    if cls == "NOTE-STARTING":
        return "note", cls
    return "unkeyed", cls


def oracle_selftest(results):
    """the same symptoms WITHOUT the recorded preconditions (observed executions with one call edited out) must come out
    unkeyed: [(description, expected class, forbidden class, case text)]"""
    def block(prefix):
        for r in results:
            if r["scenario"].name.startswith(prefix) and r["blocks"]:
                return list(r["blocks"][0])
        return None
    tests = []
    b = block("N4-own-state")
    if b:     # two owners although the first owner never queried state(): drop p1's state op
        keep, in_state = [], False
        for l in b:
            f = l.split()
            if f[0] == "R" and f[1] == "1" and f[2] == "clean":
                in_state = True
                keep.append(l)
                continue
            if in_state and f[0] in ("E", "R") and f[1] == "1":
                continue
            keep.append(l)
        keep[0] = keep[0].replace("create,exit|clean,state|clean", "create,exit|clean|clean")
        tests.append(("two owners without the owner's own query", "UNKEYED-TWO-OWNERS", "class=N4", keep))
    b = block("N1-second")
    if b:     # second winner although the first winner never removed owner_lock
        tests.append(("second winner without the first winner's remove(owner_lock)", "UNKEYED-SECOND-WINNER", "class=N1",
                      [l for l in b if not (l.startswith("E 1 owner remove") or l.startswith("E 2 owner remove"))]))
    b = block("kill-guard@14-user")
    if b:     # CleaningUp residue although the killed process had not removed the state file in its drop
        tests.append(("CleaningUp residue without remove(state) by the killed process", "UNKEYED-RESIDUE", "class=N2",
                      [l for l in b if not l.startswith("E 0 state remove")]))
    b = block("hold-vs-monitor-user")
    if b:
        tests.append(("third party sees Dead while a cleaner holds (no own query)", "UNKEYED-VERDICT-UNDER-CLEANER", "class=N4",
                      [l.replace("R 2 state CleaningUp", "R 2 state Dead") for l in b]))
        k = [i for i, l in enumerate(b) if l.startswith("R 2 state")]
        if k:
            tests.append(("a state() query removes a file while a cleaner holds", "UNKEYED-QUERY-MUTATES", "class=N",
                          b[:k[0]] + ["E 2 state remove - 0 0"] + b[k[0]:]))
    bad = []
    for what, want, forbid, lines in tests:
        rc, out = run_driver("\n".join(lines) + "\n")
        spec = [l for l in out.split("\n") if l.startswith("MISMATCH") and "kind=spec" in l]
        if not any("class=" + want in l for l in spec) or any(forbid in l for l in spec):
            bad.append({"variation": what, "expected_class": want, "spec_lines": spec[:5]})
    return len(tests), bad


def block_of(res, case_no):
    b = res["blocks"]
    return b[case_no - 1] if 0 < case_no <= len(b) else []


def replay_obj(res, case_no, line):
    sc = res["scenario"]
    sched = res["schedules"][case_no - 1] if 0 < case_no <= len(res["schedules"]) else []
    return {"scenario": sc.to_json(), "schedule": sched, "mismatch": line, "execution": block_of(res, case_no),
            "how_to_rerun": "python3 /verif/tools/checks/C07.py --replay <this file>   (re-runs the REAL binaries through libgate with this schedule "
                            "and replays the trace on the model)"}


def run(ctx):
    if getattr(ctx, "replay", None):
        return do_replay(ctx.replay)
    proof_ok = vlib.proof_stage(ctx)
    ok, out = vlib.ocaml_driver("C07")
    if not ok:
        ctx.violation("extracted model / OCaml driver does not build", {"log": out}, no_input=True)
        return
    try:
        gatectl.build()
    except Exception as ex:
        ctx.violation("libgate does not build", {"log": repr(ex)}, no_input=True)
        return
    ok, out, tdir = vlib.cargo_build("g2", bins=["psh", "guard", "monitor", "cleaner"])
    if not ok:
        ctx.violation("G2 harness does not build against /repo", {"log": out[-3000:]}, no_input=True)
        return
    os.makedirs(TMPROOT, exist_ok=True)
    os.chmod(TMPROOT, 0o777)
    try:
        run_tie(ctx, tdir, proof_ok)
    finally:
        shutil.rmtree(TMPROOT, ignore_errors=True)


def run_tie(ctx, tdir, proof_ok):
    groups = [[(sc, None)] for sc in scenarios(ctx.thorough())]
    for priv in (False, True):
        G, K = kill_sweeps(priv)
        groups += [[(sc, None) for sc in G[:11]], [(sc, None) for sc in G[11:]], [(sc, None) for sc in K[:13]], [(sc, None) for sc in K[13:]]]
    groups.append(witnesses())
    groups.sort(key=lambda g: -sum(s.max_execs if s.bound else 1 for s, _ in g))    # long ones first

    def work(i_group):
        i, group = i_group
        return run_group(group, tdir, os.path.join(TMPROOT, "w%d" % i))

    with cf.ThreadPoolExecutor(max_workers=max(4, vlib.NPROC)) as ex:
        results = [r for rs in ex.map(work, list(enumerate(groups))) for r in rs]

    tot = {"cases": 0, "ops": 0, "mismatches_model": 0, "mismatches_spec": 0, "distinct_nontrivial": 0}
    opcount = {}
    per_scn = {}
    model_mm, spec_mm, notes = [], [], []
    for res in results:
        sc = res["scenario"]
        if res["error"]:
            ctx.violation("execution machinery failed in scenario %s: %s" % (sc.name, res["error"][:300]),
                          {"scenario": sc.to_json(), "error": res["error"], "executions_done": len(res["blocks"])}, no_input=True)
        got = False
        for line in res["driver_out"].split("\n"):
            if line.startswith("SUMMARY"):
                got = True
                for kv in line.split()[1:]:
                    k, v = kv.split("=")
                    tot[k] = tot.get(k, 0) + int(v)
                    if k == "cases":
                        per_scn[sc.name] = int(v)
            elif line.startswith("OPCOUNT"):
                _, k, v = line.split()
                opcount[k] = opcount.get(k, 0) + int(v)
            elif line.startswith("MISMATCH"):
                case_no = int(line.split("case=")[1].split()[0])
                (model_mm if "kind=model" in line else spec_mm).append((res, case_no, line))
        if not got and not res["error"]:
            ctx.violation("model driver failed in scenario %s" % sc.name, {"scenario": sc.to_json(), "tail": res["driver_out"][-800:]}, no_input=True)

    for res in results:
        if res["scenario"].name.startswith("F3-regression") and res["blocks"]:
            if "R 1 state CleaningUp" not in res["blocks"][0]:
                ctx.violation("F3 regression: the former Dead-while-alive schedule no longer yields CleaningUp on the real binaries",
                              replay_obj(res, 1, "F3 regression"), key="procstate:dead-verdict-in-shutdown-window")
    def prio(m):      # stable choice of the reported witness: dedicated witness scenarios first, then by name
        n = m[0]["scenario"].name
        return (0 if n[:2] in ("N1", "N4", "F3") else 1 if n.startswith("kill-guard@14-user") else 2, n, m[1])
    spec_mm.sort(key=prio)
    seen_keys, seen_unkeyed = set(), set()
    for res, case_no, line in spec_mm:          # ALL spec lines are looked at (no cap); keyed and unkeyed are independent
        kind, cls = classify(line)
        if kind == "note":
            notes.append(line)
        elif kind == "key":
            key, what = VIOLATION_KEYS[cls]
            if key not in seen_keys:
                seen_keys.add(key)
                ctx.violation(what + " -- " + line.split("] ", 1)[-1], replay_obj(res, case_no, line), key=key)
        else:
            tag = (cls, res["scenario"].name.split("@")[0])
            if tag not in seen_unkeyed and len(seen_unkeyed) < 8:
                seen_unkeyed.add(tag)
                ctx.violation("the implementation's observations contradict the property (not a recorded finding): " + line.split("] ", 1)[-1],
                              replay_obj(res, case_no, line), key=None)
    ntests, bad = oracle_selftest(results)
    ctx.cov["oracle_selftest_variations"] = ntests
    if bad or ntests < 5:
        ctx.violation("oracle self-test: a symptom without the recorded preconditions was not reported unkeyed", {"failed": bad, "ran": ntests}, no_input=True)
    if model_mm:
        res, case_no, line = model_mm[0]
        ctx.violation("trace correspondence model<->implementation broken (first diverging call below): " + line,
                      dict(replay_obj(res, case_no, line), obligation="G2 trace equality between model/ProcState.v (theorems c07_*) and process_state.rs",
                           other_divergences=[m[2] for m in model_mm[1:8]]), no_input=not spec_mm)
    if not proof_ok and not ctx.violations:
        ctx.violation("proof obligation no longer checks: %s" % ctx.broken, {"broken": ctx.broken}, no_input=True)

    starting_notes = len(notes)
    ctx.cov.update({
        "evaluations": tot["cases"], "distinct_nontrivial": tot["distinct_nontrivial"],
        "traces_validated_against_impl": tot["cases"], "calls_compared": tot["ops"],
        "executions_per_scenario": per_scn,
        "opcount": opcount,
        "rule": "REAL processes (psh: ProcessGuard/ProcessMonitor/ProcessCleaner of iceoryx2-bb-posix) stepped one gated libc call at a time through "
                "libgate, as user nobody and as root (CAP_DAC_OVERRIDE changes which opens succeed); every schedule with <= bound preemptions of: monitor "
                "vs guard creation, monitor vs orderly drop (all gate pairs), cleaner vs creation/drop of a LIVE process, 2..4 racing cleaners on a dead process "
                "(holding / dropping / abandoning); kill of the guard before each of its 21 gated calls and of the winning cleaner before each of its calls, "
                "each followed by state, clean, cdrop, state of a fresh process; plus the model-found witnesses (F3, N1, N4). Each execution is replayed on the "
                "extracted Coq step model under the same schedule: every call (role, flags, mode, result, errno, descriptor number), every operation result and "
                "the final directory listing must agree; the oracle judges the implementation's own verdicts.",
        "exhaustive": False,
        "crash-in-creation residue (Starting for ever, files leak, cal reports DoesNotExist)": starting_notes,
    })
    smp = [r for r in results if r["scenario"].name.startswith("F3-regression-user") and r["blocks"]]
    ctx.cov["samples"] = [{"scenario": "F3-regression-user", "execution": smp[0]["blocks"][0]}] if smp else []
    ctx.assumptions = [
        "kernel atomicity of each libc call and POSIX record-lock semantics as modelled in coq/model/Fs.v (a lock is released when the owner closes ANY descriptor of the file, or dies)",
        "one user (nobody) or root; no umask effects, EINTR, ENOSPC, signals; the monitoring directory exists (Directory::create is not modelled)",
        "tie = trace equality on the explored schedules (preemption-bounded) of real processes; the libgate shim, gatectl.py and the OCaml driver are trusted",
        "ProcessGuard::abandon (testing API) is not modelled; the in-process tracker is modelled for create/state/clean/drop of one path",
    ]
    slow = sorted(results, key=lambda r: -r["wall"])[:3]
    ctx.log("executions: %d, calls compared: %d, model mismatches: %d, spec mismatches: %d; slowest scenarios: %s" % (
        tot["cases"], tot["ops"], tot["mismatches_model"], tot["mismatches_spec"], ", ".join("%s %.0fs" % (r["scenario"].name, r["wall"]) for r in slow)))


def do_replay(path):
    d = json.load(open(path))
    sc = Scenario.from_json(d["scenario"])
    gatectl.build()
    ok, out, tdir = vlib.cargo_build("g2", bins=["psh"])
    if not ok:
        print(out[-2000:])
        return
    os.makedirs(TMPROOT, exist_ok=True)
    os.chmod(TMPROOT, 0o777)
    try:
        res = explore_scenario(sc, tdir, os.path.join(TMPROOT, "replay"), d.get("schedule", []))
        for b in res["blocks"]:
            print("\n".join(b))
        print(res["driver_out"])
        if res["error"]:
            print(res["error"])
    finally:
        shutil.rmtree(TMPROOT, ignore_errors=True)


def _term(signum, frame):
    # worker threads stop at their next execution; every child is killed now; finally blocks remove the temp root
    ABORT[0] = True
    for p in list(POOLS):
        try:
            p.close()
        except Exception:
            pass
    shutil.rmtree(TMPROOT, ignore_errors=True)
    os._exit(143)


if __name__ == "__main__":
    import signal
    signal.signal(signal.SIGTERM, _term)
    sys.exit(vlib.main(run, "C07"))
