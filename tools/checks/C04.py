#!/usr/bin/env python3
"""C04 -- Crash at any instant: survivor cleanup restores a clean, usable system.

Evidence level: fault_enumeration (+ a small proof part, see tools/claims/C04.json).

For every lifecycle scenario of harness/g2/c04 (scenario table: src/scenarios.rs):
  1. reference run: the victim runs un-killed under the libc-call gate (mode 1) -> number N of gated
     calls, the reference trace (calls canonicalised to roles) and the survivor's reference
     observations (victim left in an orderly way);
  2. the reference trace, reduced to its state-changing resource steps, must equal the step list of
     coq/model/Lifecycle.v for that scenario (tie of the model; printed by the extracted model);
  3. for every selected gate index k: a fresh private root, a fresh survivor, the victim is SIGKILLed by
     the gate at its k-th gated call (before the call; thorough: also right after it), then the survivor
     lists the nodes, removes the stale resources of the dead node, is probed with a NEW node, and
     shuts down.  Oracle (kind=spec, on the implementation's own observations):
       * no survivor panic / abort / hang (hard timeouts), exit code 0, no CORRUPT payload;
       * the foreign node is reported Dead or absent; the cleanup loop ends with no foreign node listed
         and every remove_stale_resources result is ok;
       * listing A (after cleanup): every file under the private root / every shm object with the run's
         prefix that did not exist before the victim started is either domain-wide persistent
         (directories `nodes`, `services`; the global management segment `*_node.*.global_mgmt`) or a
         connection with one end owned by the survivor; everything the survivor owned still exists;
       * probe phase observations equal those of the reference run (shared service usable with a new
         peer: send/receive both ways, worst-case chunk demand `fill`, loans to exhaustion = configured
         maximum; a service whose only user was the victim is gone and creatable afresh);
       * listing B (after the survivor's orderly shutdown): only domain-wide persistent objects.
  4. second crash: for the `full_*` scenarios the victim exits at a quiescent point without dropping
     anything, a third process (`cleaner`) running the same cleanup is killed at every gate index of the
     cleanup, then the survivor finishes the cleanup; same oracle.

Rule "owned solely by the dead node" (naming scheme, iceoryx2/src/service/{config_scheme,naming_scheme}.rs):
nodes/<node id>/** and nodes/<prefix><node id>.node_monitor* belong to the node; data segments
<prefix><port id>.data*, event connections <prefix><listener id>.event*, port tags under the node
directory belong to the port's node; a connection <prefix><sender id>_<receiver id>.connection is
co-owned by both ends; <prefix><service id>.dynamic / services/<prefix><hash>.service / blackboard
segments belong to all nodes registered in the service (last one out removes them).  The check does not
parse ids for ownership: it compares against the survivor's own baseline listing (taken before the victim
starts), which is exact because each case runs in its own root with its own prefix.
"""
import concurrent.futures as cf
import json
import os
import re
import shutil
import signal
import subprocess
import sys
import threading
import time

sys.path.insert(0, os.path.dirname(os.path.dirname(os.path.abspath(__file__))))
import vlib
import gatectl
from vlib import VERIF

TMP = os.environ.get("C04_TMP", "/var/tmp")
PHASE_TIMEOUT = 20.0      # s, one survivor phase (the survivor's own cleanup loop gives up after 3 s)
VICTIM_TIMEOUT = 20.0
CREATION_TIMEOUT_MS = "300"
# user the three harness processes run as ("" = the user of the check, root in the sandbox).  As root the
# write-only-until-initialised permission protocol of iceoryx2 is not enforced by the kernel.
def default_users(thorough):
    """users the harness processes run as: None = the user of the check"""
    if os.environ.get("C04_USER"):
        return [None if u in ("root", "self") else u for u in os.environ["C04_USER"].split(",")]
    if os.geteuid() != 0:
        return [None]
    try:
        import pwd
        pwd.getpwnam("nobody")
    except KeyError:
        return [None]
    return ["nobody", None] if thorough else ["nobody"]



_case_no = [0]
_case_lock = threading.Lock()
_live = set()


class Hang(Exception):
    pass


class Proc:
    """child process with line-wise stdout and hard timeouts"""

    def __init__(self, argv, env, errpath, user=None):
        self.err = open(errpath, "wb")
        kw = {}
        if user:
            import grp, pwd
            kw = {"user": user, "group": grp.getgrgid(pwd.getpwnam(user).pw_gid).gr_name}
        self.p = subprocess.Popen(argv, env=env, stdin=subprocess.PIPE, stdout=subprocess.PIPE, stderr=self.err,
                                  start_new_session=True, **kw)
        with _case_lock:
            _live.add(self.p.pid)
        self.lines = []
        self.buf = b""
        self.eof = False

    def send(self, line):
        try:
            self.p.stdin.write((line + "\n").encode())
            self.p.stdin.flush()
        except (BrokenPipeError, OSError, ValueError):
            pass

    def readline(self, deadline):
        import select
        while True:
            i = self.buf.find(b"\n")
            if i >= 0:
                l = self.buf[:i].decode(errors="replace")
                self.buf = self.buf[i + 1:]
                self.lines.append(l)
                return l
            if self.eof:
                return None
            t = deadline - time.time()
            if t <= 0:
                raise Hang()
            r, _, _ = select.select([self.p.stdout], [], [], min(t, 1.0))
            if r:
                d = os.read(self.p.stdout.fileno(), 65536)
                if not d:
                    self.eof = True
                else:
                    self.buf += d

    def until(self, pred, timeout):
        """read lines until pred(line); returns the lines read (None-terminated on EOF)"""
        dl = time.time() + timeout
        out = []
        while True:
            l = self.readline(dl)
            if l is None:
                out.append(None)
                return out
            out.append(l)
            if pred(l):
                return out

    def wait(self, timeout):
        try:
            rc = self.p.wait(timeout=timeout)
        except subprocess.TimeoutExpired:
            raise Hang()
        return rc

    def kill(self):
        try:
            os.killpg(self.p.pid, signal.SIGKILL)
        except (ProcessLookupError, PermissionError):
            pass
        try:
            self.p.wait(timeout=5)
        except Exception:
            pass
        for f in (self.p.stdin, self.p.stdout, self.err):
            try:
                f.close()
            except Exception:
                pass
        with _case_lock:
            _live.discard(self.p.pid)


def listing(root, prefix):
    """sorted list of everything under the private root (relative) and of the prefixed shm objects"""
    out = []
    for d, dirs, files in os.walk(root):
        rel = os.path.relpath(d, root)
        for n in dirs + files:
            out.append("R/" + (n if rel == "." else rel + "/" + n))
    try:
        for n in os.listdir("/dev/shm"):
            if n.startswith(prefix):
                out.append("S/" + n)
    except OSError:
        pass
    return sorted(out)


def persistent(name, prefix):
    """domain-wide objects that persist by design: the two directories and the global management segment"""
    if name in ("R/nodes", "R/services"):
        return True
    if name.startswith("S/" + prefix) and name.endswith(".global_mgmt"):
        return True
    return False


def co_owned(name, own_ids):
    """a connection whose name carries a port id of the survivor (the survivor's end keeps it alive)"""
    m = re.search(r"(\d{10,})_(\d{10,})\.connection$", name)
    return bool(m and (m.group(1) in own_ids or m.group(2) in own_ids))


def run_case(exe_dir, scenario, k=None, kill_after=False, cleaner_k=None, cleaner_after=False, keep=False, user=None):
    """One complete case in a private root.  Returns a dict with everything observed."""
    with _case_lock:
        _case_no[0] += 1
        n = _case_no[0]
    base = "%s/verif-c04-%d-%d" % (TMP, os.getpid(), n)
    root = base + "/root"
    prefix = "c04_%d_%d_" % (os.getpid(), n)
    os.makedirs(root)
    if user:
        import pwd
        pw = pwd.getpwnam(user)
        for d_ in (base, root):
            os.chown(d_, pw.pw_uid, pw.pw_gid)
    env = dict(os.environ)
    env.update({"C04_ROOT": root, "C04_PREFIX": prefix, "C04_TIMEOUT_MS": CREATION_TIMEOUT_MS, "C04_AUTOCLEAN": "0"})
    res = {"scenario": scenario, "k": k, "kill_after": kill_after, "cleaner_k": cleaner_k, "cleaner_after": cleaner_after,
           "problems": [], "phases": {}, "root": root, "prefix": prefix, "user": user}
    procs = []
    t0 = time.time()
    try:
        sv = Proc([os.path.join(exe_dir, "survivor"), scenario], env, base + "/survivor.err", user)
        procs.append(sv)

        def phase(name):
            sv.send(name)
            try:
                ls = sv.until(lambda l: l.startswith("R " + name + " done"), PHASE_TIMEOUT)
            except Hang:
                res["problems"].append("survivor-hang:" + name.split(":")[0])
                res["phases"][name] = [l for l in sv.lines if l is not None][-8:]
                raise
            if ls and ls[-1] is None:
                res["problems"].append("survivor-died:" + name.split(":")[0])
                res["phases"][name] = [l for l in ls if l is not None]
                raise Hang()
            res["phases"][name] = ls
            return ls

        phase("setup")
        own_ids = set()
        for l in res["phases"]["setup"]:
            if l.startswith("I "):
                own_ids.add(l.split()[2])
        s0 = listing(root, prefix)
        # ---- victim
        vlog = base + "/victim.log"
        venv = gatectl.gate_env(root, prefix, vlog, None, k, kill_after, base=env)
        venv["C04_AUTOCLEAN"] = "1"
        vi = Proc([os.path.join(exe_dir, "victim"), scenario], venv, base + "/victim.err", user)
        procs.append(vi)
        dl = time.time() + VICTIM_TIMEOUT
        try:
            while True:
                l = vi.readline(dl)
                if l is None:
                    break
                if l.startswith("SYNC "):
                    phase("sync:" + l.split()[1])
                    vi.send("go")
            res["victim_rc"] = vi.wait(10)
        except Hang:
            if "survivor" not in " ".join(res["problems"]):
                res["problems"].append("victim-hang")
            raise
        res["victim_out"] = list(vi.lines)
        res["victim_trace"] = [(c.call, c.path, c.argstr, c.result, c.errno) for c in gatectl.parse_log(vlog)]
        vi.kill()
        # ---- optional third process: a cleaner that is itself killed
        if cleaner_k is not None:
            clog = base + "/cleaner.log"
            cenv = gatectl.gate_env(root, prefix, clog, None, cleaner_k if cleaner_k > 0 else None, cleaner_after, base=env)
            cl = Proc([os.path.join(exe_dir, "cleaner")], cenv, base + "/cleaner.err", user)
            procs.append(cl)
            try:
                cl.until(lambda l: False, VICTIM_TIMEOUT)
                res["cleaner_rc"] = cl.wait(10)
            except Hang:
                res["problems"].append("cleaner-hang")
                raise
            res["cleaner_out"] = list(cl.lines)
            res["cleaner_trace"] = [(c.call, c.path, c.argstr, c.result, c.errno) for c in gatectl.parse_log(clog)]
            cl.kill()
        # ---- survivor: consume, clean up, probe, shut down
        phase("after")
        la = listing(root, prefix)
        res["listing_a_new"] = [x for x in la if x not in s0 and not persistent(x, prefix) and not co_owned(x, own_ids)]
        res["listing_a_lost"] = [x for x in s0 if x not in la]
        phase("probe")
        phase("finish")
        try:
            sv.until(lambda l: False, PHASE_TIMEOUT)
            res["survivor_rc"] = sv.wait(10)
        except Hang:
            res["problems"].append("survivor-hang:exit")
            raise
        res["listing_b"] = [x for x in listing(root, prefix) if not persistent(x, prefix)]
    except Hang:
        pass
    except Exception as ex:  # machinery
        res["problems"].append("machinery:%r" % (ex,))
    finally:
        for p in procs:
            p.kill()
        for f in ("survivor.err", "victim.err", "cleaner.err"):
            try:
                t = open(base + "/" + f, errors="replace").read()
                if t.strip():
                    res[f] = t[-1500:]
            except OSError:
                pass
        res["canon"] = Canon(root, prefix)
        if not keep:
            shutil.rmtree(base, ignore_errors=True)
            try:
                for nme in os.listdir("/dev/shm"):
                    if nme.startswith(prefix):
                        try:
                            os.unlink("/dev/shm/" + nme)
                        except OSError:
                            pass
            except OSError:
                pass
    res["wall"] = time.time() - t0
    return res


class Canon:
    """canonical role names for paths: root -> R, prefix -> P_, long decimal ids / 40-hex hashes renamed by
    first appearance"""

    def __init__(self, root, prefix):
        self.root, self.prefix = root, prefix
        self.ids = {}

    def path(self, p):
        p = p.replace(self.root, "R").replace(self.prefix, "P_")
        p = re.sub(r"@M/\d+:", "@M/", p)

        def ren(m):
            s = m.group(0)
            if s not in self.ids:
                self.ids[s] = ("#%d" if s.isdigit() else "H%d") % (len(self.ids) + 1)
            return self.ids[s]
        return re.sub(r"\d{10,}|[0-9a-f]{40}", ren, p)


def canon_trace(trace, canon):
    out = []
    for call, path, args, result, errno in trace:
        a = args
        if call in ("read", "write", "pread", "pwrite", "mmap", "munmap", "ftruncate"):
            a = re.sub(r"(n|len)=\d+", r"\1=_", args)
        r = "ok" if errno == "0" else errno
        if result == "killed":
            r = "killed"
        out.append("%s %s %s %s" % (call, canon.path(path), canon.path(a) if "to=" in a else a, r))
    return out


def role_of(line):
    """(call kind, role) of a canonical trace line: ids dropped"""
    f = line.split(" ")
    role = re.sub(r"#\d+|H\d+", "*", f[1])
    return f[0] + " " + role


def window_of(ctrace, k):
    """the API call (marker) in whose window gate index k (1-based) lies"""
    w = "start"
    for line in ctrace[:k]:
        if line.startswith("access R/@M/"):
            w = line.split(" ")[1][len("R/@M/"):]
    return w


# ---------------------------------------------------------------------------------------- oracle
def after_line_ok(l):
    """generic rule for the observations of the `after` phase (data in flight may or may not have arrived)"""
    if "CORRUPT" in l:
        return False
    return True


def judge(res, ref):
    """list of (symptom, detail) for one case; ref = the reference case of the scenario (or None).
    Symptoms are normalised strings (no ids); consequences of an earlier symptom are suppressed."""
    bad = []
    for p in res["problems"]:
        bad.append((p, res["phases"].get(p.split(":")[-1], "")))
    for f in ("survivor.err",):
        if f in res and ("panic" in res[f].lower() or "abort" in res[f].lower()):
            bad.append(("survivor-panic", res[f][-400:]))
    if res["problems"]:
        return bad
    if res.get("survivor_rc") != 0:
        bad.append(("survivor-exit-code", res.get("survivor_rc")))
    after = [l for l in res["phases"].get("after", []) if l.startswith("O ") or l.startswith("C ")]
    for l in after:
        if "CORRUPT" in l:
            bad.append(("corrupt-data", l))
    stuck = False
    # per-call results: (details present?, through the hidden entry point with explicit config?, result)
    calls = [re.match(r"C cleanup node details=(\w+) fallback=(\w+) -> (\S+)", l) for l in after]
    calls = [(m.group(1) == "true", m.group(2) == "true", m.group(3)) for m in calls if m]
    clines = [x for x in after if x.startswith("C ")]
    if any((not d) and (not fb) and r != "ok" for d, fb, r in calls):
        bad.append(("cleanup-without-details-uses-global-config", clines))
    real = sorted({r for d, fb, r in calls if (d or fb) and r != "ok"
                   and not (r == "ResourcesAlreadyCleanedUp" and res.get("cleaner_k") is not None)})
    for l in [l for l in after if l.startswith("O cleanup")]:
        v = l.split(" = ")[1]
        if v.startswith("STUCK"):
            st = re.search(r"states:\[([^\]]*)\]", v).group(1)
            bad.append(("node-never-clean:" + st + ":" + "+".join(real), clines))
            stuck = True
        else:
            for r in real:
                bad.append(("cleanup-result:" + r, clines))
    if stuck:
        return bad
    resid = False
    if res.get("listing_a_new"):
        resid = True
        bad.append(("residue-after-cleanup:" + ",".join(sorted({kind_of(x) for x in res["listing_a_new"]})), res["listing_a_new"]))
    if res.get("listing_a_lost"):
        bad.append(("survivor-resource-lost:" + ",".join(sorted({kind_of(x) for x in res["listing_a_lost"]})), res["listing_a_lost"]))
    if ref is not None:
        mine = [l for l in res["phases"].get("probe", []) if l.startswith("O ")]
        want = [l for l in ref["phases"].get("probe", []) if l.startswith("O ")]
        if mine != want:
            diff = [(a, b) for a, b in zip(mine, want) if a != b][:6]
            first = diff[0] if diff else ("O length = %d" % len(mine), "O length = %d" % len(want))
            cmd = first[0].split(" = ")[0][2:].split()
            bad.append(("probe-differs:" + " ".join(cmd[:1] + cmd[2:4] if cmd[0] in ("svc", "port") else cmd[:1]) + ":" + first[0].split(" = ")[-1][:60],
                        {"observed_vs_reference": diff}))
    if res.get("listing_b") and not resid:
        bad.append(("residue-after-shutdown:" + ",".join(sorted({kind_of(x) for x in res["listing_b"]})), res["listing_b"]))
    return bad


K_NODE_CREATE = "crash:node-create-before-token-finalised-residue"
K_NO_DETAILS = "crash:cleanup-without-details-uses-global-config"
K_NODE_DROP = "crash:node-drop-after-state-removed-residue"
K_TAG = "crash:tag-created-not-finalised-node-never-clean"
K_SHM = "crash:shm-created-not-truncated-survivor-hangs"      # fixed in /repo by 868edb1, no longer a class
K_STATIC = "crash:service-create-before-unlock-static-config-stays"
K_SVC_DROP = "crash:service-drop-tag-first-orphans-configs"
K_LISTENER = "crash:listener-create-residue-event-mgmt"
K_CLEANER_PTAG = "crash:cleaner-port-tag-removed-registry-entry-stays"   # fixed in /repo by 841a15f, no longer a class
K_CONN = "crash:connection-initialised-port-not-reserved-residue"
ROOT_CAUSE_KEYS = [K_NODE_CREATE, K_NO_DETAILS, K_NODE_DROP, K_TAG, K_STATIC, K_SVC_DROP, K_LISTENER, K_CONN]


def _residue(sym, prefix="residue-after-cleanup:"):
    return set(sym[len(prefix):].split(",")) if sym.startswith(prefix) else None


def _done(done, call_re, path_re, args_re=None):
    """performed (successful) calls of the dead process matching the patterns: list of canonical lines"""
    out = []
    for l in done:
        f = l.split(" ")
        if len(f) < 4 or f[-1] != "ok":
            continue
        if re.search(call_re, f[0]) and re.search(path_re, f[1]) and (args_re is None or re.search(args_re, f[2])):
            out.append(l)
    return out


def _created(done, path_re):
    return _done(done, r"^(open|openat|shm_open|creat)$", path_re, r"O_CREAT") + _done(done, r"^mkdir$", path_re)


def _removed(done, path_re):
    return _done(done, r"^(remove|unlink|unlinkat|shm_unlink|rmdir)$", path_re)


def classify(process, wk, at, syms, uname, done_win=None, done_all=None):
    """root-cause key (one of the seven adjudicated known findings of known_findings.json) of ONE failing case, or None.

    A key is given ONLY when the recorded preconditions of that finding verifiably hold for the dead process, decided from
    the gated calls it had PERFORMED when it died (its own gate log), the API window it died in and the resource the calls
    belong to -- and the observed residue / result is exactly what those performed steps predict.  The symptom alone never
    selects a key: the same residue reached from any other crash position is an unkeyed VIOLATION.
      process   "victim" | "cleaner"        wk   window_kind() of the window the process died in
      at        canonical line of the call at the crash point
      syms      normalised symptoms of the case (judge()), consequences already suppressed
      done_win  calls the dead process performed in the window it died in (cleaner: its whole life)
      done_all  all calls it performed
    Preconditions (P) and predictions per key:
      node-create-before-token-finalised  P: in this window the process created nodes/<x> (mkdir) and has not yet performed the
            final `fchmod <x>.node_monitor_context 0400` of ProcessGuard::create.  Prediction: residue = exactly the files of <x>
            created so far (node-dir, node-details, monitor-context/-state/-owner-lock); victim: window node-create.
      cleanup-without-details             P: the process removed nodes/<x>/..node.details of a node whose token is complete and has
            not yet removed <x>.node_monitor (victim: own node, window node-drop; cleaner: the dead node).  Prediction: the public
            cleanup fails without details, the hidden entry point with the config succeeds, nothing else.
      node-drop-after-state-removed       P: the process removed <x>.node_monitor (state file) and not yet <x>.node_monitor_context.
            Prediction: residue = context (+ owner-lock iff not yet removed).
      tag-created-not-finalised           P: in this window the process created a .service_tag/.port_tag file T and has not yet
            performed `fchmod T 0400`.  Prediction: cleanup of that node fails with InternalError for ever.
      service-create-before-unlock        P: window svc-create: services/<h>.service created, final `fchmod .. 0400` not performed.
            Prediction: residue static-config and/or create afresh AlreadyExists.
      service-drop-tag-first              P: window drop_s of a scenario in which the victim is the only user: the service tag was
            removed in this window, services/<h>.service not yet.  Prediction: residue = static-config + every service segment
            not yet unlinked; exists = true.
      listener-create-residue-event-mgmt  P: window port-create-lis: port tag and <id>.event_mgmt created; or a drop window in which
            the listener's <id>.event_mgmt has not been unlinked yet and the crash call is on the listener's event files.
            Prediction: residue within {event_mgmt, event-connection}, event_mgmt iff it exists."""
    f = at.split(" ")
    call, path = f[0], f[1]
    syms = list(syms)
    dw = list(done_win or [])
    da = list(done_all or dw)
    cleaner = process == "cleaner"
    if not dw and not da:
        return None                                   # nothing verifiable about the dead process: never keyed
    res_sets = [_residue(x) for x in syms]
    one_residue = res_sets[0] if len(syms) == 1 and res_sets[0] else None
    scope = da if cleaner else dw

    def node_ids(lines):
        return {m.group(1) for l in lines for m in [re.search(r"R/nodes/(?:P_)?(#\d+)", l.split(" ")[1])] if m}

    # (1) node creation before the token is finalised
    if one_residue and (wk == "node-create" or cleaner):
        for x in node_ids(_created(scope, r"^R/nodes/#\d+$")):
            xr = re.escape(x)
            if _done(scope, r"^fchmod$", r"^R/nodes/P_%s\.node_monitor_context$" % xr, r"mode=04"):
                continue
            pred = {"node-dir"}
            if _created(scope, r"^R/nodes/%s/P_node\.details$" % xr):
                pred.add("node-details")
            for suf, kd in ((".node_monitor_context", "monitor-context"), (".node_monitor", "monitor-state"), (".node_monitor_owner_lock", "monitor-owner-lock")):
                if _created(scope, r"^R/nodes/P_%s%s$" % (xr, re.escape(suf))):
                    pred.add(kd)
            if one_residue == pred:
                return K_NODE_CREATE
    # (3) node drop / token drop past the state file
    if one_residue and (wk == "node-drop" or cleaner):
        for x in node_ids(_removed(scope, r"^R/nodes/P_#\d+\.node_monitor$")):
            xr = re.escape(x)
            if _removed(scope, r"^R/nodes/P_%s\.node_monitor_context$" % xr):
                continue
            pred = {"monitor-context"}
            if not _removed(scope, r"^R/nodes/P_%s\.node_monitor_owner_lock$" % xr):
                pred.add("monitor-owner-lock")
            if one_residue == pred:
                return K_NODE_DROP
    # (4) tag created, not finalised
    if (wk.startswith(("svc-create-", "svc-open-", "port-create-")) or cleaner) and syms and \
            any(x in ("node-never-clean:Dead:InternalError", "node-never-clean:Dead:InternalError+ResourcesAlreadyCleanedUp") for x in syms) and \
            all(x.startswith("node-never-clean:Dead:InternalError") or x == "cleanup-without-details-uses-global-config" for x in syms):
        for l in _created(scope, r"\.(service_tag|port_tag)$"):
            t = re.escape(l.split(" ")[1])
            if not _done(scope, r"^fchmod$", "^" + t + "$", r"mode=0400") and not _removed(scope, "^" + t + "$"):
                return K_TAG
    # (2) dead node whose details file is gone while its token is complete
    if syms == ["cleanup-without-details-uses-global-config"] and (wk == "node-drop" or cleaner):
        for x in node_ids(_removed(scope, r"^R/nodes/#\d+/P_node\.details$")):
            if not _removed(scope, r"^R/nodes/P_%s\.node_monitor$" % re.escape(x)):
                return K_NO_DETAILS
    # (5) crash:shm-created-not-truncated-survivor-hangs was repaired in /repo (868edb1): a survivor hang is an unkeyed
    #     VIOLATION again; the crash points of that class run first as regression cases (regression_zero_size)
    # (6) static config created, not unlocked
    if wk.startswith("svc-create-") and not cleaner and syms and \
            all(x == "residue-after-cleanup:static-config" or re.match(r"^probe-differs:svc n1 \w+:err:AlreadyExists$", x) for x in syms):
        for l in _created(dw, r"^R/services/P_H\d+\.service$"):
            t = re.escape(l.split(" ")[1])
            if not _done(dw, r"^fchmod$", "^" + t + "$", r"mode=0400") and not _created(dw, r"\.dynamic$"):
                return K_STATIC
    # (7) last user's service drop removed the tag first
    if re.match(r"^drop_s@(full_)?create_", wk) and not cleaner and syms and \
            _removed(dw, r"\.service_tag$") and not _removed(dw, r"^R/services/P_H\d+\.service$"):
        pred = {"static-config"}
        for suf, kd in ((".dynamic", "dynamic-config"), (".blackboard_data", "blackboard_data"), (".blackboard_mgmt", "blackboard_mgmt")):
            if _created(da, re.escape(suf) + "$") and not _removed(dw, re.escape(suf) + "$"):
                pred.add(kd)
        rs = [x for x in res_sets if x is not None]
        if len(rs) == 1 and rs[0] == pred and all(_residue(x) is not None or x == "probe-differs:exists:true" for x in syms):
            return K_SVC_DROP
    last = da[-1] if da else ""
    lf = last.split(" ")
    last_call, last_path, last_args = (lf[0], lf[1], lf[2]) if len(lf) >= 4 and lf[-1] == "ok" else ("", "", "")
    svc_kinds = {"dynamic-config", "static-config", "blackboard_data", "blackboard_mgmt"}
    # (7b) same root cause, a service that has OTHER users: the process died right behind the removal of its service tag (its
    #      last performed call), i.e. before deregister_node_id: no tag leads the cleanup to the registry entry any more, the
    #      node slot is lost, the service is never removed.  victim: in a drop_s window; cleaner: the tag of a node the cleaner
    #      created itself (the helper node of send_dead_node_signal dropping its service)
    if last_call in ("remove", "unlink") and last_path.endswith(".service_tag") and syms and \
            ((not cleaner and wk.startswith("drop_s@") and not re.match(r"^drop_s@(full_)?create_", wk)) or
             (cleaner and any(x in last_path for x in node_ids(_created(da, r"^R/nodes/#\d+$"))))) and \
            all(re.match(r"^probe-differs:svc n1 \w+:err:ExceedsMaxNumberOfNodes$", x) or
                (_residue(x, "residue-after-shutdown:") is not None and _residue(x, "residue-after-shutdown:") <= svc_kinds) for x in syms):
        return K_SVC_DROP
    # (9) crash:cleaner-port-tag-removed-registry-entry-stays (cleaner killed right behind the removal of a dead node's port
    #     tag) was repaired in /repo (841a15f): unkeyed VIOLATION again; its crash points run first as regression cases
    # (10) the process died right behind the fchmod 0600 that finalises a connection segment it created in this window (last
    #      performed call), before it reserved its port in the connection state: state 0 never becomes MarkedForDestruction
    if not cleaner and last_call == "fchmod" and last_path.endswith(".connection") and "mode=0600" in last_args and \
            _created(dw, "^" + re.escape(last_path) + "$") and len(syms) == 1 and \
            (_residue(syms[0]) == {"connection"} or _residue(syms[0], "residue-after-shutdown:") == {"connection"}):
        return K_CONN
    # (8) listener's event segment is not reachable through the port tag
    if one_residue and one_residue <= {"event_mgmt", "event-connection"} and not cleaner:
        if wk.startswith("port-create-lis@") and _created(dw, r"\.port_tag$") and \
                (("event_mgmt" in one_residue) == bool(_created(dw, r"\.event_mgmt$"))):
            return K_LISTENER
        if wk.startswith("drop_") and path.endswith((".event", ".event_mgmt")) and _created(da, r"\.event_mgmt$") and \
                (("event_mgmt" in one_residue) == (not _removed(dw, r"\.event_mgmt$"))) and not _removed(dw, r"\.port_tag$"):
            return K_LISTENER
    return None


def classifier_selftest():
    """the classifier must key a case only with its preconditions: same symptoms with other histories stay unkeyed"""
    mk = "mkdir R/nodes/#2 mode=0750 ok"
    det = "open R/nodes/#2/P_node.details flags=O_RDWR|O_CREAT|O_EXCL,mode=0600 ok"
    ctx_ = "open R/nodes/P_#2.node_monitor_context flags=O_RDWR|O_CREAT|O_EXCL,mode=0200 ok"
    fin = "fchmod R/nodes/P_#2.node_monitor_context mode=0400 ok"
    tag = "open R/nodes/#2/P_H4.service_tag flags=O_RDWR|O_CREAT|O_EXCL,mode=0600 ok"
    tagfin = "fchmod R/nodes/#2/P_H4.service_tag mode=0400 ok"
    stat_ = "open R/services/P_H4.service flags=O_RDWR|O_CREAT|O_EXCL,mode=0200 ok"
    statfin = "fchmod R/services/P_H4.service mode=0400 ok"
    dyn = "shm_open /dev/shm/P_H5_#6.dynamic flags=O_RDWR|O_CREAT|O_EXCL,mode=0200 ok"
    rmtag = "remove R/nodes/#2/P_H4.service_tag - ok"
    at = "stat R/nodes - killed"
    r = "residue-after-cleanup:"
    tests = [
        (("victim", "node-create", at, [r + "node-details,node-dir"], "nobody", [mk, det], [mk, det]), K_NODE_CREATE),
        (("victim", "node-create", at, [r + "node-dir"], "nobody", [mk, det], [mk, det]), None),                       # residue != prediction
        (("victim", "node-create", at, [r + "monitor-context,node-details,node-dir"], "nobody", [mk, det, ctx_, fin], [mk, det, ctx_, fin]), None),   # token finalised
        (("victim", "svc-open-ps", at, [r + "node-details,node-dir"], "nobody", [tag], [mk, det, tag]), None),            # other window
        (("victim", "svc-open-ps", at, ["node-never-clean:Dead:InternalError"], "nobody", [tag], [mk, tag]), K_TAG),
        (("victim", "svc-open-ps", at, ["node-never-clean:Dead:InternalError"], "nobody", [tag, tagfin], [mk, tag, tagfin]), None),  # tag finalised
        (("victim", "svc-open-ps", at, ["node-never-clean:Dead:InternalError"], "nobody", [], [mk]), None),               # no tag created
        (("victim", "svc-create-ps", at, [r + "static-config"], "nobody", [tag, tagfin, stat_], [mk, tag, tagfin, stat_]), K_STATIC),
        (("victim", "svc-create-ps", at, [r + "static-config"], "nobody", [tag, tagfin, stat_, statfin], [mk, tag, tagfin, stat_, statfin]), None),  # unlocked
        (("victim", "svc-open-ps", at, [r + "static-config"], "nobody", [tag, tagfin], [mk, tag, tagfin]), None),        # same residue, open window
        (("victim", "drop_s@create_ps", at, [r + "dynamic-config,static-config", "probe-differs:exists:true"], "nobody", [rmtag], [mk, tag, stat_, dyn, rmtag]), K_SVC_DROP),
        (("victim", "drop_s@create_ps", at, [r + "dynamic-config,static-config"], "nobody", [], [mk, tag, stat_, dyn]), None),   # tag not removed yet
        (("victim", "drop_s@open_ps", at, [r + "dynamic-config,static-config"], "nobody", [rmtag], [mk, tag, rmtag]), None),   # not the only user
        (("victim", "drop_s@create_ps", at, [r + "static-config"], "nobody", [rmtag], [mk, tag, stat_, dyn, rmtag]), None),     # residue != prediction
    ]
    conn = "shm_open /dev/shm/P_H9_#7_#10.connection flags=O_RDWR|O_CREAT|O_EXCL,mode=0200 ok"
    connfin = "fchmod /dev/shm/P_H9_#7_#10.connection mode=0600 ok"
    rmptag = "remove R/nodes/#1/P_#4.port_tag - ok"
    nodes_probe = "probe-differs:svc n1 ps:err:ExceedsMaxNumberOfNodes"
    rs = "residue-after-shutdown:"
    tests += [
        (("victim", "drop_s@port_pub", at, [nodes_probe + "", rs + "dynamic-config,static-config"], "self", [rmtag], [mk, tag, tagfin, rmtag]), K_SVC_DROP),
        (("victim", "drop_s@port_pub", at, [nodes_probe, rs + "dynamic-config,static-config"], "self", [rmtag, "munmap /dev/shm/P_H5_#6.dynamic len=_ ok"],
          [mk, tag, tagfin, rmtag, "munmap /dev/shm/P_H5_#6.dynamic len=_ ok"]), None),          # tag removal is not the last performed call
        (("victim", "svc-open-ps", at, [nodes_probe, rs + "dynamic-config,static-config"], "self", [tag], [mk, tag]), None),   # the seeded open reordering
        (("cleaner", "cleaner@full_ev", at, [nodes_probe.replace("ps", "ev")], "self", [], ["mkdir R/nodes/#10 mode=0750 ok", "remove R/nodes/#10/P_H3.service_tag - ok"]), K_SVC_DROP),
        (("cleaner", "cleaner@full_ev", at, [nodes_probe.replace("ps", "ev")], "self", [], ["remove R/nodes/#1/P_H3.service_tag - ok"]), None),   # the dead node's tag
        (("cleaner", "cleaner@full_ps", at, ["probe-differs:send:ok:3"], "self", [], [rmptag]), None),                                   # fixed (841a15f): unkeyed again
        (("cleaner", "cleaner@full_ps", at, ["probe-differs:send:ok:3"], "self", [], [rmptag, "stat R/nodes/#1 - ok"]), None),           # not the last call
        (("victim", "drop_p@port_pub", at, ["probe-differs:send:ok:3"], "self", [rmptag], [rmptag]), None),                               # not the cleaner
        (("victim", "port-create-pub@port_pub", at, [rs + "connection"], "self", [conn, connfin], [mk, conn, connfin]), K_CONN),
        (("victim", "port-create-pub@port_pub", at, [rs + "connection"], "self", [conn], [mk, conn]), None),                              # not finalised: other state
        (("victim", "port-create-pub@port_pub", at, [rs + "connection"], "self", [conn, connfin, "stat R/nodes/#2 - ok"], [mk, conn, connfin, "stat R/nodes/#2 - ok"]), None),
        (("victim", "port-create-pub@port_pub", at, [r + "connection,data"], "self", [conn, connfin], [mk, conn, connfin]), None),        # more residue than predicted
    ]
    bad = []
    for args, want in tests:
        got = classify(*args)
        if got != want:
            bad.append((args[1], args[3], want, got))
    return bad


def window_kind(win, scenario):
    """scenario-independent name of an API window where possible"""
    w = re.sub(r"^\d+:", "", win)
    f = w.split("_")
    if w in ("node_n", "start"):
        return "node-create"
    if w == "drop_n":
        return "node-drop"
    if w == "cleaner":
        return "cleaner@" + scenario
    if f[0] == "svc":
        return "svc-%s-%s" % (f[4], f[3])
    if f[0] == "port":
        return "port-create-%s@%s" % (f[3], scenario)
    return w + "@" + scenario


def kind_of(name):
    """resource kind of a listing entry (for stable violation keys)"""
    n = name
    if re.search(r"R/nodes/\d+$", n):
        return "node-dir"
    for suf, kd in ((".details", "node-details"), (".node_monitor_context", "monitor-context"), (".node_monitor_owner_lock", "monitor-owner-lock"),
                    (".node_monitor", "monitor-state"), (".service_tag", "service-tag"), (".port_tag", "port-tag"), (".service", "static-config"),
                    (".dynamic", "dynamic-config"), (".connection", "connection"), (".event", "event-connection"), (".global_mgmt", "global-mgmt")):
        if n.endswith(suf):
            return kd
    m = re.search(r"\.([a-z_]+)(?:\.\d+)?$", n)
    if m:
        return m.group(1)
    return re.sub(r"\d{6,}|[0-9a-f]{40}", "*", n)


# ---------------------------------------------------------------------------------------- selection
MUTATING = re.compile(r"^(mkdir|rmdir|remove|unlink|unlinkat|shm_unlink|rename|renameat|ftruncate|truncate|fchmod|chmod|fchmodat|write|pwrite|flock) "
                      r"|^(open|openat|shm_open|creat) \\S+ flags=\\S*O_CREAT|^fcntl \\S+ cmd=F_(OFD_)?SETLK")


def own_window(scenario, label):
    """is the API window `label` (marker text) one of the windows this scenario is about?  node create/drop is
    enumerated completely in scenario `node`, service open/drop in the open_*/create_* scenarios"""
    w = re.sub(r"^\d+:", "", label)
    if scenario == "node" or scenario == "cleaner":
        return True
    if w in ("node_n", "start", "drop_n", "end"):
        return False
    if scenario.startswith(("create_", "open_")):
        return True
    if w.startswith("svc_") and "_open_" in w or w == "drop_s":
        return False
    return True


def select_points(ctrace, tier_thorough, stride, scenario="cleaner", seen=None):
    """gate indices (1-based) at which the process is killed (before the call).
    thorough: all.  quick: every call of the scenario's own API windows; elsewhere the file-system state only
    changes at mutating calls (kill points between two mutating calls differ only in shared-memory writes the gate
    does not see): every mutating call k and k+1 (= the state right after call k), the first occurrence (over all
    scenarios) of every (call kind, role) pair, every stride-th index and the last index."""
    n = len(ctrace)
    if tier_thorough:
        return list(range(1, n + 1))
    if seen is None:
        seen = set()
    sel = set()
    win = "start"
    for i, line in enumerate(ctrace, 1):
        if line.startswith("access R/@M/"):
            win = line.split(" ")[1][len("R/@M/"):]
            continue
        r = role_of(line)
        if r not in seen:
            seen.add(r)
            sel.add(i)
        if scenario != "cleaner" and own_window(scenario, win):
            sel.add(i)
        if MUTATING.search(line):
            sel.add(i)
            if i + 1 <= n:
                sel.add(i + 1)
        if stride and i % stride == 0:
            sel.add(i)
    sel.add(n)
    return sorted(sel)


def scenario_list(exe_dir):
    rc, out = vlib.sh([os.path.join(exe_dir, "victim"), "--list"], timeout=30)
    scs = []
    for l in out.split("\n"):
        m = re.match(r"^(\w+) cleaner=(\d) syncs=(.*)$", l)
        if m:
            scs.append({"name": m.group(1), "cleaner": m.group(2) == "1", "syncs": [x for x in m.group(3).split(",") if x]})
    return scs


def sweep_stale():
    """remove what earlier (killed) runs of this check left behind"""
    for d in os.listdir(TMP):
        m = re.match(r"^verif-c04-(\d+)-\d+$", d)
        if m and not os.path.exists("/proc/" + m.group(1)):
            shutil.rmtree(os.path.join(TMP, d), ignore_errors=True)
    try:
        for n in os.listdir("/dev/shm"):
            m = re.match(r"^c04_(\d+)_\d+_", n)
            if m and not os.path.exists("/proc/" + m.group(1)):
                try:
                    os.unlink("/dev/shm/" + n)
                except OSError:
                    pass
    except OSError:
        pass


def cleanup_own():
    for pid in list(_live):
        try:
            os.killpg(pid, signal.SIGKILL)
        except Exception:
            pass
    me = str(os.getpid())
    for d in os.listdir(TMP):
        if d.startswith("verif-c04-%s-" % me):
            shutil.rmtree(os.path.join(TMP, d), ignore_errors=True)
    try:
        for n in os.listdir("/dev/shm"):
            if n.startswith("c04_%s_" % me):
                try:
                    os.unlink("/dev/shm/" + n)
                except OSError:
                    pass
    except OSError:
        pass


def replay_cmd(res):
    s = "python3 %s/tools/checks/C04.py --case %s" % (VERIF, res["scenario"])
    if res.get("k") is not None:
        s += " --k %d" % res["k"]
    if res.get("kill_after"):
        s += " --after"
    if res.get("cleaner_k") is not None:
        s += " --cleaner-k %d" % res["cleaner_k"]
    if res.get("cleaner_after"):
        s += " --cleaner-after"
    s += " --user %s" % (res.get("user") or "self")
    return s


# ---------------------------------------------------------------------------------------- main
def enumerate_as(ctx, tdir, scs, user, th, model_steps, classes, stats):
    """reference runs + crash enumeration with the harness processes running as `user`"""
    uname = user or "self"
    t_ref = time.time()
    refs = {}
    with cf.ThreadPoolExecutor(max_workers=vlib.NPROC) as ex:
        futs = {(s["name"], i): ex.submit(run_case, tdir, s["name"], user=user) for s in scs for i in ((0, 1) if th else (0,))}
        futs.update({(s["name"], "c"): ex.submit(run_case, tdir, s["name"], None, False, 0, user=user) for s in scs if s["cleaner"]})
        for key, f in futs.items():
            refs[key] = f.result()
    jobs = []
    info = {}
    for s in scs:
        nme = s["name"]
        r0, r1 = refs[(nme, 0)], refs.get((nme, 1), refs[(nme, 0)])
        c0 = canon_trace(r0.get("victim_trace", []), r0["canon"])
        c1 = canon_trace(r1.get("victim_trace", []), r1["canon"])
        b0 = judge(r0, None)
        if b0 or not c0:
            ctx.violation("reference run (victim not killed, user %s) of scenario %s fails: %s" % (uname, nme, [b[0] for b in b0] or "no trace"),
                          {"scenario": nme, "symptoms": b0, "victim_out": r0.get("victim_out"), "phases": r0["phases"], "how_to_rerun": replay_cmd(r0)},
                          key="%s:reference:%s" % (nme, b0[0][0] if b0 else "no-trace"))
            continue
        if c0 != c1:
            d = next((i for i, (a, b) in enumerate(zip(c0, c1)) if a != b), min(len(c0), len(c1)))
            ctx.notes.append("scenario %s (user %s): two un-killed runs differ at gated call %d (%s | %s)" % (nme, uname, d + 1, c0[d:d + 1], c1[d:d + 1]))
        info[nme] = {"N": len(c0), "ctrace": c0, "ref": r0}
        if model_steps is not None and user == stats["tie_user"]:
            t = tie_check(nme, c0, model_steps)
            stats["tie_checked"] += 1
            if t:
                stats["tie_bad"].append(t)
        ks = select_points(c0, th, int(os.environ.get("C04_STRIDE", "12")), nme, stats["seen_roles"])
        for k in ks:
            jobs.append((nme, k, False, None, False))
            if th or MUTATING.search(c0[k - 1]):
                # kill right BEHIND the call: not the same as kill-before the next gated call -- the shared-memory writes
                # (registry, connection state) that follow the call un-gated have not happened yet
                jobs.append((nme, k, True, None, False))
        if s["cleaner"]:
            rc_ = refs[(nme, "c")]
            cc = canon_trace(rc_.get("cleaner_trace", []), rc_["canon"])
            bc = judge(rc_, r0)
            if bc or not cc:
                ctx.violation("reference run of the cleaner process (user %s) in scenario %s fails: %s" % (uname, nme, [b[0] for b in bc] or "no trace"),
                              {"scenario": nme, "symptoms": bc, "cleaner_out": rc_.get("cleaner_out"), "phases": rc_["phases"]},
                              key="%s:cleaner-reference:%s" % (nme, bc[0][0] if bc else "no-trace"))
                continue
            info[nme]["NC"] = len(cc)
            info[nme]["cctrace"] = cc
            for j in select_points(cc, th, int(os.environ.get("C04_CSTRIDE", "25")), "cleaner", stats["seen_croles"]):
                jobs.append((nme, None, False, j, False))
                if th or MUTATING.search(cc[j - 1]):
                    jobs.append((nme, None, False, j, True))
    ctx.log("user %s: reference runs of %d scenarios, %.1fs; %d crash cases selected" % (uname, len(info), time.time() - t_ref, len(jobs)))
    t_enum = time.time()
    per_scn = stats["per_scn"].setdefault(uname, {})
    nfail = 0
    # wall-clock budget: the cases are run in a deterministic pseudo-random order (state-changing crash points first), so
    # a run that is cut off by the budget on a loaded machine is still a spread over all scenarios; what was skipped is
    # reported in the coverage
    import hashlib

    # representatives: the state right after the first state change of every resource role in every API window.  Those whose
    # (window kind, role) has not been seen in an earlier scenario run first (every kind of window of every operation is
    # touched before anything is repeated), then the per-scenario ones, then the other state-changing points, then the rest
    reps = {}
    seen_global = set()
    for nme_, inf_ in info.items():
        seen_local = set()
        w_ = "start"
        trc = inf_["ctrace"]
        for i_, line_ in enumerate(trc, 1):
            if line_.startswith("access R/@M/"):
                w_ = line_.split(" ")[1][len("R/@M/"):]
            elif MUTATING.search(line_) and i_ + 1 <= len(trc):
                rl = role_of(line_)
                if (w_, rl) in seen_local:
                    continue
                seen_local.add((w_, rl))
                g = (window_kind(w_, nme_).split("@")[0], rl)
                pr = 0 if g not in seen_global else 3
                seen_global.add(g)
                # the state right BEFORE the call (everything un-gated that precedes it, e.g. registry writes, is done)
                # and the state right after it
                for kk in (i_, i_ + 1):
                    if kk <= len(trc):
                        reps[(nme_, kk)] = min(pr, reps.get((nme_, kk), 9))
        # dedicated scenarios: every gate position of the service open and of the service drop
        if nme_.startswith(("open_", "create_")):
            w_ = "start"
            for i_, line_ in enumerate(trc, 1):
                if line_.startswith("access R/@M/"):
                    w_ = line_.split(" ")[1][len("R/@M/"):]
                    continue
                ww = re.sub(r"^\d+:", "", w_)
                if ww.startswith("svc_") or ww == "drop_s":
                    # open first (a lost registry slot only shows there), then create
                    reps[(nme_, i_)] = min(1 if nme_.startswith("open_") else 2, reps.get((nme_, i_), 9))

    def prio(j):
        nme, k, ka, ck, cka = j
        tr = info[nme]["ctrace"] if ck is None else info[nme]["cctrace"]
        idx = k if ck is None else ck
        mut = 4 if (MUTATING.search(tr[idx - 1]) or (idx >= 2 and MUTATING.search(tr[idx - 2]))) else 5
        if ck is None and (nme, k) in reps and (not ka or MUTATING.search(tr[idx - 1])):
            mut = reps[(nme, k)]
        elif ck is not None and cka and MUTATING.search(tr[idx - 1]):
            mut = 3
        return (mut, hashlib.sha1(("%s|%s|%s" % (ctx.seed, uname, j)).encode()).hexdigest())
    have = {(j[0], j[1]) for j in jobs if j[3] is None and not j[2]}
    for nme_, k_ in sorted(reps):
        if (nme_, k_) not in have:
            jobs.append((nme_, k_, False, None, False))
    jobs.sort(key=prio)
    if os.environ.get("C04_BUDGET_S"):
        budget = float(os.environ["C04_BUDGET_S"])
    elif th:
        budget = 1000.0 / max(1, stats["nusers"])
    else:
        # the whole quick check has 10 minutes (target 520 s + reporting): what proof stage, build and reference runs left, minus the reporting reserve
        budget = max(60.0, float(os.environ.get("C04_QUICK_TOTAL_S", "420")) - (t_enum - ctx.t0))
    deadline = t_enum + budget
    skipped = 0
    with cf.ThreadPoolExecutor(max_workers=vlib.NPROC) as ex:
        futs = [(j, ex.submit(run_case, tdir, j[0], j[1], j[2], j[3], j[4], user=user)) for j in jobs]
        cut = False
        for j, f in futs:
            nme, k, ka, ck, cka = j
            if not cut:
                try:
                    f.result(timeout=max(0.0, deadline - time.time()))
                except cf.TimeoutError:
                    pass
                if time.time() >= deadline:
                    cut = True
                    for _, g in futs:
                        g.cancel()          # everything that has not started yet
            if f.cancelled():
                skipped += 1
                continue
            res = f.result()
            stats["ncases"] += 1
            inf = info[nme]
            per = per_scn.setdefault(nme, {"gated_calls": inf["N"], "cleaner_gated_calls": inf.get("NC"), "victim_points": 0, "cleaner_points": 0, "failing": 0})
            if ck is None:
                per["victim_points"] += 1
                tr = inf["ctrace"]
                at = tr[k - 1]
                win = window_of(tr, k)
                mine = canon_trace(res.get("victim_trace", []), res["canon"])
                if [role_of(x) for x in mine[:k - 1]] != [role_of(x) for x in tr[:k - 1]]:
                    stats["prefix_mismatch"] += 1      # directory listings are not in a reproducible order
                if mine and mine[-1].endswith(" killed"):
                    tr = mine                          # the call the process really died at, and its real prefix
                    at = mine[-1]
                    win = window_of(mine, len(mine))
            else:
                per["cleaner_points"] += 1
                tr = inf["cctrace"]
                at = tr[ck - 1]
                win = "cleaner"
                mine = canon_trace(res.get("cleaner_trace", []), res["canon"])
                if mine and mine[-1].endswith(" killed"):
                    tr = mine
                    at = mine[-1]
            stats["roles"].add(role_of(at))
            bad = judge(res, inf["ref"])
            if bad:
                nfail += 1
                per["failing"] += 1
                idx = k if ck is None else ck
                wk = window_kind(win, nme)
                proc = "victim" if ck is None else "cleaner"
                done_all, done_win = performed(mine)
                rk = classify(proc, wk, at, [b[0] for b in bad], uname, done_win if ck is None else done_all, done_all)
                if len(stats["samples"]) < 6:
                    stats["samples"].append({"scenario": nme, "process": proc, "crash_index": idx, "call_at_crash_point": at, "window": wk,
                                             "symptoms": [b[0] for b in bad], "root_cause": rk})
                # one class per case: the root cause, or (unkeyed) the window with the complete symptom combination
                groups = [(rk, bad[0][0], bad[0][1])] if rk else [(None, "+".join(b[0] for b in bad), {b[0]: b[1] for b in bad})]
                for gk, sym, detail in groups:
                    key = gk or "%s:%s" % (wk, sym)
                    c = classes.setdefault(key, {"count": 0, "first": None, "points": [], "users": set(), "root_cause": gk})
                    c["count"] += 1
                    c["users"].add(uname)
                    if len(c["points"]) < 40:
                        c["points"].append("%s k=%d%s %s %s [%s]" % (nme, idx, "+" if (ka or cka) else "", wk, role_of(at), uname))
                    if c["first"] is None:
                        c["first"] = {"args": (nme, k, ka, ck, cka, user),
                                      "scenario": nme, "crash_index": idx, "kill_after": ka or cka, "process": proc,
                                      "run_as_user": uname, "call_at_crash_point": at, "api_window": win, "symptom": sym, "detail": detail,
                                      "all_symptoms_of_this_case": [b[0] for b in bad],
                                      "trace_prefix": (tr[max(0, idx - 25):idx] if tr is not mine else mine[-25:]), "survivor_after": res["phases"].get("after"),
                                      "survivor_probe": res["phases"].get("probe"), "how_to_rerun": replay_cmd(res)}
            elif len(stats["samples"]) < 3 or (len(stats["samples"]) < 8 and not any(x["symptoms"] == [] for x in stats["samples"])):
                stats["samples"].append({"scenario": nme, "process": "victim" if ck is None else "cleaner", "crash_index": k if ck is None else ck,
                                         "call_at_crash_point": at, "window": window_kind(win, nme), "symptoms": [], "root_cause": None,
                                         "cleanup": [l for l in res["phases"].get("after", []) if l.startswith("O cleanup")]})
            if MUTATING.search(at):
                stats["nontrivial"].add((nme, role_of(at)))
    stats["nfail"] += nfail
    stats["selected"] += len(jobs)
    stats["skipped"] += skipped
    if skipped:
        ctx.notes.append("user %s: wall-clock budget of %.0f s for the enumeration exhausted (machine load): %d of %d selected crash cases were not run" % (uname, budget, skipped, len(jobs)))
    ctx.log("user %s: enumeration of %d cases (%d skipped by the time budget), %.1fs, %d failing cases" % (uname, len(jobs) - skipped, skipped, time.time() - t_enum, nfail))


def regression_cleaner_port_tag(ctx, tdir, users):
    """former finding crash:cleaner-port-tag-removed-registry-entry-stays (fixed: 841a15f): the cleaner is killed right BEHIND
    every removal of a port tag of the dead node; the survivor's second cleanup must finish the job (the dead port leaves the
    registry: the probe equals the reference, e.g. send reaches 2 subscribers again, a new writer is accepted)."""
    n = 0
    with cf.ThreadPoolExecutor(max_workers=vlib.NPROC) as ex:
        for user in users:
            refs = {sc: (ex.submit(run_case, tdir, sc, user=user), ex.submit(run_case, tdir, sc, None, False, 0, user=user))
                    for sc in ("full_ps", "full_ev", "full_rr", "full_bb")}
            jobs = []
            for sc, (f0, fc) in refs.items():
                ref, rc_ = f0.result(), fc.result()
                cc = canon_trace(rc_.get("cleaner_trace", []), rc_["canon"])
                for j, l in enumerate(cc, 1):
                    if re.match(r"^(remove|unlink) \S+\.port_tag ", l) and l.endswith(" ok"):
                        jobs.append((sc, j, l, ref, ex.submit(run_case, tdir, sc, None, False, j, True, user=user)))
            for sc, j, l, ref, f in jobs:
                res = f.result()
                n += 1
                mine = canon_trace(res.get("cleaner_trace", []), res["canon"])
                syms = [b[0] for b in judge(res, ref)]
                if syms and not (mine and re.search(r"\.port_tag ", mine[-1])):
                    continue                # directory order moved the index to another call: covered by the enumeration
                if syms:
                    ctx.violation("regression of fix 841a15f (cleaner killed right behind the removal of a dead node's port tag, user %s): scenario %s, cleaner gated call %d (%s): %s" % (
                                      user or "self", sc, j, l, syms),
                                  {"scenario": sc, "crash_index": j, "process": "cleaner", "kill_after": True, "run_as_user": user or "self", "call_at_crash_point": l,
                                   "symptoms": syms, "survivor_after": res["phases"].get("after"), "survivor_probe": res["phases"].get("probe"), "how_to_rerun": replay_cmd(res)})
    ctx.cov["cleaner_port_tag_regression_cases"] = n
    return n


def regression_zero_size(ctx, tdir):
    """former finding crash:shm-created-not-truncated-survivor-hangs (fixed: 868edb1): as root, kill the victim right before
    every ftruncate of a freshly created shm object; the survivor's cleanup must terminate and satisfy the oracle (a listener's
    event segment is the separate known finding crash:listener-create-residue-event-mgmt).  Only meaningful as root: an
    ordinary user cannot open the write-only object at all."""
    if os.geteuid() != 0:
        ctx.notes.append("zero-size shm regression cases skipped: the check does not run as root")
        return 0
    n = 0
    with cf.ThreadPoolExecutor(max_workers=vlib.NPROC) as ex:
        refs = {sc: ex.submit(run_case, tdir, sc, user=None) for sc in ("port_pub", "port_cli", "port_lis", "create_ps")}
        jobs = []
        for sc, f in refs.items():
            ref = f.result()
            ct = canon_trace(ref.get("victim_trace", []), ref["canon"])
            for i, l in enumerate(ct, 1):
                if l.startswith("ftruncate /dev/shm/"):
                    jobs.append((sc, i, l, ref, ex.submit(run_case, tdir, sc, i, user=None)))
        for sc, i, l, ref, f in jobs:
            res = f.result()
            n += 1
            syms = [b[0] for b in judge(res, ref)]
            mine = canon_trace(res.get("victim_trace", []), res["canon"])
            done_all, done_win = performed(mine)
            if syms and classify("victim", window_kind(window_of(mine, len(mine)), sc), l, syms, "self", done_win, done_all) != K_LISTENER:
                ctx.violation("regression of fix 868edb1 (crash between shm_open(O_CREAT) and ftruncate, as root): scenario %s, victim killed at gated call %d (%s): %s" % (sc, i, l, syms),
                              {"scenario": sc, "crash_index": i, "process": "victim", "run_as_user": "self", "call_at_crash_point": l, "symptoms": syms,
                               "survivor_after": res["phases"].get("after"), "how_to_rerun": replay_cmd(res)})
    ctx.cov["zero_size_shm_regression_cases"] = n
    return n


def performed(trace):
    """(all calls the dead process performed, those of the API window it died in) from ITS OWN canonical gate log"""
    done = list(trace)
    if done and done[-1].endswith(" killed"):
        done = done[:-1]
    win = []
    for l in done:
        if l.startswith("access R/@M/"):
            win = []
        else:
            win.append(l)
    return done, win


def _on_term(signum, frame):
    cleanup_own()
    os._exit(143)


def run(ctx):
    import atexit
    atexit.register(cleanup_own)
    signal.signal(signal.SIGTERM, _on_term)
    signal.signal(signal.SIGINT, _on_term)
    sweep_stale()
    ctx.level = "fault_enumeration"
    proof_ok = vlib.proof_stage(ctx) if os.path.exists(os.path.join(VERIF, "coq", "props", "C04.v")) else None
    gatectl.build()
    ok, out, tdir = vlib.cargo_build("g2", bins=["victim", "survivor", "cleaner"], extra="-p c04")
    if not ok:
        ctx.violation("harness does not build against /repo", {"log": out}, no_input=True)
        return
    th = ctx.thorough()
    ctx.level = "fault_enumeration"
    if getattr(ctx, "replay", None):
        body = json.load(open(ctx.replay))
        if "scenario" not in body or "crash_index" not in body:
            ctx.violation("replay file names no crash case", {"replay": ctx.replay}, no_input=True)
            return
        user = body.get("run_as_user")
        user = None if user in (None, "self", "root") else user
        k = body["crash_index"] if body.get("process") == "victim" else None
        ck = body["crash_index"] if body.get("process") == "cleaner" else None
        ka = bool(body.get("kill_after"))
        ref = run_case(tdir, body["scenario"], user=user)
        res = run_case(tdir, body["scenario"], k, ka and ck is None, ck, ka and ck is not None, user=user)
        bad = judge(res, ref)
        ctx.cov.update({"evaluations": 1, "rule": "replay of " + ctx.replay})
        if bad:
            ctx.violation("replay still fails: scenario %s, %s killed at gated call %d: %s" % (body["scenario"], body.get("process"), body["crash_index"], [b[0] for b in bad]),
                          {"symptoms": bad, "survivor_after": res["phases"].get("after"), "survivor_probe": res["phases"].get("probe"),
                           "how_to_rerun": replay_cmd(res)}, key=body.get("key"))
        else:
            ctx.log("replay passes: scenario %s, crash index %s: no symptom" % (body["scenario"], body["crash_index"]))
        return
    scs = scenario_list(tdir)
    only = os.environ.get("C04_ONLY")
    if only:
        scs = [s for s in scs if re.search(only, s["name"])]
    users = default_users(th)
    st = classifier_selftest()
    if st:
        ctx.violation("check machinery: the known-finding classifier fails its self-test (a case would be keyed without its preconditions, or missed): %s" % st[:3],
                      {"failed": [list(map(str, x)) for x in st]}, no_input=True)
    if not only:
        regression_zero_size(ctx, tdir)
        regression_cleaner_port_tag(ctx, tdir, users)
    model_steps = model_step_lists(ctx)
    classes = {}
    stats = {"ncases": 0, "nfail": 0, "prefix_mismatch": 0, "roles": set(), "per_scn": {}, "tie_bad": [], "tie_checked": 0, "tie_user": users[0], "seen_roles": set(), "seen_croles": set(), "selected": 0, "skipped": 0, "samples": [], "nontrivial": set(), "nusers": len(users)}
    for u in users:
        stats["seen_roles"], stats["seen_croles"] = set(), set()
        enumerate_as(ctx, tdir, scs, u, th, model_steps, classes, stats)
    # timing-sensitive symptoms are confirmed by re-running the first case of the class alone with 3x the timeouts
    global PHASE_TIMEOUT, VICTIM_TIMEOUT
    for key in sorted(classes):
        c = classes[key]
        sym = c["first"]["symptom"]
        if not sym.startswith(("survivor-hang", "victim-hang", "cleaner-hang", "survivor-died", "node-never-clean")):
            continue
        if c.get("root_cause"):
            continue                                  # a stuck cleanup loop with a definite error result is not timing dependent
        a = c["first"]["args"]
        old = (PHASE_TIMEOUT, VICTIM_TIMEOUT)
        PHASE_TIMEOUT, VICTIM_TIMEOUT = 3 * old[0], 3 * old[1]
        try:
            ref = run_case(tdir, a[0], user=a[5])
            res = run_case(tdir, a[0], a[1], a[2], a[3], a[4], user=a[5])
        finally:
            PHASE_TIMEOUT, VICTIM_TIMEOUT = old
        again = [b[0] for b in judge(res, ref)]
        c["confirmed"] = sym in again
        if not c["confirmed"]:
            ctx.notes.append("class %s (%d cases) was not reproduced when its first case was re-run alone with 3x timeouts (symptoms then: %s): "
                             "attributed to machine load, not reported" % (key, c["count"], again))
    known_counts = {}
    for key in sorted(classes):
        c = classes[key]
        if c.get("confirmed") is False:
            continue
        fst = dict(c["first"])
        fst.pop("args", None)
        fst["crash_points_in_this_class"] = c["points"]
        fst["cases_in_this_class"] = c["count"]
        fst["seen_as_user"] = sorted(c["users"])
        if c.get("root_cause"):
            known_counts[key] = c["count"]
            ctx.violation("%s -- first: scenario %s, %s killed at gated call %d (%s), user %s; %d crash cases of this root cause" % (
                key, fst["scenario"], fst["process"], fst["crash_index"], fst["call_at_crash_point"], fst["run_as_user"], c["count"]), fst, key=key)
        else:
            ctx.violation("%s -- first: scenario %s, %s killed at gated call %d (%s), user %s; %d crash cases in this class; matches none of the adjudicated root causes" % (
                key, fst["scenario"], fst["process"], fst["crash_index"], fst["call_at_crash_point"], fst["run_as_user"], c["count"]), fst)
    ctx.cov["known_root_cause_case_counts"] = {k: known_counts.get(k, 0) for k in ROOT_CAUSE_KEYS}
    if stats["tie_bad"]:
        t = stats["tie_bad"][0]
        ctx.violation("correspondence model<->implementation broken: resource steps of %d scenario(s) (%s) differ from coq/model/Lifecycle.v; first: %s" % (
                          len(stats["tie_bad"]), ",".join(x[0] for x in stats["tie_bad"][:12]), t[1]),
                      {"obligation": "trace equality per scenario and API window (un-killed reference trace vs. step lists of the model)",
                       "scenarios": [list(x) for x in stats["tie_bad"]]}, no_input=not any(not c.get("root_cause") for c in classes.values()))
    if proof_ok is False and not ctx.violations:
        ctx.violation("proof obligation no longer checks: %s" % ctx.broken, {"broken": ctx.broken}, no_input=True)
    first_u = (users[0] or "self")
    ctx.cov.update({
        "scenarios": stats["per_scn"],
        "users": [u or "self" for u in users],
        "crash_cases_selected": stats["selected"], "crash_cases_skipped_by_time_budget": stats["skipped"],
        "crash_cases_run": stats["ncases"], "failing_cases": stats["nfail"], "failing_classes": len(classes),
        "distinct_call_roles_at_crash_point": len(stats["roles"]),
        "kill_prefix_trace_mismatches": stats["prefix_mismatch"],
        "model_tie_scenarios_checked": stats["tie_checked"],
        "evaluations": stats["ncases"], "distinct_nontrivial": max(len(stats["nontrivial"]), 0), "exhaustive": bool(th) and stats["skipped"] == 0,
        "rule": "thorough: every gated call index of every scenario, kill before and after the call, plus every gated call of the cleaner in the "
                "full_* scenarios, as user nobody and as root; quick (user nobody when the check runs as root): first occurrence of every (call kind, role) "
                "pair per scenario, every %s-th index, the last index; cleaner every %s-th" % (os.environ.get("C04_STRIDE", "12"), os.environ.get("C04_CSTRIDE", "25")),
        "samples": stats["samples"],
    })
    ctx.assumptions = [
        "crash points are the gated libc calls of harness/libgate (file-system / shm / mmap / lock calls on the private root and prefix); crashes between two "
        "shared-memory atomic writes that are not separated by a gated call are NOT enumerated here (G1 territory)",
        "the victim is single-threaded, so kill-after-call k equals kill-before-call k+1; both are run in the thorough tier",
        "the survivor runs without the gate; hangs are detected by hard timeouts only",
        "ownership of residue is decided against the survivor's baseline listing in a private root/prefix per case, plus the naming rule for co-owned connections",
        "probe oracle is differential: observations with a NEW node after crash+cleanup must equal those after an orderly exit of the victim",
        "kernel semantics of each call (atomicity, lock release on death) are those of the running kernel",
    ]


def model_step_lists(ctx):
    """builds the extracted Lifecycle model + driver; returns the driver path or None if not built yet"""
    d = os.path.join(VERIF, "ocaml", "c04")
    if not os.path.exists(os.path.join(VERIF, "coq", "extract", "C04.v")):
        return None
    ok, out = vlib.ocaml_driver("C04")
    if not ok:
        ctx.violation("extracted model / OCaml driver does not build", {"log": out}, no_input=True)
        return None
    return os.path.join(d, "driver")


SUFFIX_ROLE = [("/P_node.details", "Det"), (".node_monitor_context", "Tok"), (".node_monitor_owner_lock", "Tok"), (".node_monitor", "Tok"),
               (".service_tag", "STag"), (".port_tag", "PTag"), (".service", "Stat"), (".dynamic", "Dyn"), (".blackboard_data", "SRes"),
               (".blackboard_mgmt", "SRes"), (".data", "Data"), (".event_mgmt", "Data"), (".event", "Data"), (".connection", "Conn")]


def trace_tokens(lines, attach_dyn=False):
    """state-changing calls of a trace window -> abstract steps Mk:<kind> / Rm:<kind> (consecutive repeats collapsed).
    attach_dyn (service open): the LAST successful attach (shm_open without O_CREAT) of the dynamic config stands for the
    registry write Mk:RegN -- register_node_id follows it without a gated call in between."""
    out = []
    last_attach = None
    if attach_dyn:
        for i, l in enumerate(lines):
            if l.startswith("shm_open ") and l.split(" ")[1].endswith(".dynamic") and "O_CREAT" not in l and l.endswith(" ok"):
                last_attach = i
    for i_line, l in enumerate(lines):
        if last_attach is not None and i_line == last_attach:
            out.append("Mk:RegN")
            continue
        f = l.split(" ")
        call, path = f[0], f[1]
        if f[-1] != "ok":
            continue
        if call in ("mkdir",) or (call in ("open", "openat", "shm_open", "creat") and "O_CREAT" in l):
            t = "Mk"
        elif call in ("remove", "unlink", "unlinkat", "shm_unlink", "rmdir"):
            t = "Rm"
        else:
            continue
        role = None
        if re.match(r"^R/nodes/#\d+$", path):
            role = "Det"
        elif path in ("R/nodes", "R/services", "R"):
            continue
        else:
            for suf, r in SUFFIX_ROLE:
                if path.endswith(suf):
                    role = r
                    break
        tok = "%s:%s" % (t, role or ("?" + path))
        if not out or out[-1] != tok:
            out.append(tok)
    return out


def collapse(toks):
    out = []
    for t in toks:
        if not out or out[-1] != t:
            out.append(t)
    return out


def tie_check(nme, ctrace, driver):
    """trace equality per API window between the un-killed reference trace and the step lists of
    coq/model/Lifecycle.v (file-level projection).  Returns None or (scenario, description, ...)."""
    # split the trace into windows
    wins = []
    cur = None
    for l in ctrace:
        if l.startswith("access R/@M/"):
            cur = [l.split(" ")[1][len("R/@M/"):], []]
            wins.append(cur)
        elif cur is not None:
            cur[1].append(l)
    names = {}
    ops = []
    last = nme.startswith("create_") or nme.startswith("full_create_")
    for label, lines in wins:
        f = label.split("_")
        toks = trace_tokens(lines, attach_dyn=(f[0] == "svc" and len(f) > 4 and f[4] == "open"))
        if f[0] == "node":
            names[f[1]] = ("node",)
            ops.append(("node", toks, label))
        elif f[0] == "svc":
            names[f[1]] = ("svc", f[3])
            ops.append((("svc-create %d" % (f[3] == "bb")) if f[4] == "create" else "svc-open", toks, label))
        elif f[0] == "port":
            nconn = len({l.split(" ")[1] for l in lines if ".connection" in l and "O_CREAT" in l and l.endswith(" ok")})
            names[f[1]] = ("port", f[3], nconn)
            ops.append(("port-create %s %d" % (f[3], nconn), toks, label))
        elif f[0] == "drop" and len(f) == 2 and f[1] in names:
            k = names[f[1]]
            if k[0] == "node":
                ops.append(("drop-node", toks, label))
            elif k[0] == "svc":
                ops.append(("svc-drop %d %d" % (k[1] == "bb", last), toks, label))
            elif k[0] == "port":
                nconn = len({l.split(" ")[1] for l in lines if ".connection" in l and l.startswith("shm_unlink") and l.endswith(" ok")})
                ops.append(("port-drop %s %d" % (k[1], nconn), toks, label))
            else:
                ops.append((None, toks, label))
        else:
            ops.append((None, toks, label))     # send/receive/... : no resource step expected
    inp = "C %s\n" % nme + "".join("O %s\n" % o for o, _, _ in ops if o)
    rc, out = vlib.sh([driver], inp=inp, timeout=60)
    model = [l.split(" ")[3:] for l in out.split("\n") if l.startswith("STEPS ")]
    if rc != 0 or len(model) != len([o for o in ops if o[0]]):
        return (nme, "driver failed", out[-300:])
    i = 0
    for o, toks, label in ops:
        if o is None:
            if toks and not nme.startswith(("steady_", "full_")):
                return (nme, "window %s: unexpected resource steps %s" % (label, toks))
            continue
        want = collapse(model[i])
        i += 1
        if toks != want:
            return (nme, "window %s (%s): implementation %s, model %s" % (label, o, toks, want))
    return None


def main_case(argv):
    """--case <scenario> [--k n] [--after] [--cleaner-k n] [--cleaner-after] [--keep]: run one case, print everything"""
    import atexit
    atexit.register(cleanup_own)
    gatectl.build()
    ok, out, tdir = vlib.cargo_build("g2", bins=["victim", "survivor", "cleaner"], extra="-p c04")
    if not ok:
        print(out)
        return 2
    sc = argv[argv.index("--case") + 1]

    def opt(name):
        return int(argv[argv.index(name) + 1]) if name in argv else None
    user = argv[argv.index("--user") + 1] if "--user" in argv else default_users(False)[0]
    if user in ("self", "root"):
        user = None
    ref = run_case(tdir, sc, user=user)
    res = run_case(tdir, sc, opt("--k"), "--after" in argv, opt("--cleaner-k"), "--cleaner-after" in argv, keep="--keep" in argv, user=user)
    ct = canon_trace(res.get("victim_trace", []), res["canon"])
    if "--trace" in argv:
        for i, l in enumerate(ct, 1):
            print("%4d %s" % (i, l))
        if res.get("cleaner_trace"):
            print("--- cleaner")
            for i, l in enumerate(canon_trace(res["cleaner_trace"], res["canon"]), 1):
                print("%4d %s" % (i, l))
    else:
        for l in ct[-6:]:
            print("   ", l)
    for ph, ls in res["phases"].items():
        for l in ls:
            print("S[%s] %s" % (ph, l))
    for kx in ("victim_rc", "survivor_rc", "cleaner_rc", "listing_a_new", "listing_a_lost", "listing_b", "problems", "survivor.err", "victim.err", "cleaner.err", "wall"):
        if kx in res:
            print(kx, "=", res[kx])
    print("cleaner_out", res.get("cleaner_out"))
    bad = judge(res, ref)
    print("VERDICT:", [b[0] for b in bad] if bad else "ok")
    if bad:
        print(json.dumps(bad[0][1], indent=1, default=str)[:1500])
    return 1 if bad else 0


if __name__ == "__main__":
    if "--case" in sys.argv:
        sys.exit(main_case(sys.argv))
    sys.exit(vlib.main(run, "C04"))
