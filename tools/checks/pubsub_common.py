#!/usr/bin/env python3
"""Shared part of the C01 / C02 / C08 checks (one model: coq/model/{Conn,Port}.v, one harness:
harness/g3/c01, one driver: ocaml/c01).

The three entry points C01.py / C02.py / C08.py call run(ctx).  Each builds and checks its OWN
props/Cxx.v, then takes the raw result of the correspondence runs -- from the cache if a fresh one
for exactly this (seed, tier, /repo tree, model, driver, harness) exists, otherwise by running the
pipelines -- and reports only what belongs to its property:
  kind=model mismatches (the tie is broken)           -> all three (each theorem rests on the tie)
  kind=spec mismatches                                 -> the property named in the line (prop=..)
"""
import fcntl, hashlib, json, os, re, sys, time
sys.path.insert(0, os.path.dirname(os.path.dirname(os.path.abspath(__file__))))
import vlib
from vlib import VERIF, REPO, BUILD

F2_KEY = "pubsub:sample-outlives-subscriber-chunk-reused"

# Known findings of this family (adjudicated by the lead, listed in /verif/known_findings.json with
# exactly these keys; the driver derives the key from the failing history):
#   C02 pubsub:sample-outlives-subscriber-chunk-reused          canary of a Sample whose Subscriber was dropped changed (F2)
#   C01 pubsub:delivered-sample-lost-subscriber-not-yet-connected  connection with data destroyed, receiver side never attached
#   C01 pubsub:expired-connection-buffer-discards-data             expired connection with data removed because the buffer is full
#   C08 pubsub:expired-connection-buffer-exceeded-panic            fatal_panic of prepare_connection_removal (disappears with a larger buffer)
# F1 (pubsub:expired-connection-leaked) is fixed in /repo (81d4165); its history is a regression below.
# Every other reference mismatch is a VIOLATION.

MODEL_FILES = ["coq/model/Base.v", "coq/model/Conn.v", "coq/model/Port.v", "coq/extract/C01.v", "ocaml/c01/driver.ml",
               "harness/g3/c01/src/main.rs", "harness/g3/c01/src/gen.rs", "harness/g3/c01/src/grow.rs", "harness/g3/c01/Cargo.toml",
               "tools/checks/pubsub_common.py"]


def tree_hash():
    """Identifies the sources an answer depends on: /repo HEAD + working tree diff + untracked files, and our own model/driver/harness."""
    h = hashlib.sha1()
    for cmd in ("git -C %s rev-parse HEAD" % REPO, "git -C %s diff" % REPO,
                "git -C %s status --porcelain --untracked-files=all" % REPO):
        rc, out = vlib.sh(cmd, timeout=120)
        h.update(out.encode())
    rc, out = vlib.sh("git -C %s ls-files --others --exclude-standard -z | xargs -0 -r sha1sum" % REPO, cwd=REPO, timeout=120)
    h.update(out.encode())
    for f in MODEL_FILES:
        p = os.path.join(VERIF, f)
        h.update(open(p, "rb").read() if os.path.exists(p) else b"-")
    return h.hexdigest()[:16]


def cleanup():
    """Remove what dead harness processes left in /dev/shm (private roots and prefixed objects)."""
    try:
        names = os.listdir("/dev/shm")
    except OSError:
        return
    for n in names:
        m = re.match(r"^(?:verif-c01-|c01_)(\d+)", n)
        if not m or os.path.exists("/proc/" + m.group(1)):
            continue
        vlib.sh(["rm", "-rf", os.path.join("/dev/shm", n)])


def jobs_for(exe, th, seed):
    jobs = []
    seed = str(seed)

    def exh(variant, suite, length, nsh):
        for i in range(nsh):
            jobs.append(("exh:%s:%s:%d:%d" % (variant, suite, length, i), [exe, "exh", variant, suite, str(length), str(i), str(nsh), seed]))

    def rnd(variant, maxlen, nsh, ncases, big):
        for i in range(nsh):
            jobs.append(("rnd:%s:%d:%s:%d" % (variant, maxlen, "3x3" if big else "2x2", i),
                         [exe, "rnd", variant, str(maxlen), str(i), str(nsh), seed, str(ncases)] + (["big"] if big else [])))
    if th:
        exh("local", "core+", 6, 64)
        exh("local", "data+", 6, 32)
        exh("local", "join+", 5, 16)
        exh("local", "two+", 5, 16)
        exh("local", "expire+", 5, 16)
        exh("local", "window+", 7, 32)
        exh("local", "drain+", 6, 16)
        exh("ipc", "window", 5, 8)
        exh("ipc", "core+", 5, 32)
        exh("ipc", "data", 5, 16)
        exh("ipc", "join", 4, 8)
        exh("ipc", "two", 4, 8)
        exh("ipc", "expire", 4, 8)
        rnd("local", 400, 32, 400, True)
        rnd("local", 60, 16, 1500, False)
        rnd("ipc", 400, 16, 100, True)
        rnd("ipc", 60, 16, 300, False)
    else:
        exh("local", "core", 5, 16)
        exh("local", "data", 5, 8)
        exh("local", "join", 4, 4)
        exh("local", "two", 4, 4)
        exh("local", "expire", 4, 4)
        exh("local", "window", 6, 8)     # subscriber acting inside the publisher's blocking_send window
        exh("local", "drain", 5, 4)      # publishers vanish with undelivered samples, then the subscriber drains
        # ipc is I/O bound (files in /dev/shm): a few milliseconds per history on an idle machine, hundreds under load
        exh("ipc", "core", 2, 4)
        exh("ipc", "data", 2, 2)
        rnd("local", 60, 8, 250, False)
        rnd("local", 60, 4, 150, True)
        rnd("ipc", 40, 2, 12, False)
        rnd("ipc", 40, 1, 8, True)
    return jobs


REGRESSIONS = [
    # (what, variant, cfg, ops) -- minimised histories of the findings; they run first
    ("F2 sample outlives its subscriber", "local", "1,1,1,1,0,0,2", "pc_2_0_- sc_-_- sn_0 rx_0 sd_0 pu_0 ln_0"),
    ("F2 sample outlives its subscriber", "ipc", "1,1,1,1,0,0,2", "pc_2_0_- sc_-_- sn_0 rx_0 sd_0 pu_0 ln_0"),
    ("F1 (fixed by 81d4165): three expired connections are cleaned up", "ipc", "1,3,1,1,0,0,3",
     "sc_-_- pc_1_0_- pc_1_0_- pc_1_0_- su_0 sn_0 sn_1 sn_2 pd_0 pd_1 pd_2 fc rx_0 rx_0 rx_0 fc rd_1 rd_2 rx_0 fc rd_0 rx_0 fc"),
    ("F1 control: two expired connections are cleaned up", "ipc", "1,3,1,1,0,0,3",
     "sc_-_- pc_1_0_- pc_1_0_- su_0 sn_0 sn_1 pd_0 pd_1 rx_0 rx_0 rd_1 rx_0 fc rd_0 rx_0 fc"),
    ("sample lost: publisher dropped before the subscriber connected", "local", "1,1,1,1,0,0,3", "sc_-_- pc_1_0_- sn_0 pd_0 rx_0"),
    ("saturation 1x1: full buffer + full borrow + history + all loans", "local", "1,1,2,2,1,0,2",
     "pc_2_0_- sc_-_- sn_0 sn_0 rx_0 rx_0 sn_0 sn_0 sn_0 ln_0 ln_0 ex_0 sn_0"),
]


def run_pipelines(jobs, driver, timeout=1500, keep=20000):
    """vlib.run_pipelines with a larger cap on the kept MISMATCH lines (the driver prints every distinct
    mismatch signature at most once per job, so the number of lines is bounded by jobs x signatures)."""
    import concurrent.futures as cf
    res = {"cases": 0, "ops": 0, "mismatches_model": 0, "mismatches_spec": 0, "distinct_nontrivial": 0,
           "mismatch_lines": [], "opcount": {}, "failed_jobs": [], "extra": {}}

    def one(job):
        label, argv = job
        rc, out = vlib.sh("set -o pipefail; " + " ".join(argv) + " 2>/dev/null | " + driver, timeout=timeout)
        return label, argv, rc, out

    with cf.ThreadPoolExecutor(max_workers=vlib.NPROC) as ex:
        for label, argv, rc, out in ex.map(one, jobs):
            got_summary = False
            for line in out.split("\n"):
                if line.startswith("MISMATCH"):
                    if len(res["mismatch_lines"]) < keep:
                        res["mismatch_lines"].append((label, " ".join(argv), line[:1500]))
                elif line.startswith("SUMMARY"):
                    got_summary = True
                    for kv in line.split()[1:]:
                        k, v = kv.split("=")
                        res[k] = res.get(k, 0) + int(v)
                elif line.startswith("OPCOUNT"):
                    _, k, v = line.split()
                    res["opcount"][k] = res["opcount"].get(k, 0) + int(v)
                elif line.startswith("EXTRA"):
                    _, k, v = line.split()
                    res["extra"][k] = res["extra"].get(k, 0) + int(v)
            if rc != 0 or not got_summary:
                res["failed_jobs"].append((label, " ".join(argv), rc, out[-800:]))
    return res


def window_history(b, m):
    """Full buffer + full borrow; the handler of the next send drops one sample and receives one, then answers
    Retry (the subscriber acts between the publisher's reclaim and its push); then the subscriber releases and
    receives everything (B + M + 1 releases since the last reclaim: the last one needs the + 1 slot of the
    completion queue); then one more send and receive, and the exhaustion probe."""
    ops = ["pc_2_1_DRrd", "sc_-_-"] + ["sn_0"] * b
    held, nxt, buf = [], 0, b
    for _ in range(m):
        ops += ["rx_0", "sn_0"]; held.append(nxt); nxt += 1
    ops.append("sn_0")                       # handler: drop the oldest, receive one, retry -> delivered
    held.pop(0); held.append(nxt); nxt += 1
    for _ in range(b + m):
        if held:
            ops.append("rd_%d" % held.pop(0))
        ops.append("rx_0")
        if buf > 0:
            held.append(nxt); nxt += 1; buf -= 1
    ops += ["sn_0", "rx_0", "ex_0"]
    return " ".join(ops)


def compute(ctx):
    """Builds driver + harness, runs all pipelines, returns the raw result (JSON-able)."""
    t0 = time.time()
    ok, out = vlib.ocaml_driver("C01")
    if not ok:
        return {"fatal": "extracted model / OCaml driver does not build", "log": out}
    ok, out, tdir = vlib.cargo_build("g3", bins=["c01"])
    if not ok:
        return {"fatal": "harness does not build against /repo", "log": out}
    exe = os.path.join(tdir, "c01")
    driver = os.path.join(VERIF, "ocaml", "c01", "driver")
    th = ctx.thorough()
    cleanup()
    jobs = [("regression:%s:%s" % (what, variant), [exe, "hist", variant, cfg] + ops.split())
            for what, variant, cfg, ops in REGRESSIONS]
    for b in (1, 2, 3):
        for m in (1, 2, 3):
            jobs.append(("regression:window B=%d M=%d" % (b, m), [exe, "hist", "local", "1,1,%d,%d,0,0,2" % (b, m)] + window_history(b, m).split()))
    jobs.append(("regression:window B=1 M=1 ipc", [exe, "hist", "ipc", "1,1,1,1,0,0,2"] + window_history(1, 1).split()))
    jobs.append(("regression:two publishers dropped with undelivered samples, then drained", [exe, "hist", "local", "1,2,3,2,0,0,3"] +
                 "sc_-_- pc_1_0_- pc_1_0_- su_0 sn_0 sn_0 sn_1 sn_1 pd_0 pd_1 rx_0 rx_0 rx_0 rx_0 rx_0".split()))
    jobs.append(("regression:one publisher slot re-created three times, then drained", [exe, "hist", "local", "1,1,3,3,0,0,4"] +
                 "sc_-_- pc_1_0_- su_0 sn_0 sn_0 pd_0 pc_1_0_- su_0 sn_1 sn_1 pd_1 pc_1_0_- su_0 sn_2 sn_2 pd_2 rx_0 rx_0 rx_0 rx_0 rx_0 rx_0 rx_0".split()))
    jobs += jobs_for(exe, th, ctx.seed)
    r = run_pipelines(jobs, driver, timeout=3000 if th else 900)
    cleanup()
    # model-free probe: payloads that grow while loaned (Flatbuffer payload, dynamic data segment)
    grow = {"scenarios": 0, "ok": 0, "changed": [], "failed": []}
    for variant in ("local", "ipc"):
        rc, out = vlib.sh("%s grow %s 2>/dev/null" % (exe, variant), timeout=600)
        lines = [l for l in out.split("\n") if l.startswith("PROBE grow")]
        if rc != 0 or not lines:
            grow["failed"].append("%s rc=%s %s" % (variant, rc, out[-300:]))
        for l in lines:
            grow["scenarios"] += 1
            if l.endswith("result=ok"):
                grow["ok"] += 1
            else:
                grow["changed"].append(l[:600])
    cleanup()
    r["grow_probe"] = grow
    r["grow_cmd"] = exe + " grow local|ipc"
    r["jobs"] = [(l, " ".join(a)) for l, a in jobs]
    r["driver"] = driver
    r["wall_s"] = round(time.time() - t0, 1)
    r["computed_at"] = time.time()
    # histories of the first mismatch of every distinct (kind, key) so that the three entry points need no re-run
    seen = {}
    for lbl, cmd, line in r["mismatch_lines"]:
        m = re.search(r"kind=(\w+) prop=(\S+) key=(\S+)", line)
        sig = m.groups() if m else ("?", "?", "?")
        if sig in seen:
            continue
        case_no = int(line.split("case=")[1].split()[0])
        hist = vlib.extract_case(cmd.split(), driver, case_no, timeout=900)
        op_no = int(line.split(" op=")[1].split()[0])
        # keep the history up to the failing operation (K lines do not count as operations)
        cut, k = [], 0
        for h in hist:
            cut.append(h)
            if h.startswith("O "):
                k += 1
            if k > op_no:
                break
        seen[sig] = {"label": lbl, "cmd": cmd, "line": line, "history": cut[:400]}
    cleanup()
    r["first_by_signature"] = [{"kind": k[0], "prop": k[1], "key": k[2], **v} for k, v in seen.items()]
    samples = []
    for lbl, argv in jobs[:1] + jobs[len(REGRESSIONS):len(REGRESSIONS) + 1] + jobs[-1:]:
        c = vlib.extract_case(argv, driver, 1)
        if c:
            samples.append({"job": lbl, "case": c[:16]})
    cleanup()
    r["case_samples"] = samples
    return r


def raw_result(ctx):
    """The result of the correspondence runs for exactly this seed / tier / source state: cached or computed."""
    key = "%s-%s-%s" % (ctx.seed, ctx.tier, tree_hash())
    d = os.path.join(BUILD, "pubsub-cache", key)
    os.makedirs(d, exist_ok=True)
    path = os.path.join(d, "result.json")
    with open(os.path.join(BUILD, "pubsub-cache", "lock"), "w") as lk:
        fcntl.flock(lk, fcntl.LOCK_EX)   # C01/C02/C08 started together: one computes, the others reuse
        if os.path.exists(path) and os.environ.get("VERIF_NO_CACHE") is None:
            try:
                r = json.load(open(path))
                if time.time() - r.get("computed_at", 0) < 6 * 3600 and "fatal" not in r:
                    r["from_cache"] = path
                    return r
            except Exception:
                pass
        r = compute(ctx)
        if "fatal" not in r:
            tmp = path + ".tmp"
            open(tmp, "w").write(json.dumps(r, default=str))
            os.replace(tmp, path)
            # keep the cache small: drop entries older than a day
            base = os.path.join(BUILD, "pubsub-cache")
            for n in os.listdir(base):
                p = os.path.join(base, n)
                if os.path.isdir(p) and p != d and time.time() - os.path.getmtime(p) > 86400:
                    vlib.sh(["rm", "-rf", p])
        r["from_cache"] = None
        return r


def props_of(line):
    m = re.search(r" prop=(\S+)", line)
    return m.group(1).split(",") if m else []


def run(ctx):
    pid = ctx.pid
    proof_ok = vlib.proof_stage(ctx)
    if getattr(ctx, "replay", None):
        body = json.load(open(ctx.replay))
        cmd = body.get("harness_cmd") or body.get("how_to_rerun", "").split(" | ")[0]
        ok, out = vlib.ocaml_driver("C01")
        ok2, out2, tdir = vlib.cargo_build("g3", bins=["c01"])
        if not (ok and ok2 and cmd):
            ctx.violation("replay impossible (build failed or no command in the replay file)", {"replay": ctx.replay}, no_input=True)
            return
        r = vlib.run_pipelines([("replay", cmd.split())], os.path.join(VERIF, "ocaml", "c01", "driver"))
        cleanup()
        ctx.cov.update({"evaluations": r["cases"], "ops_executed": r["ops"], "rule": "replay of " + ctx.replay})
        mine = [m for m in r["mismatch_lines"] if "kind=model" in m[2] or pid in props_of(m[2])]
        for lbl, c, line in mine[:5]:
            key = re.search(r" key=(\S+)", line)
            ctx.violation("replay still fails: " + line[:300], {"harness_cmd": c, "mismatch": line[:600]}, key=key.group(1) if key else None)
        if not mine:
            ctx.log("replay passes for %s: no mismatch in %d cases" % (pid, r["cases"]))
        return
    r = raw_result(ctx)
    if "fatal" in r:
        ctx.violation(r["fatal"], {"log": r.get("log", "")}, no_input=True)
        return
    ctx.log("correspondence result:", "cache " + r["from_cache"] if r.get("from_cache") else "computed in %ss" % r["wall_s"])
    driver = r["driver"]
    model_mm = [m for m in r["mismatch_lines"] if "kind=model" in m[2]]
    spec_mm = [m for m in r["mismatch_lines"] if "kind=spec" in m[2]]
    mine = [m for m in spec_mm if pid in props_of(m[2])]
    first = {(f["kind"], f["key"]): f for f in r.get("first_by_signature", [])}
    ex = r.get("extra", {})
    sat_cases = ex.get("cases_reaching_saturation", 0)
    ctx.cov.update({
        "evaluations": r["cases"], "distinct_nontrivial": r["distinct_nontrivial"],
        "traces_validated_against_impl": r["cases"], "ops_executed": r["ops"],
        "op_distribution": r["opcount"], "outcome_distribution": {k: v for k, v in ex.items() if k.startswith("obs_")},
        "mismatches_model": r["mismatches_model"], "mismatches_spec_all_properties": r["mismatches_spec"],
        "canary_probes": ex.get("canary_probes", 0),
        "canary_changed_subscriber_dropped": ex.get("canary_changed_subscriber_dropped", 0),
        "canary_changed_subscriber_registered": ex.get("canary_changed_subscriber_registered", 0),
        "exhaustion_probes": r["opcount"].get("ex", 0),
        "histories_reaching_saturation": sat_cases, "states_saturated": ex.get("states_saturated", 0),
        "panics": {k: v for k, v in ex.items() if k.startswith("panic_")},
        "shared_run": {"wall_s": r["wall_s"], "from_cache": r.get("from_cache"), "jobs": len(r["jobs"])},
        "rule": "every history is executed on the real Publisher / Subscriber / Sample / SampleMut API of local::Service and ipc::Service (fresh service per "
                "history, u64 payload = (publisher, sequence number)) and replayed on the extracted model (kind=model) and on the reference values the property "
                "demands (kind=spec): per operation the return value as a small enum, recipients, received (origin, header id, payload), has_samples, the chunk "
                "number of every loan; canary probe after EVERY operation (every held Sample re-read); exhaustion probe (loan until error, count compared with "
                "max_loaned_samples - live loans, OutOfMemory never) inside histories and at the end of every history on every live publisher; the conservation "
                "invariant inv_check evaluated on the model state after every operation; ipc only: number of connection / data segment files (fc). "
                "exhaustive = every applicable operation sequence of the stated length over the suite alphabets of harness/g3/c01/src/gen.rs (1x1 'core' and 'data', "
                "late joiners 'join', 2x2 'two', expiring publishers 'expire'; %s QoS tuples covering buffer 1..3, history 0..2, max borrowed 1..2, max loans 1..2, "
                "overflow on/off, DiscardData / RetryUntilDelivered with scripted handlers); random = seeded histories up to %d operations, 1..%d publishers x 1..%d "
                "subscribers (+1 'one too many' slot each), moods saturate / churn / mixed / drain. distinct = distinct (QoS, history); non-trivial = something was "
                "loaned, sent or received. saturation = a live publisher with no free chunk (every chunk of required_amount_of_samples_per_data_segment in use)."
                % (("16" if ctx.thorough() else "8"), 400 if ctx.thorough() else 60, 3, 3),
        "exhaustive": False,
        "not_covered": "RetryUntilDelivered without handler on a full non-overflowing buffer (blocks a single-threaded harness; model outcome SBlocks); slice / "
                       "dynamic payloads; custom degradation handlers; two threads inside one port",
    })
    ctx.cov["samples"] = r.get("case_samples", [])
    if r["failed_jobs"]:
        for lbl, cmd, rc, tail in r["failed_jobs"][:3]:
            ctx.violation("correspondence job failed (harness or driver crashed): " + str(lbl), {"cmd": cmd, "rc": rc, "tail": tail}, no_input=True)
    # ---- this property's reference mismatches
    counts = {}
    for lbl, cmd, line in mine:
        m = re.search(r" key=(\S+)", line)
        key = m.group(1) if m else None
        counts[key] = counts.get(key, 0) + 1
    ctx.cov["spec_mismatch_lines_by_key"] = counts
    nviol = 0
    for key, n in sorted(counts.items(), key=lambda kv: str(kv[0])):
        f = first.get(("spec", key), {})
        body = {"history": f.get("history", []), "harness_cmd": f.get("cmd"), "mismatch": f.get("line"),
                "how_to_rerun": "%s | %s" % (f.get("cmd"), driver), "mismatch_lines_with_this_key": n}
        if nviol < 5:
            if ctx.violation("implementation differs from what %s demands (%d mismatch lines, first): %s" % (pid, n, (f.get("line") or "")[:400]), body, key=key):
                nviol += 1
    # ---- growing payloads (C02 only): the bytes of a held / buffered sample never change
    g = r.get("grow_probe", {})
    ctx.cov["grow_probe"] = {"scenarios": g.get("scenarios", 0), "ok": g.get("ok", 0), "changed": len(g.get("changed", [])),
                             "what": "Flatbuffer<[u8]> payloads on publishers with AllocationStrategy PowerOfTwo / BestFit, reserved memory 16/64/256, 2..4 loans "
                                     "of 40..5000 bytes that grow while loaned (relocation, also into fresh segments), sent, received or left buffered; after every "
                                     "step every held sample's serialized bytes are compared with what was written (model-free canary)"}
    if pid == "C02":
        if g.get("changed"):
            ctx.violation("a held or buffered sample's bytes changed after a later loan grew / was written (growing Flatbuffer payload): " + g["changed"][0][:500],
                          {"probe_lines": g["changed"][:10], "how_to_rerun": r.get("grow_cmd")})
        for f in g.get("failed", [])[:2]:
            ctx.violation("grow probe failed to run: " + f, {"how_to_rerun": r.get("grow_cmd")}, no_input=True)
    # ---- the tie itself; when it is broken and no reference mismatch of this property was seen, search around it
    if model_mm and not mine:
        ok, out, tdir = vlib.cargo_build("g3", bins=["c01"])
        exe = os.path.join(tdir, "c01")
        sjobs = []
        for i in range(6):     # saturating / draining / churning random histories with fresh seeds, both sizes
            sjobs.append(("search:rnd:%d" % i, [exe, "rnd", "local", "80", str(i), "6", str(int(ctx.seed) + 7919 * (i + 1)), "120"] + (["big"] if i % 2 else [])))
        for su in ("window", "drain", "expire"):
            for i in range(4):
                sjobs.append(("search:exh:%s:%d" % (su, i), [exe, "exh", "local", su, "4", str(i), "4", str(ctx.seed)]))
        sr = run_pipelines(sjobs, driver, timeout=150)    # bounded: the whole check stays below five minutes
        cleanup()
        found = [m for m in sr["mismatch_lines"] if "kind=spec" in m[2] and pid in props_of(m[2])
                 and not any(k.get("key") == (re.search(r" key=(\S+)", m[2]) or [None, None])[1] for k in ctx.known)]
        ctx.cov["search_phase"] = {"jobs": len(sjobs), "cases": sr["cases"], "ops": sr["ops"], "new_reference_mismatches_of_this_property": len(found)}
        if found:
            lbl, cmd, line = found[0]
            case_no = int(line.split("case=")[1].split()[0])
            hist = vlib.extract_case(cmd.split(), driver, case_no, timeout=600)
            cleanup()
            ctx.violation("search after a broken tie found a failing history for %s: %s" % (pid, line[:400]),
                          {"history": hist[:300], "harness_cmd": cmd, "mismatch": line, "how_to_rerun": "%s | %s" % (cmd, driver)})
    if model_mm:
        f = next((v for (k, kk), v in first.items() if k == "model"), {})
        lbl, cmd, line = model_mm[0]
        ctx.violation("correspondence model<->implementation broken (the concrete model disagrees with the implementation; %d lines): %s" % (len(model_mm), line[:400]),
                      {"obligation": "G3 correspondence of coq/model/{Conn,Port}.v with iceoryx2 publish-subscribe ports",
                       "history": f.get("history", []), "harness_cmd": cmd}, no_input=not mine)
    if pid == "C02":
        # the property's last clause: the same statement for request and response payloads
        import c02_reqres_part
        c02_reqres_part.run_reqres(ctx)
    if not proof_ok and not ctx.violations:
        ctx.violation("proof obligation no longer checks: %s" % ctx.broken,
                      {"broken": ctx.broken, "searched": "all histories above; reference mismatches of this property: %s" % counts}, no_input=True)
    ctx.assumptions = [
        "theorems are about the Gallina model coq/model/{Conn,Port}.v; tie = observational correspondence (G3) on the histories listed in coverage",
        "API calls are atomic in the model (histories = sequences of whole API calls of any number of ports); interleavings INSIDE a call (two processes) are not "
        "modelled here; the lock-free queues' concurrent behaviour is C03, the registries' C10, the connection state byte C13, the index sets C09",
        "sequential specifications used as facts: index queue / safely overflowing index queue = FIFO evicting exactly the oldest (C03), container Queue = FIFO, "
        "SlotMap = map with LIFO key reuse (C16), pool allocator free list LIFO (C09/C15), registry add = lowest free slot (C10)",
        "connection creation and shared-memory mapping never fail; one node; fixed-size payload, static data segment, channel 0",
        "extraction: ExtrOcamlBasic only; OCaml driver parses/prints only",
    ]
