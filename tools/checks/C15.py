#!/usr/bin/env python3
"""C15 -- Shm allocators: disjoint, aligned, in-bounds memory; resizing keeps data."""
import glob
import json
import os
import sys
sys.path.insert(0, os.path.dirname(os.path.dirname(os.path.abspath(__file__))))
import vlib
from vlib import VERIF

# component -> (exhaustive sweep?, random cases per shard quick, thorough)
COMPONENTS = {
    "pool":     (True, 150, 1500),
    "fixed":    (True, 150, 1500),
    "bump":     (True, 150, 1500),
    "onechunk": (True, 150, 1500),
    "calpool":  (True, 100, 1000),
    "calbump":  (True, 60, 600),
    "codec":    (True, 200, 5000),
    "mtd":      (True, 300, 5000),
    "dyn":      (True, 6, 60),
    "pubsub":   (True, 0, 0),
}


def classify(hist, mismatch, model_disagrees=False):
    """Key of a failing (spec-mismatching) history: used to match known findings.
    Three defect classes were found while building this check: pool:stride-unaligned (F13) and
    fixedpool:ctor-panics-at-max (F16) are repaired in /repo by fix: commits and not expected
    any more (the keys stay so that a regression is reported under a recognisable name);
    dyn:segment-lost-bucket (F18) is a recorded known finding."""
    head = hist[0] if hist else ""
    t = head.split()
    try:
        if len(t) >= 4 and t[1] in ("pool", "calpool") and "impl=misaligned" in mismatch:
            bs, ba = int(t[2]), int(t[3])
            if ba and bs % ba != 0:
                return "pool:stride-unaligned"
        if len(t) >= 2 and t[1] == "fixed" and "spec=ctor-returns" in mismatch:
            return "fixedpool:ctor-panics-at-max"
        if len(t) >= 8 and t[1] == "dyn" and "spec=segment0-holds" in mismatch and not model_disagrees:
            # known finding F18.  Keyed ONLY when the preconditions of the recorded defect hold
            # verifiably in this very case (never on the symptom "a bucket is missing" alone):
            #   * dynamic segment over the real posix / process-local shared memory,
            #   * port-style chunk layout: alignment divides size,
            #   * chunk alignment >= 16,
            #   * the payload start measured by the harness is 8-aligned (the recorded cause) and
            #     NOT a multiple of the chunk alignment,
            #   * the first segment holds exactly the count the missing slack predicts:
            #     (size*n - padding) / size with padding = (-start) mod alignment, which is n-1,
            #   * the concrete model (which has exactly this arithmetic) agrees on this case.
            # Anything else with the same symptom is an unkeyed VIOLATION.
            hs, ha, n, bm = int(t[4]), int(t[5]), int(t[6]), int(t[7])
            got = int(mismatch.rsplit("impl=", 1)[1].split()[0])
            pad = (-bm) % ha if ha else 0
            if (t[2] in ("posix", "local") and ha >= 16 and hs >= 1 and hs % ha == 0 and bm % 8 == 0 and pad != 0
                    and n >= 1 and got == (hs * n - pad) // hs and got == n - 1):
                return "dyn:segment-lost-bucket"
        if len(t) >= 6 and t[1] == "dyn" and "impl=misaligned" in mismatch:
            hs, ha = int(t[4]), int(t[5])
            if ha and hs % ha != 0:
                return "pool:stride-unaligned"
    except ValueError:
        pass
    return None


def run(ctx):
    proof_ok = vlib.proof_stage(ctx)
    ok, out = vlib.ocaml_driver("C15")
    if not ok:
        ctx.violation("extracted model / OCaml driver does not build", {"log": out}, no_input=True)
        return
    ok, out, tdir = vlib.cargo_build("g3", bins=["c15"])
    if not ok:
        ctx.violation("harness does not build against /repo", {"log": out}, no_input=True)
        return
    exe = os.path.join(tdir, "c15")
    driver = os.path.join(VERIF, "ocaml", "c15", "driver")
    level = 2 if ctx.thorough() else 1
    nsh = 16
    jobs = []
    # 1. corpus of past failures first (regression histories; they must pass on the fixed tree)
    corpus = []
    for f in sorted(glob.glob(os.path.join(VERIF, "corpus", "C15", "*.json"))):
        c = json.load(open(f))
        corpus.append(c["id"])
        jobs.append(("corpus:" + c["id"], [exe] + [str(a) for a in c["harness_args"]]))
    # 2. generated cases
    for comp, (exh, nq, nt) in COMPONENTS.items():
        if exh:
            for sh_i in range(nsh):
                jobs.append(("exh:%s:%d" % (comp, sh_i), [exe, "exh", comp, str(level), str(sh_i), str(nsh), str(ctx.seed)]))
        nrand = nt if ctx.thorough() else nq
        if nrand:
            for sh_i in range(nsh):
                jobs.append(("rnd:%s:%d" % (comp, sh_i), [exe, "rnd", comp, str(level), str(sh_i), str(nsh), str(ctx.seed), str(nrand)]))
    r = vlib.run_pipelines(jobs, driver)
    ctx.cov.update({
        "evaluations": r["cases"], "distinct_nontrivial": r["distinct_nontrivial"],
        "traces_validated_against_impl": r["cases"], "ops_executed": r["ops"],
        "op_distribution": r["opcount"], "oracle_checks": r["extra"], "corpus_replayed": corpus,
        "rule": "sweeps (level %d): bucket sizes incl. 0/1/non-multiples of the alignment, bucket alignments 1..4096, block "
                "start offsets incl. misaligned (1,3,9,33,4095..), block sizes around k buckets incl. last partial bucket and the "
                "data_segment.rs formula; request layouts size 0..bucket+1 x alignment 1..4096; canonical fill/free/refill "
                "histories + seeded random allocate/deallocate histories; cal pool/bump through the ShmAllocator trait with "
                "resize_hint for all three strategies after every allocation; PointerOffset boundary values around 2^56/2^64; "
                "message_type_details.rs (real source compiled into the harness) over header/user-header/payload size x alignment "
                "sweeps; DynamicMemory + DynamicView over real posix and process-local shared memory with random "
                "allocate/deallocate/register/unregister interleavings and canary bytes. distinct = distinct (case header, op "
                "sequence); non-trivial = at least one successful allocation" % level,
        "exhaustive": False,
    })
    samples = []
    for lbl, argv in jobs[:1] + [j for j in jobs if j[0].startswith("exh:dyn:")][:1]:
        c = vlib.extract_case(argv, driver, 1)
        if c:
            samples.append({"job": lbl, "case": c[:12]})
    ctx.cov["samples"] = samples
    spec_mm = [m for m in r["mismatch_lines"] if "kind=spec" in m[2]]
    # a job that stopped early AFTER the property oracle had flagged one of its cases is reported
    # through that case (concrete input) below, not as an inputless crash
    flagged = {m[0] for m in spec_mm}
    crashed_flagged = [f for f in r["failed_jobs"] if f[0] in flagged]
    for lbl, cmd, rc, tail in r["failed_jobs"]:
        if lbl in flagged:
            continue
        ctx.violation("correspondence job failed (harness or driver crashed): " + lbl, {"cmd": cmd, "rc": rc, "tail": tail}, no_input=True)
    if crashed_flagged:
        ctx.notes.append("%d jobs stopped early after a property-oracle mismatch of theirs: %s" % (len(crashed_flagged), ", ".join(f[0] for f in crashed_flagged[:40])))
    model_mm = [m for m in r["mismatch_lines"] if "kind=model" in m[2]]
    reported = set()
    n_viol_before = len(ctx.violations)
    # cases on which the concrete model disagrees are never keyed as a known finding
    model_cases = {(cmd, int(line.split("case=")[1].split()[0])) for lbl, cmd, line in model_mm}
    for lbl, cmd, line in spec_mm:
        case_no = int(line.split("case=")[1].split()[0])
        hist = vlib.extract_case(cmd.split(), driver, case_no)
        key = classify(hist, line, model_disagrees=(cmd, case_no) in model_cases)
        if key in reported:
            continue
        reported.add(key)
        ctx.violation("allocator property violated on the real implementation: " + line,
                      {"history": hist, "harness_cmd": cmd, "mismatch": line,
                       "how_to_rerun": cmd + " | " + driver}, key=key)
        if len(ctx.violations) >= 5:
            break
    if crashed_flagged and len(ctx.violations) == n_viol_before:
        # none of their mismatches became a reported violation (all keyed as known findings)
        for lbl, cmd, rc, tail in crashed_flagged:
            ctx.violation("correspondence job failed (harness or driver crashed): " + lbl, {"cmd": cmd, "rc": rc, "tail": tail}, no_input=True)
        n_viol_before = len(ctx.violations)
    hidden = r["mismatches_spec"] - len(spec_mm) - r["extra"].get("spec_repeats_suppressed", 0)
    if hidden > 0 and len(r["mismatch_lines"]) >= 200:
        msg = "%d further property-oracle mismatches were not captured (the pipeline keeps 200 lines)" % hidden
        if len(ctx.violations) == n_viol_before:
            ctx.violation(msg + "; rerun the failing jobs by hand", {"mismatches_spec": r["mismatches_spec"], "captured": len(spec_mm)}, no_input=True)
        else:
            ctx.notes.append(msg)
    # (known findings do not count: only a reported property violation makes the search unnecessary)
    if model_mm and len(ctx.violations) == n_viol_before:
        # SEARCH (DESIGN 3.6): the tie broke but the regular histories did not violate the property
        # oracle.  Before giving up, re-run the harness in drain mode over the layouts of the
        # diverging cases: allocate every bucket with its full size, check bounds / overlap against
        # the real block, canary every byte of every bucket, re-read after each deallocate/allocate,
        # check guard zones around the block.
        found = False
        tried = []
        seen_heads = set()
        for lbl, cmd, line in model_mm:
            case_no = int(line.split("case=")[1].split()[0])
            hist = vlib.extract_case(cmd.split(), driver, case_no)
            head = hist[0].split() if hist else []
            if len(head) < 3 or head[1] not in ("pool", "fixed", "calpool") or hist[0] in seen_heads:
                continue
            seen_heads.add(hist[0])
            dcmd = " ".join([exe, "drn", head[1], "1", "0", "1", str(ctx.seed)] + head[2:])
            tried.append(dcmd)
            rc, out = vlib.sh(dcmd + " 2>/dev/null | " + driver, timeout=300)
            sm = [l for l in out.split("\n") if l.startswith("MISMATCH") and "kind=spec" in l]
            if sm:
                rc2, dh = vlib.sh(dcmd + " 2>/dev/null", timeout=300)
                ctx.violation("allocator property violated on the real implementation (found by the drain search after the "
                              "model correspondence broke: %s): %s" % (line, sm[0]),
                              {"history": dh.split("\n")[:400], "harness_cmd": dcmd, "mismatch": sm[0], "all_spec_mismatches": sm[:20],
                               "first_model_mismatch": line, "how_to_rerun": dcmd + " | " + driver},
                              key=classify(hist, sm[0]))
                found = True
                break
            if len(tried) >= 8:
                break
        if not found:
            lbl, cmd, line = model_mm[0]
            case_no = int(line.split("case=")[1].split()[0])
            hist = vlib.extract_case(cmd.split(), driver, case_no)
            ctx.violation("correspondence model<->implementation broken (concrete model disagrees, property oracle holds): " + line,
                          {"obligation": "G3 correspondence of model/Alloc.v with the implementation", "history": hist,
                           "harness_cmd": cmd, "mismatches_model": r["mismatches_model"],
                           "searched": "drain search over the diverging layouts found no property violation", "drain_cmds": tried}, no_input=True)
    if not proof_ok:
        if not ctx.violations:
            ctx.violation("proof obligation no longer checks: %s" % ctx.broken,
                          {"broken": ctx.broken, "searched": "all histories above satisfy the property oracle"}, no_input=True)
    ctx.assumptions = [
        "theorems are about the Gallina model coq/model/Alloc.v (+ AllocSys.v); tie = observational correspondence (G3) on the histories listed in coverage",
        "usize additions/multiplications are unbounded in the model; subtraction underflow / division by zero are Panic (matches the overflow-checks build used by the harness)",
        "UniqueIndexSet is represented by its sequential LIFO free-list order (concurrency: C09)",
        "extraction: ExtrOcamlBasic only; OCaml driver parses/prints only",
        "dynamic segments: protocol order allocate < register < unregister < deallocate per offset, as the ports enforce it",
    ]


if __name__ == "__main__":
    sys.exit(vlib.main(run, "C15"))
