#!/usr/bin/env python3
"""record_seed.py <seed-id> <property> <caught:true|false|inputless> <outcome text> [demo_with <txt> demo_without <txt> existing <txt>]
Copies /tmp/seed/<id>/seed_out/{patch.diff,demo,meta.json} to /verif/seeded/<id>/ and adds the lead's confirmation + check result."""
import json, os, shutil, sys
sid, prop, caught, outcome = sys.argv[1:5]
rest = sys.argv[5:]
src = "/tmp/seed/%s/seed_out" % sid
dst = "/verif/seeded/%s" % sid
os.makedirs(dst, exist_ok=True)
if os.path.isdir(src):
    shutil.copy(os.path.join(src, "patch.diff"), dst)
    if os.path.isdir(os.path.join(src, "demo")):
        shutil.rmtree(os.path.join(dst, "demo"), ignore_errors=True)
        shutil.copytree(os.path.join(src, "demo"), os.path.join(dst, "demo"))
    m = json.load(open(os.path.join(src, "meta.json")))
else:
    m = json.load(open(os.path.join(dst, "meta.json")))
m["property"] = prop
if rest:
    m["confirmed_by_lead"] = {"demo_with_patch": rest[0], "demo_without_patch": rest[1], "existing_tests": rest[2]}
cr = m.get("check_result", {})
if "outcome" in cr and cr.get("outcome") != outcome:
    m.setdefault("check_history", []).append(cr)
m["check_result"] = {"cmd": "tools/mutrun.sh /tmp/seed/%s %s quick" % (sid, prop), "outcome": outcome,
                     "caught": {"true": True, "false": False}.get(caught, caught)}
json.dump(m, open(os.path.join(dst, "meta.json"), "w"), indent=1)
print("recorded", dst)
