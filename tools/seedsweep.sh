#!/bin/bash
# quick tier of every check under several seeds: looks for seed-dependent alarms on the unchanged tree
cd /verif
for seed in 1 2 3; do
  for id in C01 C02 C08 C03 C05 C06 C07 C09 C10 C11 C12 C13 C14 C15 C16 C17 C18 C19 C20; do
    s=$(date +%s)
    VERIF_SEED=$seed VERIF_OUT_DIR=/verif/build-mut/sweep-out timeout 2400 ./check $id quick > /verif/build-mut/sweep_${id}_$seed.log 2>&1; rc=$?
    echo "seed=$seed $id rc=$rc $(( $(date +%s)-s ))s viol=$(grep -c '^VIOLATION' /verif/build-mut/sweep_${id}_$seed.log)" >> /verif/build-mut/sweep.log
  done
done
echo SWEEP-DONE >> /verif/build-mut/sweep.log
