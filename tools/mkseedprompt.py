#!/usr/bin/env python3
"""usage: mkseedprompt.py <property id> <worktree dir>  -- prints the prompt for a seeding sub-agent"""
import json, sys
pid, wt = sys.argv[1], sys.argv[2]
for l in open('/verif/properties.jsonl'):
    d = json.loads(l)
    if d['id'] == pid:
        a = dict(d['anchors']); a.pop('hook_needed', None)
        prop = json.dumps({'title': d['title'], 'statement': d['statement'], 'quantifier': d['quantifier'],
                           'why_tests_cant': d['why_tests_cant'], 'anchors': a}, indent=1)
        print(open('/verif/tools/seed_prompt_template.txt').read().replace('WORKTREE', wt).replace('PROPERTY_JSON', prop))
