NOTES = ("Technique family: machine-checked proof in Coq 8.16.1. Every claimed property has theorems in coq/props/<id>.v "
         "(statements only, closed by `exact`, Print Assumptions checked against an allowlist on every run) about hand-written "
         "executable Gallina models, and a correspondence check that runs the extracted model and the implementation built "
         "from /repo's current working tree on the same inputs. See DESIGN.md.")

CLAIMED = {}   # filled from tools/claims/Cxx.json by gen_manifest.py

NOT_CLAIMED = {}
