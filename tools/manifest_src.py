NOTES = ("Technique family: machine-checked proof in Coq 8.16.1. Every claimed property has theorems in coq/props/<id>.v "
         "(statements only, closed by `exact`, Print Assumptions checked against an allowlist on every run) about hand-written "
         "executable Gallina models, and a correspondence check that runs the extracted model and the implementation built "
         "from /repo's current working tree on the same inputs. See DESIGN.md.")

CLAIMED = {
 "C16": {
  "text": "Refinement theorems (all capacities, all operation sequences, by induction) from the concrete representation "
          "models (ring buffer with start/len cursors, ...) to unbounded reference containers with a capacity guard; the models are tied to "
          "the real heap/inline/relocatable containers by differential execution of exhaustive short and long random histories "
          "with a drop-logging element type.",
  "design_ref": "DESIGN.md section 4 C16",
  "note": "Trusted: Coq kernel; extraction (ExtrOcamlBasic only) + OCaml driver (parse/print); Rust harness; the tie is observational "
          "(return values, len, drop log), so a divergence needs a history inside the explored bounds to be seen. Memory safety of the unsafe code is not modelled.",
  "technique": "Coq refinement proof (induction over op lists) + extracted-model differential correspondence",
 },
}

NOT_CLAIMED = {}
