#!/bin/bash
# runs every registered quick check in sequence and prints one status line per property
cd /verif
for id in $(python3 -c "import json;print(' '.join(c['property_id'] for c in json.load(open('MANIFEST.json'))['checks']))"); do
  s=$(date +%s)
  out=$(./check $id quick 2>&1)
  rc=$?
  e=$(( $(date +%s) - s ))
  nv=$(echo "$out" | grep -c "^VIOLATION")
  nk=$(echo "$out" | grep -c "^KNOWN-FINDING")
  echo "$id rc=$rc violations=$nv known=$nk wall=${e}s"
  if [ $rc -ne 0 ]; then echo "$out" | grep -E "^\[|^VIOLATION" | head -6 | cut -c1-300; fi
done
