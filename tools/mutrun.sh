#!/bin/bash
# usage: tools/mutrun.sh <scratch worktree of /repo> <Cxx> [quick|thorough]
# Runs ./check Cxx against the scratch tree WITHOUT touching /repo: a private mount namespace
# binds the scratch tree over /repo; build artefacts, evidence and replays go to /verif/build-mut.
wt="$1"; id="$2"; tier="${3:-quick}"
[ -d "$wt" ] || { echo "no such worktree $wt"; exit 2; }
mkdir -p /verif/build-mut/out
exec unshare -m bash -c "mount --bind '$wt' /repo && cd /verif && VERIF_BUILD_DIR=/verif/build-mut VERIF_OUT_DIR=/verif/build-mut/out ./check $id $tier"
