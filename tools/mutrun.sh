#!/bin/bash
# usage: tools/mutrun.sh <scratch worktree of /repo> <Cxx> [quick|thorough]
# Runs ./check Cxx against the scratch tree WITHOUT touching /repo: a private mount namespace
# binds the scratch tree over /repo; build artefacts, evidence and replays go to a build
# directory of their own PER WORKTREE (/verif/build-mut/<name>): cargo decides freshness by
# path + mtime, so two different trees mounted at /repo must never share a target directory.
wt="$1"; id="$2"; tier="${3:-quick}"
[ -d "$wt" ] || { echo "no such worktree $wt"; exit 2; }
name="$(basename "$wt")"
b="/verif/build-mut/$name"
mkdir -p "$b/out"
# private copy of the Coq tree: translator-generated files (coq/gen) and .vo files of a mutated
# run must not leak into the shared development
rsync -a --delete /verif/coq/ "$b/coq/"
exec unshare -m bash -c "mount --bind '$wt' /repo && mount --bind '$b/coq' /verif/coq && cd /verif && VERIF_BUILD_DIR='$b' VERIF_OUT_DIR='$b/out' ./check $id $tier"
