#!/bin/bash
# usage: coqshow.sh <file.v relative to /verif/coq> <line>  -- prints the goals after line <line>
cd /verif/coq
f="$1"; n="$2"
tmp="wip/_show_$$.v"
head -n "$n" "$f" > "$tmp"
echo "Show." >> "$tmp"
timeout 300 coqc -q -Q . V "$tmp" 2>&1 | head -${3:-60}
rm -f "$tmp" wip/_show_$$.vo wip/_show_$$.glob wip/._show_$$.aux wip/_show_$$.vok wip/_show_$$.vos
