#!/usr/bin/env python3
"""Controller for the G2 libc-call gate (harness/libgate/gate.c, DESIGN.md 3.2).

Spawns REAL processes under LD_PRELOAD=libgate.so and drives them one gated libc call at a
time (mode 2 of the gate), or lets them run and kills them at a chosen gated call (mode 1).

    import gatectl
    gatectl.build()                                  # cc gate.c -> /verif/build/libgate.so
    with gatectl.Controller(root="/var/tmp/x/root") as ctl:      # root = gated directory tree
        g = ctl.spawn("g", ["/path/guard", "/var/tmp/x/root/st"])      # stops at its 1st gated call
        m = ctl.spawn("m", ["/path/monitor", "/var/tmp/x/root/st"])
        ctl.settle()                                 # until every process is stopped / idle / gone
        print(ctl.pending())                         # {"g": Call(open ...), "m": Call(open ...)}
        call, result, errno = ctl.step("g")          # perform exactly that call
        ctl.fail("m", "EACCES")                      # fault injection: the call returns -1/EACCES
        ctl.kill("g")                                # SIGKILL at the gate (crash point)
        ctl.run_to_idle("m")                         # step m until it exits or goes idle
        ctl.trace                                    # [(name, Call, result, errno), ...] in execution order

    # mode 1, no controller: kill at the n-th gated call, read the log afterwards
    rc, out, calls = gatectl.run_logged(argv, root, kill_at=7, kill_after=False)

    # all interleavings up to a preemption bound (same algorithm as harness/g1/sched `explore`):
    for record, choices in gatectl.explore(run_one, bound=2):   # run_one(chooser) runs ONE fresh execution
        ...                                                     # and calls chooser(enabled, last) at each step

A process is *idle* when it is neither stopped at a gate nor gone but is known to wait for
input: processes that speak the `R`-line protocol of the harness binaries (every command sent
with Proc.send() is answered by exactly one stdout line starting with "R ") are idle when no
answer is outstanding.  For other programs pass your own `idle` predicate to settle().
Never blocks for ever: every wait has a timeout (GateTimeout).  close() kills every child,
closes and unlinks the socket.
"""
import atexit
import os
import select
import signal
import socket
import subprocess
import tempfile
import time

VERIF = os.path.dirname(os.path.dirname(os.path.abspath(__file__)))
LIB = os.path.join(VERIF, "build", "libgate.so")
BUILD_SH = os.path.join(VERIF, "harness", "libgate", "build.sh")


class GateTimeout(Exception):
    pass


class GateError(Exception):
    pass


def build(timeout=180):
    """(re)build libgate.so if gate.c is newer; returns the path"""
    p = subprocess.run(["timeout", str(timeout), "bash", BUILD_SH, LIB], stdout=subprocess.PIPE, stderr=subprocess.STDOUT, text=True)
    if p.returncode != 0 or not os.path.exists(LIB):
        raise GateError("libgate build failed: " + p.stdout[-2000:])
    return LIB


def gate_env(root, shm_prefix=None, log=None, ctl=None, kill_at=None, kill_after=False, lib=None, base=None):
    """environment for a gated process"""
    e = dict(os.environ if base is None else base)
    for k in list(e):
        if k.startswith("VERIF_GATE_"):
            del e[k]
    e["LD_PRELOAD"] = lib or LIB
    e["VERIF_GATE_ROOT"] = root if isinstance(root, str) else ":".join(root)
    if shm_prefix:
        e["VERIF_GATE_SHM_PREFIX"] = shm_prefix
    if log:
        e["VERIF_GATE_LOG"] = log
    if ctl:
        e["VERIF_GATE_CTL"] = ctl
    if kill_at:
        e["VERIF_GATE_KILL_AT"] = str(kill_at)
        if kill_after:
            e["VERIF_GATE_KILL_AFTER"] = "1"
    return e


class Call:
    """one gated libc call: .call .path .args (dict) .seq .pid .tid"""
    __slots__ = ("pid", "tid", "seq", "call", "path", "argstr", "result", "errno")

    def __init__(self, pid, tid, seq, call, path, argstr, result=None, errno=None):
        self.pid, self.tid, self.seq, self.call, self.path, self.argstr = pid, tid, seq, call, path, argstr
        self.result, self.errno = result, errno

    @property
    def args(self):
        if self.argstr == "-":
            return {}
        return dict(kv.split("=", 1) if "=" in kv else (kv, "") for kv in self.argstr.split(","))

    def __repr__(self):
        r = "" if self.result is None else " -> %s %s" % (self.result, self.errno)
        return "Call(%d #%d %s %s %s%s)" % (self.pid, self.seq, self.call, self.path, self.argstr, r)


def parse_log(path):
    """VERIF_GATE_LOG file -> list of Call (with result/errno)"""
    out = []
    if not os.path.exists(path):
        return out
    for line in open(path, errors="replace"):
        f = line.rstrip("\n").split(" ")
        if len(f) != 7:
            continue
        out.append(Call(int(f[0]), 0, int(f[1]), f[2], f[3], f[4], f[5], f[6]))
    return out


def run_logged(argv, root, kill_at=None, kill_after=False, shm_prefix=None, stdin_data=None, timeout=30, log=None, user=None):
    """mode 1: run to completion (or to the kill), return (returncode, stdout, [Call...])"""
    own = log is None
    if own:
        fd, log = tempfile.mkstemp(prefix="gate-", suffix=".log", dir=os.path.dirname(root.rstrip("/")) or "/var/tmp")
        os.close(fd)
        if user is not None:
            os.chmod(log, 0o666)
    try:
        kw = {}
        if user is not None:
            kw = {"user": user, "group": user}
        p = subprocess.run(argv, env=gate_env(root, shm_prefix, log, None, kill_at, kill_after), input=stdin_data,
                           stdout=subprocess.PIPE, stderr=subprocess.DEVNULL, timeout=timeout, text=True, **kw)
        return p.returncode, p.stdout, parse_log(log)
    finally:
        if own and os.path.exists(log):
            os.unlink(log)


class Proc:
    """a spawned, gated process"""

    def __init__(self, name, popen):
        self.name = name
        self.popen = popen
        self.pid = popen.pid
        self.actors = []          # connections (one per thread that reached a gate)
        self.out_buf = b""
        self.lines = []           # stdout lines received so far
        self.outstanding = 0      # commands sent whose "R " answer has not arrived
        self.exited = None        # return code once reaped
        self.stdout_eof = False
        self.trace = []           # completed gated calls of this process
        self.killed_at = None

    def send(self, line):
        """send one command line on stdin (R-line protocol: one 'R ...' answer per command)"""
        self.outstanding += 1
        try:
            self.popen.stdin.write((line + "\n").encode())
            self.popen.stdin.flush()
        except (BrokenPipeError, OSError):
            self.outstanding -= 1

    def close_stdin(self):
        try:
            self.popen.stdin.close()
        except Exception:
            pass

    def results(self):
        return [l for l in self.lines if l.startswith("R ")]

    def gone(self):
        return self.exited is not None


class _Actor:
    def __init__(self, conn):
        self.conn = conn
        self.buf = b""
        self.pid = None
        self.tid = None
        self.ppid = None
        self.proc = None
        self.pending = None
        self.inflight = None
        self.alive = True


class Controller:
    def __init__(self, root, shm_prefix=None, log=None, sock_dir=None, lib=None, timeout=20.0, stderr=None):
        self.root = root
        self.shm_prefix = shm_prefix
        self.log = log
        self.lib = lib or LIB
        self.timeout = timeout
        self.stderr = stderr
        self._own_dir = None
        if sock_dir is None:
            sock_dir = tempfile.mkdtemp(prefix="gatectl-", dir="/var/tmp")
            self._own_dir = sock_dir
        self.sock_path = os.path.join(sock_dir, "ctl-%d-%x.sock" % (os.getpid(), id(self) & 0xffffff))
        if len(self.sock_path) > 100:
            raise GateError("socket path too long: " + self.sock_path)
        if os.path.exists(self.sock_path):
            os.unlink(self.sock_path)
        self.lsock = socket.socket(socket.AF_UNIX, socket.SOCK_STREAM)
        self.lsock.bind(self.sock_path)
        os.chmod(self.sock_path, 0o777)
        self.lsock.listen(64)
        self.procs = {}
        self.actors = []
        self.trace = []           # (name, Call) in completion order; Call carries result/errno
        self.unknown_policy = "go"   # calls of processes we did not spawn (forked grandchildren): "go" | "hold"
        self.closed = False
        atexit.register(self.close)

    # ------------------------------------------------------------------ lifecycle
    def __enter__(self):
        return self

    def __exit__(self, *a):
        self.close()

    def close(self):
        if self.closed:
            return
        self.closed = True
        for p in self.procs.values():
            if p.exited is None:
                try:
                    p.popen.kill()
                except Exception:
                    pass
        for p in self.procs.values():
            try:
                p.popen.wait(timeout=5)
            except Exception:
                pass
            for f in (p.popen.stdin, p.popen.stdout):
                try:
                    if f:
                        f.close()
                except Exception:
                    pass
        for a in self.actors:
            try:
                a.conn.close()
            except Exception:
                pass
        try:
            self.lsock.close()
        except Exception:
            pass
        try:
            os.unlink(self.sock_path)
        except OSError:
            pass
        if self._own_dir:
            try:
                os.rmdir(self._own_dir)
            except OSError:
                pass
        try:
            atexit.unregister(self.close)
        except Exception:
            pass

    def env(self, extra=None, kill_at=None, kill_after=False):
        e = gate_env(self.root, self.shm_prefix, self.log, self.sock_path, kill_at, kill_after, self.lib)
        if extra:
            e.update(extra)
        return e

    def spawn(self, name, argv, env=None, user=None, cwd=None, kill_at=None, kill_after=False, expect=0):
        """expect = number of 'R ' answer lines the program prints for commands built into its argv"""
        if name in self.procs:
            raise GateError("duplicate process name " + name)
        kw = {}
        if user is not None:
            kw = {"user": user, "group": user}
        po = subprocess.Popen(argv, env=self.env(env, kill_at, kill_after), stdin=subprocess.PIPE, stdout=subprocess.PIPE,
                              stderr=self.stderr if self.stderr is not None else subprocess.DEVNULL, cwd=cwd, **kw)
        os.set_blocking(po.stdout.fileno(), False)
        p = Proc(name, po)
        p.outstanding = expect
        self.procs[name] = p
        return p

    # ------------------------------------------------------------------ event pump
    def _pump(self, timeout):
        """process whatever arrives within `timeout` seconds; returns True if anything happened"""
        rl = [self.lsock] + [a.conn for a in self.actors if a.alive]
        rl += [p.popen.stdout for p in self.procs.values() if not p.stdout_eof]
        try:
            ready, _, _ = select.select(rl, [], [], timeout)
        except InterruptedError:
            return True
        happened = False
        for r in ready:
            happened = True
            if r is self.lsock:
                c, _ = self.lsock.accept()
                self.actors.append(_Actor(c))
                continue
            act = next((a for a in self.actors if a.conn is r), None)
            if act is not None:
                try:
                    data = r.recv(65536)
                except (ConnectionResetError, OSError):
                    data = b""
                if not data:
                    act.alive = False
                    act.pending = None
                    try:
                        r.close()
                    except Exception:
                        pass
                    continue
                act.buf += data
                while b"\n" in act.buf:
                    line, act.buf = act.buf.split(b"\n", 1)
                    self._on_line(act, line.decode(errors="replace"))
                continue
            for p in self.procs.values():
                if p.popen.stdout is r:
                    try:
                        data = os.read(r.fileno(), 65536)
                    except BlockingIOError:
                        data = None
                    except OSError:
                        data = b""
                    if data is None:
                        break
                    if not data:
                        p.stdout_eof = True
                        break
                    p.out_buf += data
                    while b"\n" in p.out_buf:
                        line, p.out_buf = p.out_buf.split(b"\n", 1)
                        s = line.decode(errors="replace")
                        p.lines.append(s)
                        if s.startswith("R ") and p.outstanding > 0:
                            p.outstanding -= 1
                    break
        for p in self.procs.values():
            if p.exited is None:
                rc = p.popen.poll()
                if rc is not None:
                    p.exited = rc
                    happened = True
        return happened

    def _on_line(self, act, line):
        f = line.split(" ")
        if f[0] == "hello" and len(f) >= 4:
            act.pid, act.tid, act.ppid = int(f[1]), int(f[2]), int(f[3])
            for p in self.procs.values():
                if p.pid == act.pid:
                    act.proc = p
                    p.actors.append(act)
        elif f[0] == "call" and len(f) >= 7:
            c = Call(int(f[1]), int(f[2]), int(f[3]), f[4], f[5], f[6])
            if act.proc is None and self.unknown_policy == "go":
                self._reply(act, "go")
                act.inflight = c
            else:
                act.pending = c
        elif f[0] == "ret" and len(f) >= 6:
            c = act.inflight
            act.inflight = None
            if c is not None:
                c.result, c.errno = f[4], f[5]
                name = act.proc.name if act.proc else "pid%d" % (act.pid or 0)
                if act.proc:
                    act.proc.trace.append(c)
                self.trace.append((name, c))

    def _reply(self, act, word):
        try:
            act.conn.sendall((word + "\n").encode())
        except OSError:
            act.alive = False

    # ------------------------------------------------------------------ queries
    def _proc(self, name):
        return name if isinstance(name, Proc) else self.procs[name]

    def _pending_actor(self, p, tid=None):
        for a in p.actors:
            if a.alive and a.pending is not None and (tid is None or a.tid == tid):
                return a
        return None

    def _settled(self, p, idle):
        if p.exited is not None:
            # drain: the exit may race with the last lines
            return True
        if self._pending_actor(p) is not None:
            return True
        if any(a.alive and a.inflight is not None for a in p.actors):
            return False
        return bool(idle(p))

    def settle(self, names=None, idle=None, timeout=None):
        """wait until every named (default: every) process is stopped at a gate, gone, or idle"""
        idle = idle or (lambda p: False)
        procs = [self._proc(n) for n in (names if names is not None else list(self.procs))]
        deadline = time.time() + (timeout if timeout is not None else self.timeout)
        self._pump(0)
        while True:
            if all(self._settled(p, idle) for p in procs):
                # one more non-blocking look so that output written just before stopping is seen
                self._pump(0)
                if all(self._settled(p, idle) for p in procs):
                    return
            left = deadline - time.time()
            if left <= 0:
                raise GateTimeout("settle: not settled: " + ",".join(p.name for p in procs if not self._settled(p, idle)))
            self._pump(min(left, 0.2))

    def pending(self):
        """{name: Call} for every process that is stopped at a gate right now (no waiting: a process
        that has just been stepped may still be on its way to its next gate -- call settle() first)"""
        self._pump(0)
        out = {}
        for n, p in self.procs.items():
            a = self._pending_actor(p)
            if a is not None:
                out[n] = a.pending
        return out

    def pending_all(self, name):
        """all stopped threads of a process: [(tid, Call)]"""
        self._pump(0)
        return [(a.tid, a.pending) for a in self._proc(name).actors if a.alive and a.pending is not None]

    # ------------------------------------------------------------------ actions
    def _release(self, name, word, tid=None, wait=True, timeout=None):
        p = self._proc(name)
        a = self._pending_actor(p, tid)
        deadline = time.time() + (timeout if timeout is not None else self.timeout)
        while a is None and p.exited is None and time.time() < deadline:
            # the process may still be on its way to its next gate
            self._pump(0.05)
            a = self._pending_actor(p, tid)
        if a is None:
            raise GateError("%s is not stopped at a gate" % p.name)
        c = a.pending
        a.pending = None
        a.inflight = c
        self._reply(a, word)
        if not wait:
            return c, None, None
        deadline = time.time() + (timeout if timeout is not None else self.timeout)
        while a.inflight is c and a.alive and p.exited is None:
            left = deadline - time.time()
            if left <= 0:
                return c, None, None           # blocked inside the call (F_SETLKW, flock, ...): result arrives later
            self._pump(min(left, 0.2))
        if a.inflight is c:                    # process died inside / right after the call without reporting
            a.inflight = None
            return c, None, None
        return c, c.result, c.errno

    def step(self, name, tid=None, timeout=None):
        """perform the call `name` is stopped at; returns (Call, result, errno); result None = the
        call has not returned within the timeout (blocking call) or the process died in it"""
        return self._release(name, "go", tid, True, timeout)

    def fail(self, name, errno_name, tid=None):
        """fault injection: the pending call is not performed and returns -1 with this errno"""
        return self._release(name, "fail %s" % errno_name, tid, True, None)

    def detach(self, name):
        """let the process run free from now on"""
        return self._release(name, "detach", None, False, None)

    def kill(self, name, timeout=None):
        """crash the process now: at its gate if it is stopped at one (the call is NOT performed)"""
        p = self._proc(name)
        a = self._pending_actor(p)
        if a is not None:
            p.killed_at = a.pending
            a.pending = None
            self._reply(a, "kill")
        else:
            try:
                p.popen.kill()
            except Exception:
                pass
        deadline = time.time() + (timeout if timeout is not None else self.timeout)
        while p.exited is None:
            if time.time() > deadline:
                p.popen.kill()
            self._pump(0.05)
        # the kernel has released the locks and closed the fds once the process is reaped
        for act in p.actors:
            act.pending = None
        return p.exited

    def wait_exit(self, name, timeout=None):
        p = self._proc(name)
        deadline = time.time() + (timeout if timeout is not None else self.timeout)
        while p.exited is None or not p.stdout_eof:
            if self._pending_actor(p) is not None:
                raise GateError("%s is stopped at a gate, not exiting" % p.name)
            if time.time() > deadline:
                raise GateTimeout("wait_exit " + p.name)
            self._pump(0.1)
        return p.exited

    def run_to_idle(self, name, idle=None, max_steps=10000):
        """step one process (everything else stands still) until it is idle or gone; returns its calls"""
        p = self._proc(name)
        done = []
        for _ in range(max_steps):
            self.settle([p], idle)
            if self._pending_actor(p) is None:
                return done
            c, r, e = self.step(p)
            done.append(c)
        raise GateError("run_to_idle: too many steps")

    def run_schedule(self, chooser, names=None, idle=None, on_step=None, max_steps=100000):
        """run the processes to quiescence; at every point where >= 1 process is stopped at a gate
        chooser(enabled_names_sorted, last_name) picks who moves.  Returns the list of choices."""
        last = None
        choices = []
        for _ in range(max_steps):
            self.settle(names, idle)
            pend = self.pending()
            enabled = sorted(n for n in pend if names is None or n in names)
            if not enabled:
                return choices
            pick = chooser(enabled, last)
            if pick is None:
                return choices
            c, r, e = self.step(pick)
            choices.append(pick)
            last = pick
            if on_step:
                on_step(pick, c)
        raise GateError("run_schedule: too many steps")


def r_idle(p):
    """idle predicate for programs speaking the R-line protocol (harness/g2 binaries)"""
    return p.outstanding == 0


def explore(run_one, bound, max_execs=10 ** 9):
    """Enumerates all schedules with at most `bound` preemptions (a preemption = switching away
    from a process that could have continued).  run_one(chooser) must execute ONE fresh instance
    of the scenario, calling chooser(enabled, last) -> name at every scheduling point (enabled
    sorted, deterministic), and return a record.  Yields (record, choices)."""
    prefix = []
    execs = 0
    while True:
        log = []   # (cands, chosen, prev_enabled)

        def chooser(enabled, last, _log=log, _pfx=prefix):
            default = last if last in enabled else enabled[0]
            cands = [default] + [t for t in enabled if t != default]
            i = len(_log)
            c = _pfx[i] if i < len(_pfx) else default
            if c not in cands:
                raise GateError("explore: non-deterministic scenario (choice %r not enabled at step %d: %r)" % (c, i, enabled))
            _log.append((cands, c, last in enabled))
            return c

        rec = run_one(chooser)
        execs += 1
        yield rec, [c for _, c, _ in log]
        if execs >= max_execs:
            return
        pre = [0]
        for cands, c, prev_en in log:
            pre.append(pre[-1] + (1 if (c != cands[0] and prev_en) else 0))
        found = None
        for i in range(len(log) - 1, -1, -1):
            cands, c, prev_en = log[i]
            k = cands.index(c)
            if k + 1 < len(cands):
                cost = 1 if prev_en else 0
                if pre[i] + cost <= bound:
                    found = (i, cands[k + 1])
                    break
        if found is None:
            return
        i, t = found
        prefix = [c for _, c, _ in log[:i]] + [t]


def scripted(schedule):
    """chooser replaying a fixed list of names; after the list is exhausted keeps running the
    last process if enabled, else the first enabled"""
    it = iter(schedule)

    def chooser(enabled, last):
        for want in it:
            if want in enabled:
                return want
            raise GateError("scripted schedule: %r not enabled (enabled: %r)" % (want, enabled))
        return last if last in enabled else enabled[0]
    return chooser
