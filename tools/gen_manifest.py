#!/usr/bin/env python3
"""Regenerates /verif/MANIFEST.json from tools/manifest_src.py (single source of truth)."""
import json, os, sys
sys.path.insert(0, os.path.dirname(os.path.abspath(__file__)))
import manifest_src as M
import glob
for f in sorted(glob.glob(os.path.join(os.path.dirname(os.path.abspath(__file__)), "claims", "C*.json"))):
    d = json.load(open(f))
    M.CLAIMED[os.path.basename(f)[:-5]] = d

VERIF = os.path.dirname(os.path.dirname(os.path.abspath(__file__)))
ids = [json.loads(l)["id"] for l in open(os.path.join(VERIF, "properties.jsonl"))]
checks = []
for pid in ids:
    if pid in M.CLAIMED:
        c = M.CLAIMED[pid]
        checks.append({
            "property_id": pid,
            "quick_cmd": "./check %s quick" % pid,
            "thorough_cmd": "./check %s thorough" % pid,
            "evidence_file": "/verif/evidence/%s.json" % pid,
            "replay_cmd_template": "./check %s --replay {path}" % pid,
            "engine": "coq-proof+correspondence",
            "level_claimed": {"category": c.get("category", "proof") if c.get("category", "proof") in ("exploration", "fault_enumeration", "model_checking", "proof", "translation_validation", "other") else "proof", "text": c["text"], "design_ref": c["design_ref"]},
            "level_note": c["note"],
            "technique": c["technique"],
        })
na = [{"property_id": pid, "reason": M.NOT_CLAIMED.get(pid, "no check registered yet: model and tie still being built (see DESIGN.md section 8)")}
      for pid in ids if pid not in M.CLAIMED]
man = {
    "version": 1,
    "setup_cmd": "./setup.sh",
    "hooks": {
        "guard": "iceoryx2_verif",
        "enable": "none needed: no hook commits in /repo; instrumentation is injected from outside (cargo `paths` override of iceoryx2-pal-concurrency-sync, LD_PRELOAD libc gate)",
        "baseline_off_cmd": "cd /repo && cargo nextest run --workspace --no-fail-fast --tool-config-file pb:/w/lib/nextest.toml --profile pb --test-threads 8 --offline",
        "source_commits": [],
        "add_only": True,
    },
    "engines": [{"name": "coq-proof+correspondence", "path": "/verif/check",
                 "serves_properties": [c["property_id"] for c in checks],
                 "kind_free_text": "Coq 8.16.1 theorems about executable Gallina models (coq/), tied to /repo on every run by correspondence checks that run the extracted OCaml model and the implementation on the same histories/schedules (harness/, ocaml/)"}],
    "checks": checks,
    "not_applicable": na,
    "notes": M.NOTES,
}
open(os.path.join(VERIF, "MANIFEST.json"), "w").write(json.dumps(man, indent=1) + "\n")
print("MANIFEST.json:", len(checks), "checks,", len(na), "not claimed")
