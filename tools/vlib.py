#!/usr/bin/env python3
"""Shared machinery for the /verif checks (see DESIGN.md section 1.1, 3.6, 7).

A check is a python module tools/checks/Cxx.py with a function run(ctx).  It uses the
helpers below to
  1. run the hygiene greps over the Coq development,
  2. build the property's Coq cone (full .vo build) and re-check props/Cxx.v, collecting
     the `Print Assumptions` output,
  3. build the OCaml executable of the extracted model and the Rust harness that drives the
     implementation from /repo's current working tree,
  4. run the correspondence (tie) and, when something broke, the search,
  5. print VIOLATION / KNOWN-FINDING lines, write the evidence file, set the exit code.
"""
import hashlib
import json
import os
import re
import subprocess
import sys
import time

VERIF = os.path.dirname(os.path.dirname(os.path.abspath(__file__)))
REPO = os.environ.get("VERIF_REPO", "/repo")
COQ = os.path.join(VERIF, "coq")
BUILD = os.environ.get("VERIF_BUILD_DIR", os.path.join(VERIF, "build"))
# where evidence/ and replays/ are written (overridden when a check is run against a scratch copy of /repo)
OUT = os.environ.get("VERIF_OUT_DIR", VERIF)
NPROC = os.cpu_count() or 4

# Axioms of the standard library that a theorem may depend on (each one is named in
# DESIGN.md section 6 when it is actually used).  Anything else in a Print Assumptions
# output fails the check.
AXIOM_ALLOW = {
    "Coq.Logic.FunctionalExtensionality.functional_extensionality_dep",
    "functional_extensionality_dep",
    "Coq.Logic.Eqdep.Eq_rect_eq.eq_rect_eq",
    "Eqdep.Eq_rect_eq.eq_rect_eq",
}

HYGIENE_PATTERNS = [
    r"\bAdmitted\b", r"\badmit\b", r"\bAxiom\b", r"\bAxioms\b", r"\bParameter\b", r"\bParameters\b",
    r"\bConjecture\b", r"\bAdmit Obligations\b", r"Unset Guard", r"bypass_check",
    r"type-in-type", r"impredicative-set", r"Unset Positivity", r"Unset Universe Checking",
    r"\bgive_up\b", r"native_compute",
]


def sh(cmd, timeout=None, cwd=None, env=None, inp=None):
    """Run a shell command, return (rc, combined output).  rc 124 on timeout."""
    e = dict(os.environ)
    e.setdefault("CARGO_NET_OFFLINE", "true")
    if env:
        e.update(env)
    try:
        p = subprocess.run(cmd, shell=isinstance(cmd, str), executable='/bin/bash' if isinstance(cmd, str) else None, cwd=cwd, env=e, input=inp,
                           stdout=subprocess.PIPE, stderr=subprocess.STDOUT,
                           timeout=timeout, text=True, errors="replace")
        return p.returncode, p.stdout
    except subprocess.TimeoutExpired as ex:
        out = ex.stdout or ""
        if isinstance(out, bytes):
            out = out.decode(errors="replace")
        return 124, out + "\n[timeout after %ss]" % timeout


def strip_coq_comments(src):
    out = []
    depth = 0
    i = 0
    n = len(src)
    instr = False
    while i < n:
        c = src[i]
        if depth == 0 and c == '"':
            instr = not instr
            out.append(c)
            i += 1
            continue
        if not instr and src.startswith("(*", i):
            depth += 1
            i += 2
            continue
        if not instr and depth > 0 and src.startswith("*)", i):
            depth -= 1
            i += 2
            continue
        if depth == 0:
            out.append(c)
        elif c == "\n":
            out.append(c)
        i += 1
    return "".join(out)


def coq_files():
    res = []
    for root, dirs, files in os.walk(COQ):
        if "wip" in dirs:
            dirs.remove("wip")   # scratch area: not part of the development, never built by checks
        for f in files:
            if f.endswith(".v"):
                res.append(os.path.join(root, f))
    return sorted(res)


def hygiene():
    """Forbidden constructs anywhere in the development (comments stripped)."""
    hits = []
    for f in coq_files():
        src = strip_coq_comments(open(f, errors="replace").read())
        for ln, line in enumerate(src.split("\n"), 1):
            for pat in HYGIENE_PATTERNS:
                if re.search(pat, line):
                    hits.append("%s:%d: %s" % (os.path.relpath(f, VERIF), ln, line.strip()[:120]))
        # Variable / Hypothesis outside a section
        depth = 0
        for ln, line in enumerate(src.split("\n"), 1):
            s = line.strip()
            if re.match(r"Section\s+\w+", s):
                depth += 1
            elif re.match(r"End\s+\w+\s*\.", s) and depth > 0:
                depth -= 1
            elif depth == 0 and re.match(r"(Variable|Variables|Hypothesis|Hypotheses|Context)\b", s):
                hits.append("%s:%d: section-less %s" % (os.path.relpath(f, VERIF), ln, s[:80]))
    proj = open(os.path.join(COQ, "_CoqProject")).read()
    for bad in ("-type-in-type", "-impredicative-set", "-vos", "-vok", "-noinit"):
        if bad in proj:
            hits.append("_CoqProject: %s" % bad)
    return hits


def ensure_makefile():
    import fcntl
    os.makedirs(BUILD, exist_ok=True)
    with open(os.path.join(BUILD, "coqproject.lock"), "w") as lk:
        fcntl.flock(lk, fcntl.LOCK_EX)
        _ensure_makefile()


def _ensure_makefile():
    mk = os.path.join(COQ, "Makefile")
    proj = os.path.join(COQ, "_CoqProject")
    files = [os.path.relpath(f, COQ) for f in coq_files()]
    want = "-Q . V\n-arg -w -arg -notation-overridden,-deprecated-hint-without-locality,-deprecated-instance-without-locality\n" + "\n".join(files) + "\n"
    cur = open(proj).read() if os.path.exists(proj) else ""
    if cur != want or not os.path.exists(mk):
        open(proj, "w").write(want)
        rc, out = sh("coq_makefile -f _CoqProject -o Makefile", cwd=COQ, timeout=120)
        if rc != 0:
            raise RuntimeError("coq_makefile failed: " + out)


def coq_make(targets, timeout=1500):
    """Full .vo build of the given targets (paths relative to coq/)."""
    ensure_makefile()
    # one lock so that concurrent checks do not compile the same shared file twice at once
    os.makedirs(BUILD, exist_ok=True)
    lock = os.path.join(BUILD, "coq.lock")
    cmd = "flock %s timeout %d make -j%d %s" % (lock, timeout, NPROC, " ".join(targets))
    return sh(cmd, cwd=COQ, timeout=timeout + 600)


def coq_cone(vfile):
    """Transitive dependencies (as .v paths relative to coq/) of a file of the development."""
    ensure_makefile()
    seen = set()
    todo = [vfile]
    while todo:
        f = todo.pop()
        if f in seen:
            continue
        seen.add(f)
        src = strip_coq_comments(open(os.path.join(COQ, f), errors="replace").read())
        for m in re.finditer(r"(?:From\s+V\s+)?Require\s+(?:Import\s+|Export\s+)?(.*?)\.(?=\s|$)", src, re.S):
            fromv = m.group(0).startswith("From")
            for mod in m.group(1).split():
                if mod.startswith("V."):
                    mod = mod[2:]
                elif not fromv:
                    continue
                p = mod.replace(".", "/") + ".v"
                if os.path.exists(os.path.join(COQ, p)):
                    todo.append(p)
    return sorted(seen)


STMT_RE = re.compile(r"^\s*(?:Local\s+|Global\s+|#\[[^\]]*\]\s*)*(Theorem|Lemma|Corollary|Example|Fact|Proposition|Remark)\s+([\w']+)", re.M)


def count_obligations(vfile):
    n = 0
    names = []
    for f in coq_cone(vfile):
        src = strip_coq_comments(open(os.path.join(COQ, f), errors="replace").read())
        for m in STMT_RE.finditer(src):
            n += 1
            if f == vfile:
                names.append(m.group(2))
    return n, names


def coq_props(pid, timeout=600):
    """Build the cone of props/<pid>.v, then re-run coqc on it to collect Print Assumptions.

    Returns dict(ok, log, assumptions={thm: [axioms]}, bad_axioms=[...], theorems=[...])."""
    vfile = "props/%s.v" % pid
    cone = coq_cone(vfile)
    deps = [f[:-2] + ".vo" for f in cone if f != vfile]
    res = {"ok": False, "log": "", "assumptions": {}, "bad_axioms": [], "theorems": [], "cone": cone}
    if deps:
        rc, out = coq_make(deps, timeout=timeout)
        res["log"] += out[-6000:]
        if rc != 0:
            res["failed_stage"] = "cone"
            m = re.search(r'File "([^"]+)", line (\d+)', out)
            res["failed_at"] = (m.group(1) + ":" + m.group(2)) if m else "?"
            return res
    lock = os.path.join(BUILD, "coq.lock")
    rc, out = sh("flock %s timeout %d coqc -q -Q . V -w -notation-overridden %s" % (lock, timeout, vfile), cwd=COQ, timeout=timeout + 600)
    res["log"] += out[-6000:]
    if rc != 0:
        res["failed_stage"] = "props"
        m = re.search(r'File "([^"]+)", line (\d+)', out)
        res["failed_at"] = (m.group(1) + ":" + m.group(2)) if m else "?"
        return res
    # parse Print Assumptions blocks: the property file prints, for each theorem,
    #   a line "ASSUMPTIONS <name>" (via idtac is not possible at toplevel, so we rely on order)
    src = strip_coq_comments(open(os.path.join(COQ, vfile)).read())
    order = re.findall(r"Print\s+Assumptions\s+([\w'.]+)\s*\.", src)
    blocks = re.split(r"(?m)^(?=Closed under the global context|Axioms:)", out)
    blocks = [b for b in blocks if b.startswith("Closed under") or b.startswith("Axioms:")]
    if len(blocks) != len(order):
        res["failed_stage"] = "assumptions-parse"
        res["failed_at"] = "expected %d Print Assumptions outputs, saw %d" % (len(order), len(blocks))
        return res
    for name, b in zip(order, blocks):
        axs = []
        if b.startswith("Axioms:"):
            for line in b.split("\n")[1:]:
                m = re.match(r"^([\w'.]+)\s*:", line)
                if m:
                    axs.append(m.group(1))
        res["assumptions"][name] = axs
        for a in axs:
            if a not in AXIOM_ALLOW and a.split(".")[-1] not in {x.split(".")[-1] for x in AXIOM_ALLOW}:
                res["bad_axioms"].append("%s depends on %s" % (name, a))
    thms = [m.group(2) for m in STMT_RE.finditer(src)]
    res["theorems"] = thms
    order_last = {o.split('.')[-1] for o in order}
    missing = [t for t in thms if t not in order_last]
    if missing:
        res["failed_stage"] = "assumptions-missing"
        res["failed_at"] = "no Print Assumptions for " + ",".join(missing)
        return res
    res["ok"] = not res["bad_axioms"]
    if res["bad_axioms"]:
        res["failed_stage"] = "axioms"
        res["failed_at"] = "; ".join(res["bad_axioms"])
    return res


def ocaml_driver(pid, timeout=900):
    """extract/<pid>.v writes ocaml/<pid>/model.ml; link it with ocaml/<pid>/driver.ml."""
    d = os.path.join(VERIF, "ocaml", pid.lower())
    rc, out = coq_make(["extract/%s.vo" % pid], timeout=timeout)
    if rc != 0:
        return False, out[-4000:]
    exe = os.path.join(d, "driver")
    g1 = os.path.exists(os.path.join(d, "USE_G1DRV"))
    if g1:
        sh("cp %s %s" % (os.path.join(VERIF, "ocaml", "common", "g1drv.ml"), os.path.join(d, "g1drv.ml")))
    srcs = [os.path.join(d, "model.mli"), os.path.join(d, "model.ml")] + ([os.path.join(d, "g1drv.ml")] if g1 else []) + [os.path.join(d, "driver.ml")]
    for s in srcs:
        if not os.path.exists(s):
            return False, "missing " + s
    if os.path.exists(exe) and all(os.path.getmtime(exe) >= os.path.getmtime(s) for s in srcs):
        return True, "cached"
    files = " ".join(os.path.basename(x) for x in srcs)
    rc, out = sh("ocamlfind ocamlopt -w -a -package str %s -linkpkg -o driver" % files, cwd=d, timeout=timeout)
    return rc == 0, out[-4000:]


def cargo_build(ws, bins=None, release=False, rustflags=None, timeout=3000, features=None, extra=None):
    """Build harness workspace `ws` (dir under harness/) against /repo's current tree."""
    wd = os.path.join(VERIF, "harness", ws)
    lockf = os.path.join(wd, "Cargo.lock")
    if not os.path.exists(lockf):
        sh("cp %s/Cargo.lock %s" % (REPO, lockf))
    env = {"CARGO_TARGET_DIR": os.path.join(BUILD, "target-" + ws), "CARGO_NET_OFFLINE": "true"}
    if rustflags:
        env["RUSTFLAGS"] = rustflags
    cmd = "cargo build --offline -j%d" % NPROC
    if extra:
        cmd += " " + extra
    if release:
        cmd += " --release"
    for b in bins or []:
        cmd += " --bin " + b
    if features:
        cmd += " --features " + features
    rc, out = sh(cmd, cwd=wd, env=env, timeout=timeout)
    if rc != 0 and "Cargo.lock" in out and "needs to be updated" in out:
        sh("cp %s/Cargo.lock %s" % (REPO, lockf))
        rc, out = sh(cmd, cwd=wd, env=env, timeout=timeout)
    tdir = os.path.join(env["CARGO_TARGET_DIR"], "release" if release else "debug")
    return rc == 0, out[-6000:], tdir


class Ctx:
    def __init__(self, pid, tier, seed):
        self.pid = pid
        self.tier = tier
        self.seed = seed
        self.t0 = time.time()
        self.violations = []       # list of dict(replay=path, what=str, no_input=bool)
        self.known_hits = []       # list of str
        self.cov = {}
        self.assumptions = []
        self.level = "proof"
        self.notes = []
        kf = os.path.join(VERIF, "known_findings.json")
        self.known = [k for k in json.load(open(kf))["findings"] if k["property"] == pid] if os.path.exists(kf) else []

    def thorough(self):
        return self.tier == "thorough"

    def log(self, *a):
        print("[%s %6.1fs]" % (self.pid, time.time() - self.t0), *a, flush=True)

    def violation(self, what, replay_obj, no_input=False, key=None):
        """Report a violation unless it matches a listed known finding (matched by `key`)."""
        if key is not None:
            for k in self.known:
                if k.get("status", "known") == "known" and k.get("key") == key:
                    msg = "KNOWN-FINDING: property=%s %s" % (self.pid, k["what"])
                    if msg not in self.known_hits:
                        self.known_hits.append(msg)
                        print(msg, flush=True)
                    return False
        d = os.path.join(OUT, "replays", self.pid)
        os.makedirs(d, exist_ok=True)
        body = dict(replay_obj)
        body.update({"property": self.pid, "what": what, "no_failing_input_found": bool(no_input),
                     "seed": self.seed, "tier": self.tier, "key": key})
        blob = json.dumps(body, indent=1, sort_keys=True, default=str)
        path = os.path.join(d, hashlib.sha1(blob.encode()).hexdigest()[:12] + ".json")
        open(path, "w").write(blob)
        line = "VIOLATION property=%s replay=%s" % (self.pid, path)
        if no_input:
            line += " no-failing-input-found"
        print("[%s] %s" % (self.pid, what), flush=True)
        print(line, flush=True)
        self.violations.append({"replay": path, "what": what, "no_input": bool(no_input)})
        return True

    def finish(self):
        cov = dict(self.cov)
        cov.setdefault("samples", [])
        cov["known_findings_reported"] = list(self.known_hits)
        ev = {
            "property_id": self.pid,
            "tier": self.tier if self.tier in ("quick", "thorough") else "quick",
            "seed": int(self.seed),
            "level": self.level,
            "coverage": cov,
            "assumptions": self.assumptions,
            "wall_s": round(time.time() - self.t0, 2),
            "violations": len(self.violations),
        }
        if self.notes:
            ev["coverage"]["notes"] = self.notes
        os.makedirs(os.path.join(OUT, "evidence"), exist_ok=True)
        p = os.path.join(OUT, "evidence", "%s.json" % self.pid)
        open(p, "w").write(json.dumps(ev, indent=1, default=str) + "\n")
        self.log("evidence written:", p, "violations:", len(self.violations))
        return 1 if self.violations else 0


def proof_stage(ctx, extra_targets=()):
    """Steps 1-2 of every check.  Returns True iff hygiene, cone build and assumption
    allowlist all pass.  On failure records what broke in ctx.broken (the search then runs)."""
    ctx.broken = []
    hits = hygiene()
    if hits:
        ctx.broken.append({"obligation": "hygiene", "detail": hits[:20]})
        ctx.log("hygiene hits:", hits[:5])
    r = coq_props(ctx.pid)
    nobl, names = count_obligations("props/%s.v" % ctx.pid)
    ctx.cov["obligations"] = nobl
    ctx.cov["property_theorems"] = r.get("theorems") or names
    ctx.cov["checker_cmd"] = "make -C /verif/coq <cone of props/%s.v> (full .vo build, coqc 8.16.1) ; coqc props/%s.v (Print Assumptions)" % (ctx.pid, ctx.pid)
    tb = ["Coq 8.16.1 kernel (coqc), vm_compute where a proof uses it; no native_compute"]
    if r["ok"]:
        ctx.cov["discharged"] = nobl
        axs = sorted({a for v in r["assumptions"].values() for a in v})
        tb.append("Print Assumptions over %d property theorems: %s" % (len(r["assumptions"]), ", ".join(axs) if axs else "Closed under the global context (no axioms)"))
    else:
        ctx.cov["discharged"] = 0
        ctx.broken.append({"obligation": "coq:" + r.get("failed_stage", "?"), "detail": r.get("failed_at", "?"), "log_tail": r["log"][-1500:]})
        ctx.log("proof stage FAILED at", r.get("failed_stage"), r.get("failed_at"))
    ctx.cov["trusted_base"] = tb
    ctx.cov["cone_files"] = r.get("cone", [])
    return not ctx.broken


def splitmix64(state):
    state = (state + 0x9E3779B97F4A7C15) & 0xFFFFFFFFFFFFFFFF
    z = state
    z = ((z ^ (z >> 30)) * 0xBF58476D1CE4E5B9) & 0xFFFFFFFFFFFFFFFF
    z = ((z ^ (z >> 27)) * 0x94D049BB133111EB) & 0xFFFFFFFFFFFFFFFF
    return state, z ^ (z >> 31)


class Rng:
    def __init__(self, seed):
        self.s = seed & 0xFFFFFFFFFFFFFFFF

    def next(self):
        self.s, v = splitmix64(self.s)
        return v

    def below(self, n):
        return self.next() % n if n > 0 else 0

    def choice(self, xs):
        return xs[self.below(len(xs))]


def main(run, pid):
    tier = "quick"
    replay = None
    args = sys.argv[1:]
    for i, a in enumerate(args):
        if a in ("quick", "thorough"):
            tier = a
        if a == "--replay" and i + 1 < len(args):
            replay = args[i + 1]
    tier = os.environ.get("VERIF_TIER", tier) if tier == "quick" and "thorough" not in args else tier
    if tier not in ("quick", "thorough"):
        tier = "quick"
    seed = int(os.environ.get("VERIF_SEED", "20260923") or 0)
    ctx = Ctx(pid, tier, seed)
    ctx.replay = replay
    try:
        run(ctx)
    except Exception as ex:  # a crash of the machinery is not a pass
        import traceback
        traceback.print_exc()
        ctx.violation("check machinery failed: %r" % (ex,), {"exception": repr(ex)}, no_input=True)
    return ctx.finish()


# ---------------------------------------------------------------------------------------
# G3: harness | driver pipelines
# ---------------------------------------------------------------------------------------
def run_pipelines(jobs, driver, timeout=1500, keep_lines=5):
    """jobs: list of (label, harness argv list).  Each is run as `harness ... | driver` (the
    harness executes the implementation and prints ops + observations; the driver replays
    them on the extracted model).  Returns dict(summary counters, mismatches, opcount, samples)."""
    import concurrent.futures as cf
    res = {"cases": 0, "ops": 0, "mismatches_model": 0, "mismatches_spec": 0, "distinct_nontrivial": 0,
           "mismatch_lines": [], "opcount": {}, "samples": [], "failed_jobs": [], "extra": {}}
    per_label = {}

    def one(job):
        label, argv = job
        cmd = " ".join(argv) + " 2>/dev/null | " + driver
        rc, out = sh("set -o pipefail; " + cmd, timeout=timeout)
        return label, argv, rc, out

    with cf.ThreadPoolExecutor(max_workers=NPROC) as ex:
        for label, argv, rc, out in ex.map(one, jobs):
            got_summary = False
            for line in out.split("\n"):
                if line.startswith("MISMATCH"):
                    # the first 200 lines, plus up to 12 lines of every job (a flood from one
                    # component must not hide the first mismatches of another), 3000 at most
                    per_label[label] = per_label.get(label, 0) + 1
                    if len(res["mismatch_lines"]) < 200 or (per_label[label] <= 12 and len(res["mismatch_lines"]) < 3000):
                        res["mismatch_lines"].append((label, " ".join(argv), line))
                elif line.startswith("SUMMARY"):
                    got_summary = True
                    for kv in line.split()[1:]:
                        k, v = kv.split("=")
                        res[k] = res.get(k, 0) + int(v)
                elif line.startswith("OPCOUNT"):
                    _, k, v = line.split()
                    res["opcount"][k] = res["opcount"].get(k, 0) + int(v)
                elif line.startswith("SAMPLE"):
                    if len(res["samples"]) < keep_lines:
                        res["samples"].append(line[7:])
                elif line.startswith("SITE"):
                    parts = line.split()
                    if len(parts) >= 6:
                        res.setdefault("sites", {}).setdefault(label.split(":")[1] if ":" in label else label, {}).setdefault(parts[1], set()).add((parts[2], parts[3], parts[4]))
                elif line.startswith("EXTRA"):
                    _, k, v = line.split()
                    res["extra"][k] = res["extra"].get(k, 0) + int(v)
            if rc != 0 or not got_summary:
                res["failed_jobs"].append((label, " ".join(argv), rc, out[-800:]))
    return res


def extract_case(argv, driver_unused, case_no, timeout=600):
    """Re-run a harness job and cut out the text of case number `case_no` (1-based)."""
    rc, out = sh(" ".join(argv) + " 2>/dev/null", timeout=timeout)
    n = 0
    cur = []
    for line in out.split("\n"):
        if line.startswith("C "):
            n += 1
            if n > case_no:
                break
            cur = [line] if n == case_no else []
        elif n == case_no:
            cur.append(line)
    return cur


# ---------------------------------------------------------------------------------------
# G1: instrumented atomics drop-in
# ---------------------------------------------------------------------------------------
def g1_build(bins, timeout=3000):
    """Regenerates the concurrency-sync drop-in from /repo's current tree and builds the g1
    harness workspace against it (cargo `paths` override).  Returns (ok, log, target_dir)."""
    wd = os.path.join(VERIF, "harness", "g1")
    lk = os.path.join(BUILD, "g1gen.lock")
    os.makedirs(BUILD, exist_ok=True)
    dropin = os.path.join(BUILD, "sync-dropin")
    rc, out = sh("flock %s python3 gen_dropin.py %s" % (lk, dropin), cwd=wd, timeout=300)
    if rc != 0:
        return False, "drop-in generation failed (expected alias block not found?):\n" + out, None
    ok, out2, tdir = cargo_build("g1", bins=bins, timeout=timeout, extra="--config 'paths=[\"%s\"]'" % dropin)
    return ok, out + out2, tdir
