//! G1 correspondence harness for C03: runs producer/consumer programs on the REAL
//! IndexQueue / spsc::Queue / SafelyOverflowingIndexQueue under the baton scheduler and prints
//! every access.
//! usage: c03 exh <kind> <bound> <shard> <nshards> <seed> <maxexecs>
//!        c03 rnd <kind> <count> <shard> <nshards> <seed>
//!        c03 one <kind> <cap> <program> <schedule>      (replay: program "acqp,push1|acqc,pop", schedule "0,0,1")
extern crate iceoryx2_bb_loggers;
use iceoryx2_bb_lock_free::spsc::index_queue::IndexQueue;
use iceoryx2_bb_lock_free::spsc::queue::Queue;
use iceoryx2_bb_lock_free::spsc::safely_overflowing_index_queue::SafelyOverflowingIndexQueue;
use sched::*;
use std::io::Write;
use std::sync::Arc;

#[derive(Clone, Copy, Debug, PartialEq)]
enum Op { AcqP, RelP, AcqC, RelC, Push(u64), Pop }

fn op_str(o: &Op) -> String {
    match o { Op::AcqP => "acqp".into(), Op::RelP => "relp".into(), Op::AcqC => "acqc".into(), Op::RelC => "relc".into(), Op::Push(v) => format!("push{}", v), Op::Pop => "pop".into() }
}
fn parse_op(s: &str) -> Op {
    match s { "acqp" => Op::AcqP, "relp" => Op::RelP, "acqc" => Op::AcqC, "relc" => Op::RelC, "pop" => Op::Pop,
        _ if s.starts_with("push") => Op::Push(s[4..].parse().unwrap()), _ => panic!("bad op {}", s) }
}
fn prog_str(p: &[Vec<Op>]) -> String {
    p.iter().map(|t| t.iter().map(op_str).collect::<Vec<_>>().join(",")).collect::<Vec<_>>().join("|")
}

type Body = Box<dyn FnOnce() + Send>;

/// body of one harness thread for queue type $q with handle methods of the real API
macro_rules! body {
    ($arc:expr, $ops:expr, $push:expr, $pop:expr) => {{
        let q = $arc.clone();
        let ops: Vec<Op> = $ops.clone();
        Box::new(move || {
            let mut prod = None;
            let mut cons = None;
            for op in ops {
                match op {
                    Op::AcqP => { prod = q.acquire_producer(); ret(if prod.is_some() { 1 } else { 0 }); }
                    Op::RelP => { if prod.is_some() { prod = None; ret(0); } }
                    Op::AcqC => { cons = q.acquire_consumer(); ret(if cons.is_some() { 1 } else { 0 }); }
                    Op::RelC => { if cons.is_some() { cons = None; ret(0); } }
                    Op::Push(v) => { if let Some(p) = prod.as_mut() { let r: u64 = $push(p, v); ret(r); } }
                    Op::Pop => { if let Some(c) = cons.as_mut() { let r: u64 = $pop(c); ret(r); } }
                }
            }
            // handles still held at the end are leaked, not dropped: the model program ends here
            core::mem::forget(prod); core::mem::forget(cons);
        }) as Body
    }};
}

enum AnyQ { Iq(Arc<IndexQueue>), Oq(Arc<SafelyOverflowingIndexQueue>), Sq1(Arc<Queue<u64, 1>>), Sq2(Arc<Queue<u64, 2>>), Sq3(Arc<Queue<u64, 3>>) }

fn make(kind: &str, cap: usize) -> AnyQ {
    match kind {
        "iq" => AnyQ::Iq(Arc::new(IndexQueue::new(cap))),
        "oq" => AnyQ::Oq(Arc::new(SafelyOverflowingIndexQueue::new(cap))),
        "sq" => match cap { 1 => AnyQ::Sq1(Arc::new(Queue::new())), 2 => AnyQ::Sq2(Arc::new(Queue::new())), 3 => AnyQ::Sq3(Arc::new(Queue::new())), _ => panic!("sq cap") },
        _ => panic!("kind"),
    }
}

fn bodies(q: &AnyQ, prog: &[Vec<Op>]) -> Vec<Body> {
    let mut v = Vec::new();
    for ops in prog {
        v.push(match q {
            AnyQ::Iq(a) => body!(a, ops, |p: &mut iceoryx2_bb_lock_free::spsc::index_queue::Producer<'_, _>, x: u64| if p.push(x) { 1 } else { 0 },
                                 |c: &mut iceoryx2_bb_lock_free::spsc::index_queue::Consumer<'_, _>| match c.pop() { Some(x) => x + 1, None => 0 }),
            AnyQ::Oq(a) => body!(a, ops, |p: &mut iceoryx2_bb_lock_free::spsc::safely_overflowing_index_queue::Producer<'_, _>, x: u64| match p.push(x) { Some(o) => o + 1, None => 0 },
                                 |c: &mut iceoryx2_bb_lock_free::spsc::safely_overflowing_index_queue::Consumer<'_, _>| match c.pop() { Some(x) => x + 1, None => 0 }),
            AnyQ::Sq1(a) => body!(a, ops, |p: &mut iceoryx2_bb_lock_free::spsc::queue::Producer<'_, u64, 1>, x: u64| if p.push(&x) { 1 } else { 0 },
                                 |c: &mut iceoryx2_bb_lock_free::spsc::queue::Consumer<'_, u64, 1>| match c.pop() { Some(x) => x + 1, None => 0 }),
            AnyQ::Sq2(a) => body!(a, ops, |p: &mut iceoryx2_bb_lock_free::spsc::queue::Producer<'_, u64, 2>, x: u64| if p.push(&x) { 1 } else { 0 },
                                 |c: &mut iceoryx2_bb_lock_free::spsc::queue::Consumer<'_, u64, 2>| match c.pop() { Some(x) => x + 1, None => 0 }),
            AnyQ::Sq3(a) => body!(a, ops, |p: &mut iceoryx2_bb_lock_free::spsc::queue::Producer<'_, u64, 3>, x: u64| if p.push(&x) { 1 } else { 0 },
                                 |c: &mut iceoryx2_bb_lock_free::spsc::queue::Consumer<'_, u64, 3>| match c.pop() { Some(x) => x + 1, None => 0 }),
        });
    }
    v
}

/// drain what is left (ungated, after all threads are done) -- final content, oldest first
fn drain(q: &AnyQ) -> Vec<u64> {
    let mut r = vec![];
    let _ = 0; // (handles leaked by the bodies keep has_consumer == false: pop through the raw interface)
    match q {
        AnyQ::Iq(a) => { while let Some(v) = unsafe { a.pop() } { r.push(v); } }
        AnyQ::Oq(a) => { while let Some(v) = unsafe { a.pop() } { r.push(v); if r.len() > 64 { r.push(999999999); break; } } }
        AnyQ::Sq1(a) => { while let Some(v) = unsafe { a.pop() } { r.push(v); } }
        AnyQ::Sq2(a) => { while let Some(v) = unsafe { a.pop() } { r.push(v); } }
        AnyQ::Sq3(a) => { while let Some(v) = unsafe { a.pop() } { r.push(v); } }
    }
    r
}

fn emit(kind: &str, cap: usize, prog: &[Vec<Op>], ex: &Exec, q: &AnyQ, out: &mut impl Write) {
    let _ = writeln!(out, "C {} {} {}", kind, cap, prog_str(prog));
    print_exec(ex, out);
    let sched: Vec<String> = ex.choices.iter().map(|c| c.to_string()).collect();
    let _ = writeln!(out, "S {}", sched.join(","));
    let d = drain(q);
    let _ = writeln!(out, "F {}", d.iter().map(|v| v.to_string()).collect::<Vec<_>>().join(","));
}

/// program templates: thread 0 produces, thread 1 consumes; optional third thread tries to
/// grab the handles (hand-over) -- values are distinct so duplication/loss is visible
fn programs(kind: &str) -> Vec<(usize, Vec<Vec<Op>>)> {
    let mut v = Vec::new();
    let caps: &[usize] = if kind == "oq" { &[0, 1, 2, 3] } else { &[1, 2, 3] };
    for &cap in caps {
        for np in 1..=3u64 {
            for nc in 1..=3usize {
                let mut p = vec![Op::AcqP]; for i in 0..np { p.push(Op::Push(10 + i)); }
                let mut c = vec![Op::AcqC]; for _ in 0..nc { c.push(Op::Pop); }
                v.push((cap, vec![p, c]));
            }
        }
        // hand-over: producer releases, a third thread takes over and pushes; consumer likewise
        v.push((cap, vec![vec![Op::AcqP, Op::Push(10), Op::RelP], vec![Op::AcqC, Op::Pop, Op::RelC, Op::AcqC, Op::Pop], vec![Op::AcqP, Op::Push(20), Op::AcqC, Op::Pop]]));
        v.push((cap, vec![vec![Op::AcqP, Op::Push(10), Op::Push(11), Op::RelP, Op::AcqC, Op::Pop], vec![Op::AcqC, Op::Pop, Op::RelC, Op::AcqP, Op::Push(30)]]));
    }
    v
}

fn main() {
    if std::env::var("VERIF_PANIC_VERBOSE").is_err() { std::panic::set_hook(Box::new(|_| {})); }
    iceoryx2_log::set_log_level(iceoryx2_log::LogLevel::Fatal);
    let a: Vec<String> = std::env::args().collect();
    let stdout = std::io::stdout();
    let mut out = std::io::BufWriter::with_capacity(1 << 20, stdout.lock());
    install();
    match a[1].as_str() {
        "exh" => {
            let kind = a[2].as_str(); let bound: usize = a[3].parse().unwrap();
            let shard: usize = a[4].parse().unwrap(); let nsh: usize = a[5].parse().unwrap();
            let maxexecs: usize = a.get(7).map(|s| s.parse().unwrap()).unwrap_or(100000);
            for (i, (cap, prog)) in programs(kind).into_iter().enumerate() {
                if i % nsh != shard { continue; }
                let cur: std::cell::RefCell<Option<AnyQ>> = std::cell::RefCell::new(None);
                let mut mk = || { let q = make(kind, cap); let b = bodies(&q, &prog); *cur.borrow_mut() = Some(q); b };
                let mut outcell = std::cell::RefCell::new(&mut out);
                let mut visit = |ex: &Exec| { let q = cur.borrow(); emit(kind, cap, &prog, ex, q.as_ref().unwrap(), &mut **outcell.borrow_mut()); };
                explore(bound, maxexecs, &mut mk, &mut visit);
                let _ = &mut outcell;
            }
        }
        "rnd" => {
            let kind = a[2].as_str(); let count: u64 = a[3].parse().unwrap();
            let shard: u64 = a[4].parse().unwrap(); let nsh: u64 = a[5].parse().unwrap(); let seed: u64 = a[6].parse().unwrap();
            for n in 0..count {
                if n % nsh != shard { continue; }
                let mut rng = Rng(seed ^ n.wrapping_mul(0x2545F4914F6CDD1D));
                let cap = if kind == "oq" { rng.below(4) as usize } else { 1 + rng.below(3) as usize };
                let len = 4 + rng.below(20) as usize;
                let mut p = vec![Op::AcqP]; let mut c = vec![Op::AcqC];
                for i in 0..len { p.push(Op::Push(100 + i as u64)); if rng.below(8) == 0 { p.push(Op::RelP); p.push(Op::AcqP); } }
                for _ in 0..len + 2 { c.push(Op::Pop); if rng.below(8) == 0 { c.push(Op::RelC); c.push(Op::AcqC); } }
                let prog = vec![p, c];
                let q = make(kind, cap);
                let ex = run_random(rng.next(), bodies(&q, &prog));
                emit(kind, cap, &prog, &ex, &q, &mut out);
            }
        }
        // weak-memory correspondence: fixed roles (thread 0 produces, thread 1 consumes), seeded random
        // schedules, and C11-permitted STALE values injected into loads / failed compare-exchanges of
        // the queue's cursors (sched::stale_enable); the driver replays on the release/acquire view model
        "ras" => {
            let kind = a[2].as_str(); let count: u64 = a[3].parse().unwrap();
            let shard: u64 = a[4].parse().unwrap(); let nsh: u64 = a[5].parse().unwrap(); let seed: u64 = a[6].parse().unwrap();
            let percent: u64 = a.get(7).map(|s| s.parse().unwrap()).unwrap_or(40);
            let files: &[&'static str] = match kind { "oq" => &["safely_overflowing_index_queue.rs"], "iq" => &["index_queue.rs"], _ => &["spsc/queue.rs"] };
            for n in 0..count {
                if n % nsh != shard { continue; }
                let mut rng = Rng(seed ^ n.wrapping_mul(0x2545F4914F6CDD1D) ^ 0x5157);
                let cap = if kind == "oq" { rng.below(4) as usize } else { 1 + rng.below(3) as usize };
                let np = 1 + rng.below(6) as usize; let nc = 1 + rng.below(6) as usize;
                let mut p = vec![Op::AcqP]; let mut c = vec![Op::AcqC];
                for i in 0..np { p.push(Op::Push(100 + i as u64)); }
                for _ in 0..nc { c.push(Op::Pop); }
                let prog = vec![p, c];
                let q = make(kind, cap);
                sched::stale_enable(rng.next(), percent, files);
                let ex = run_random(rng.next(), bodies(&q, &prog));
                let inj = sched::stale_disable();
                let _ = writeln!(out, "C {}ra {} {}", kind, cap, prog_str(&prog));
                print_exec(&ex, &mut out);
                let schedv: Vec<String> = ex.choices.iter().map(|c| c.to_string()).collect();
                let _ = writeln!(out, "S {} inj={}", schedv.join(","), inj);
                let d = drain(&q);
                let _ = writeln!(out, "F {}", d.iter().map(|v| v.to_string()).collect::<Vec<_>>().join(","));
            }
        }
        "one" => {
            let kind = a[2].as_str(); let cap: usize = a[3].parse().unwrap();
            let prog: Vec<Vec<Op>> = a[4].split('|').map(|t| t.split(',').filter(|s| !s.is_empty()).map(parse_op).collect()).collect();
            let sch: Vec<usize> = a[5].split(',').filter(|s| !s.is_empty()).map(|s| s.parse().unwrap()).collect();
            let q = make(kind, cap);
            let mut chooser = |step: usize, enabled: &[usize], last: Option<usize>| -> Choice {
                if step < sch.len() && enabled.contains(&sch[step]) { Choice::Run(sch[step]) }
                else { match last { Some(l) if enabled.contains(&l) => Choice::Run(l), _ => Choice::Run(enabled[0]) } }
            };
            let ex = run_threads(bodies(&q, &prog), &mut chooser);
            emit(kind, cap, &prog, &ex, &q, &mut out);
        }
        _ => panic!("mode"),
    }
    let _ = out.flush();
}
